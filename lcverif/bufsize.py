"""A small symbolic size/termination analysis for malloc'ed string buffers on one explored path.

Sizes and offsets are linear expressions over opaque length terms (results of strlen/strcspn/...
calls, parameters) with integer coefficients.  For every buffer obtained from malloc() on the path
the writes made through string/memory routines are collected; the analysis answers
  - does every write stay within the allocated size (linear dominance), and
  - is the buffer NUL-terminated at the moment it is read as a string or returned.
"""
from . import sym


class Lin(object):
    """c0 + sum(coeff * term)"""

    def __init__(self, const=0, terms=None):
        self.const = const
        self.terms = dict(terms or {})

    def add(self, o, k=1):
        r = Lin(self.const + k * o.const, self.terms)
        for t, c in o.terms.items():
            r.terms[t] = r.terms.get(t, 0) + k * c
            if r.terms[t] == 0:
                del r.terms[t]
        return r

    def le(self, o):
        """self <= o for all non-negative values of the terms"""
        d = o.add(self, -1)
        return d.const >= 0 and all(c >= 0 for c in d.terms.values())

    def eq(self, o):
        d = o.add(self, -1)
        return d.const == 0 and not d.terms

    def __repr__(self):
        parts = ['%s%s' % ('' if c == 1 else '%d*' % c, sym.render(t)) for t, c in self.terms.items()]
        if self.const or not parts:
            parts.append(str(self.const))
        return ' + '.join(parts)


def lin(v):
    """linear form of an abstract integer value (None if it has a non-linear shape)"""
    v = strip(v)
    if sym.is_const(v):
        return Lin(v[1])
    if v[0] == 'bin' and v[1] == 'add':
        a, b = lin(v[2]), lin(v[3])
        return a.add(b) if a is not None and b is not None else None
    if v[0] == 'bin' and v[1] == 'sub':
        # difference of two positions in the same object
        b1, o1 = split_ptr(v[2])
        b2, o2 = split_ptr(v[3])
        if b1 == b2 and o1 is not None and o2 is not None and (v[2][0] in ('idx',) or v[3][0] in ('idx',)):
            return o1.add(o2, -1)
        a, b = lin(v[2]), lin(v[3])
        return a.add(b, -1) if a is not None and b is not None else None
    if v[0] == 'bin' and v[1] == 'mul' and (sym.is_const(v[2]) or sym.is_const(v[3])):
        k, o = (v[2], v[3]) if sym.is_const(v[2]) else (v[3], v[2])
        a = lin(o)
        if a is None:
            return None
        r = Lin(a.const * k[1])
        for t, c in a.terms.items():
            r.terms[t] = c * k[1]
        return r
    return Lin(0, {sym.norm(v): 1})


def strip(v):
    while v[0] == 'bin' and v[1] == 'trunc':
        v = v[2]
    return v


def split_ptr(v):
    """(base, offset Lin) of a pointer value built by indexing"""
    off = Lin(0)
    for _ in range(12):
        if v[0] == 'idx':
            o = lin(v[2])
            if o is None:
                return v, None
            off = off.add(o)
            v = v[1]
        elif v[0] == 'bin' and v[1] == 'add':
            o = lin(v[3])
            if o is None:
                return v, None
            off = off.add(o)
            v = v[2]
        else:
            break
    return v, off


def length_of(path, upto, src):
    """Lin for strlen(src) if the path measured it (strlen/strcspn on the same pointer), else None.
    A pointer base+k with known length of base yields len(base)-k."""
    nsrc = sym.norm(src)
    for e in path.events[:upto]:
        if e.kind == 'call' and e.name == 'strlen' and sym.norm(e.args[0]) == nsrc:
            return Lin(0, {sym.norm(e.res): 1})
    if src[0] == 'str':
        return Lin(len(src[1]))
    return None


class Buf(object):
    def __init__(self, ev, size):
        self.ev = ev
        self.size = size          # Lin or None
        self.extent = Lin(0)      # bytes certainly within [0, extent) written so far (max)
        self.curlen = None        # Lin: current C-string length if terminated
        self.terminated = False
        self.problems = []


def analyse(path):
    """[(Buf)] for the malloc'ed buffers of this path, with .problems filled"""
    nf = {}
    from .failpaths import is_null_assumption
    for cn, t, _ in path.assume:
        na = is_null_assumption(cn, t)
        if na:
            nf[na[0]] = na[1]
    bufs = {}
    for i, e in enumerate(path.events):
        if e.kind == 'call' and e.name == 'malloc' and nf.get(e.res) is not True:
            bufs[e.res] = Buf(e, lin(e.args[0]))
            continue
        if e.kind == 'call' and not e.inlined:
            n = e.name
            if n in ('strcpy', 'strcat', 'strncpy', 'memcpy', 'llvm.memcpy.p0i8.p0i8.i64', 'memmove', 'llvm.memmove.p0i8.p0i8.i64', 'snprintf', 'sprintf'):
                base, off = split_ptr(e.args[0])
                b = bufs.get(base)
                if b is None:
                    continue
                if off is None:
                    b.problems.append((e, 'a write at an offset the analysis cannot express'))
                    continue
                if n == 'strcpy':
                    ls = length_of(path, i, e.args[1])
                    if ls is None:
                        b.problems.append((e, 'strcpy() of a string whose length was not measured'))
                        continue
                    end = off.add(ls).add(Lin(1))
                    b.curlen = off.add(ls)
                    b.terminated = True
                elif n == 'strcat':
                    ls = length_of(path, i, e.args[1])
                    if ls is None or b.curlen is None or not b.terminated:
                        b.problems.append((e, 'strcat() onto a buffer that is not a measured, terminated string'))
                        continue
                    end = b.curlen.add(ls).add(Lin(1))
                    b.curlen = b.curlen.add(ls)
                elif n in ('snprintf',):
                    nn = lin(e.args[1])
                    if nn is None:
                        b.problems.append((e, 'snprintf() with an inexpressible bound'))
                        continue
                    end = off.add(nn)
                    b.terminated = True
                    b.curlen = None
                elif n == 'sprintf':
                    b.problems.append((e, 'unbounded sprintf() into a malloc()ed buffer'))
                    continue
                else:
                    nn = lin(e.args[2])
                    if nn is None:
                        b.problems.append((e, '%s() with an inexpressible length' % n))
                        continue
                    end = off.add(nn)
                    ls = length_of(path, i, e.args[1])
                    if n != 'strncpy' and ls is not None and nn.eq(ls.add(Lin(1))):
                        b.terminated = True          # the terminator of the source was copied too
                        b.curlen = off.add(ls)
                    else:
                        if b.terminated and b.curlen is not None and off.le(b.curlen) and not end.le(b.curlen):
                            b.terminated = False     # overwrote the terminator
                        elif not b.terminated:
                            pass
                if b.size is None or not end.le(b.size):
                    b.problems.append((e, 'writes up to byte %s of a buffer of %s bytes' % (end, b.size)))
                if not end.le(b.extent):
                    b.extent = end
            elif n in ('getpwnam', 'strlen', 'fopen', 'stat', 'strdup', 'strcmp', 'strcasecmp', 'getenv', 'strchr', 'strcspn',
                       'cfg_searchpath', 'cfg_tilde_expand', 'cfg_add_searchpath', 'cfg_parse', 'cfg_lexer_include'):
                for a in e.args:
                    b = bufs.get(a)
                    if b is not None and not b.terminated:
                        b.problems.append((e, 'is passed to %s() before any terminating write: %s reads uninitialised bytes past what was copied' % (n, n)))
        elif e.kind == 'store':
            base, off = split_ptr(e.addr)
            b = bufs.get(base)
            if b is None or off is None:
                continue
            end = off.add(Lin(1))
            if b.size is None or not end.le(b.size):
                b.problems.append((e, 'stores at byte %s of a buffer of %s bytes' % (off, b.size)))
            if e.val == sym.C0:
                b.terminated = True
                b.curlen = off
            if not end.le(b.extent):
                b.extent = end
        elif e.kind == 'ret' and e.depth == min(x.depth for x in path.events) and e.val in bufs:
            b = bufs[e.val]
            if not b.terminated:
                b.problems.append((e, 'is returned without a terminating NUL'))
    return list(bufs.values())


def buffer_pieces(path, buf):
    """the sources written into the string buffer `buf` on this path, in the order they end up in it:
    [('src', value) | ('lit', text)] - strcpy/strcat/memcpy/strncpy pieces and the pieces of an snprintf() format.
    None if a write cannot be expressed this way."""
    from . import outmodel
    out = []
    for e in path.events:
        if e.kind != 'call' or e.inlined:
            continue
        n = e.name
        if n in ('strcpy', 'strcat', 'strncpy', 'memcpy', 'llvm.memcpy.p0i8.p0i8.i64', 'memmove', 'llvm.memmove.p0i8.p0i8.i64'):
            base, off = split_ptr(e.args[0])
            if base != buf:
                continue
            if n == 'strcpy' or (n != 'strcat' and off is not None and off.eq(Lin(0))):
                out = []
            out.append(('src', e.args[1]))
        elif n in ('snprintf', 'sprintf'):
            base, off = split_ptr(e.args[0])
            if base != buf:
                continue
            fa = 2 if n == 'snprintf' else 1
            toks = outmodel.tokens_of_call('fprintf', [None] + list(e.args[fa:]), e)
            if toks is None:
                return None
            if off is not None and off.eq(Lin(0)):
                out = []
            for t in toks:
                if t[0] == 'lit':
                    out.append(('lit', t[1]))
                elif t[0] == 'arg' and t[1] == '%s':
                    out.append(('src', t[2]))
                else:
                    return None
    return out


def net_counter_change(events, counter):
    """net change of a global counter over the stores of a path (None if some store is not "counter + constant").
    A stored value that is built from the value the counter had on entry gives the offset from entry; one built from
    a value re-read after a call adds to what has been accumulated so far"""
    cur = 0
    for e in events:
        if e.kind != 'store' or e.addr != counter:
            continue
        got = lin(e.val)
        lds = [t for t in (got.terms if got is not None else {}) if t[0] == 'ld' and t[1] == counter]
        if got is None or len(got.terms) != 1 or len(lds) != 1 or got.terms[lds[0]] != 1:
            return None
        vers = []
        sym.mentions(e.val, lambda x: vers.append(x[2]) or False if (x[0] == 'ld' and x[1] == counter and len(x) > 2) else False)
        ver = vers[0] if vers else (0, 0)
        if ver == (0, 0):
            cur = got.const
        else:
            cur += got.const
    return cur
