"""Control-flow facts over ir.Function: dominators, post-dominators, loops,
reachability, call graph.  No libconfuse knowledge here."""
from collections import deque

EXIT = '<exit>'


def _rpo(fn):
    seen, order = set(), []
    stack = [(fn.order[0], iter(fn.blocks[fn.order[0]].succs))]
    seen.add(fn.order[0])
    while stack:
        lbl, it = stack[-1]
        adv = False
        for s in it:
            if s not in seen:
                seen.add(s)
                stack.append((s, iter(fn.blocks[s].succs)))
                adv = True
                break
        if not adv:
            order.append(lbl)
            stack.pop()
    order.reverse()
    return order


def dominators(fn):
    """label -> set of labels that dominate it (reachable blocks only)"""
    if getattr(fn, '_dom', None) is not None:
        return fn._dom
    rpo = _rpo(fn)
    allb = set(rpo)
    dom = {b: set(allb) for b in rpo}
    entry = rpo[0]
    dom[entry] = {entry}
    changed = True
    while changed:
        changed = False
        for b in rpo[1:]:
            preds = [p for p in fn.blocks[b].preds if p in allb]
            new = set(allb)
            for p in preds:
                new &= dom[p]
            new.add(b)
            if new != dom[b]:
                dom[b] = new
                changed = True
    fn._dom = dom
    return dom


def exit_blocks(fn):
    return [l for l in fn.order if fn.blocks[l].instrs and fn.blocks[l].term.op in ('ret', 'unreachable')]


def postdominators(fn):
    """label -> set of labels that post-dominate it; EXIT is the virtual sink"""
    if getattr(fn, '_pdom', None) is not None:
        return fn._pdom
    reach = set(_rpo(fn))
    succs = {b: [s for s in fn.blocks[b].succs if s in reach] for b in reach}
    for b in reach:
        if fn.blocks[b].term.op in ('ret', 'unreachable'):
            succs[b] = [EXIT]
    succs[EXIT] = []
    nodes = list(reach) + [EXIT]
    pd = {b: set(nodes) for b in nodes}
    pd[EXIT] = {EXIT}
    changed = True
    while changed:
        changed = False
        for b in nodes:
            if b == EXIT:
                continue
            ss = succs[b]
            if not ss:
                new = {b}
            else:
                new = set(nodes)
                for s in ss:
                    new &= pd[s]
                new.add(b)
            if new != pd[b]:
                pd[b] = new
                changed = True
    fn._pdom = pd
    return pd


def back_edges(fn):
    dom = dominators(fn)
    out = []
    for b in dom:
        for s in fn.blocks[b].succs:
            if s in dom.get(b, ()):
                out.append((b, s))
    return out


def natural_loops(fn):
    """header -> set of blocks in the loop"""
    if getattr(fn, '_loops', None) is not None:
        return fn._loops
    loops = {}
    for tail, head in back_edges(fn):
        body = loops.setdefault(head, {head})
        stack = [tail]
        while stack:
            x = stack.pop()
            if x not in body:
                body.add(x)
                stack.extend(fn.blocks[x].preds)
    fn._loops = loops
    return loops


def in_loop_blocks(fn, exclude_headers=()):
    s = set()
    for h, body in natural_loops(fn).items():
        if h in exclude_headers:
            continue
        s |= body
    return s


def reachable(fn, start, avoid=()):
    """blocks reachable from label start without entering blocks in avoid"""
    avoid = set(avoid)
    seen = set()
    dq = deque([start])
    while dq:
        b = dq.popleft()
        if b in seen or b in avoid:
            continue
        seen.add(b)
        dq.extend(fn.blocks[b].succs)
    return seen


def instr_dominates(fn, a, b):
    """instruction a dominates instruction b"""
    if a.block is b.block:
        return a.idx < b.idx
    return a.block.label in dominators(fn).get(b.block.label, ())


def call_graph(mods):
    """{caller: set(callee names)} direct edges over several modules"""
    g = {}
    for m in mods:
        for fn in m.funcs.values():
            s = g.setdefault(fn.name, set())
            for c in fn.calls():
                n = c.callee_name()
                if n and not n.startswith('llvm.'):
                    s.add(n)
    return g


def transitive(g, roots):
    seen = set()
    st = list(roots)
    while st:
        x = st.pop()
        if x in seen:
            continue
        seen.add(x)
        st.extend(g.get(x, ()))
    return seen


def find_path(g, src, dst):
    """shortest call chain src -> dst in call graph g (list of names) or None"""
    prev = {src: None}
    dq = deque([src])
    while dq:
        x = dq.popleft()
        if x == dst:
            out = []
            while x is not None:
                out.append(x)
                x = prev[x]
            return out[::-1]
        for y in sorted(g.get(x, ())):
            if y not in prev:
                prev[y] = x
                dq.append(y)
    return None
