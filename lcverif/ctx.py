"""Shared analysis context for the property modules."""
import os
from . import stage as _stage, cfg as _cfg, sym, summaries, lexmodel

PARSE_ENTRIES = ('cfg_parse', 'cfg_parse_fp', 'cfg_parse_buf')


class Ctx(object):
    def __init__(self, repo=None):
        self.stage = _stage.stage(repo)
        self._lex = None
        self._cg = None
        self._mods = None
        # helpers introduced by refactoring (not in the reference list) are analysed as part of their callers
        import json as _json
        try:
            with open(os.path.join(os.path.dirname(os.path.dirname(os.path.abspath(__file__))), 'spec', 'known_functions.json')) as fh:
                ref_ = _json.load(fh)
                known = set(ref_['functions'])
        except Exception:
            known = None
            ref_ = {}
        # a listed function whose parameters still have the listed types gets the listed parameter names:
        # the rules name parameters, and renaming one changes nothing a rule is about
        for m in self.modules:
            for n, f in m.funcs.items():
                want = (ref_.get('params') or {}).get(n)
                if want and len(want) == len(f.params) and all(w[0] == p_.ty for w, p_ in zip(want, f.params)):
                    for w, p_ in zip(want, f.params):
                        if w[1]:
                            old = f.param_names.get(p_.name)
                            f.param_names[p_.name] = w[1]
                            for r_, nm_ in list(f.var_names.items()):
                                if old and nm_ == old:
                                    f.var_names[r_] = w[1]
        self.unknown_funcs = set()
        if known is not None:
            for m in self.modules:
                for n in m.funcs:
                    if n in known or n.startswith('cfg_yy') or n.startswith('yy'):
                        # a file-local function whose parameter types are no longer the listed ones has been given another
                        # interface: what the rules know about it by name no longer applies - it is analysed as part of its
                        # callers like any helper
                        want = (ref_.get('params') or {}).get(n)
                        f_ = m.funcs[n]
                        if n in known and want is not None and getattr(f_, 'internal', False) and \
                                not (len(want) == len(f_.params) and all(w[0] == p_.ty for w, p_ in zip(want, f_.params))):
                            self.unknown_funcs.add(n)
                        continue
                    self.unknown_funcs.add(n)
        sym.AUTO_INLINE = set(self.unknown_funcs)
        self._owners = None
        # a helper that calls itself (directly or through other helpers) cannot be explored in place: it stays a call
        try:
            cg_ = self.callgraph
            for h in list(sym.AUTO_INLINE):
                seen_, work_ = set(), list(cg_.get(h, ()))
                while work_:
                    x = work_.pop()
                    if x == h:
                        sym.AUTO_INLINE.discard(h)
                        break
                    if x in seen_ or x not in self.unknown_funcs:
                        continue
                    seen_.add(x)
                    work_.extend(cg_.get(x, ()))
        except Exception:
            pass
        self._owners = None
        # fresh-returning functions are computed from the IR (a renamed or new allocation wrapper is picked up)
        from . import ownership
        self.fresh_returning = summaries.fresh_returning(self.modules)
        ownership.FRESH_RETURNING = set(ownership.FRESH_RETURNING) | set(self.fresh_returning)

    @property
    def confuse(self):
        return self.stage.confuse

    @property
    def lexer(self):
        return self.stage.lexer

    @property
    def modules(self):
        return [self.confuse, self.lexer]

    @property
    def lex(self):
        if self._lex is None:
            self._lex = lexmodel.LexModel(self.stage)
        return self._lex

    @property
    def callgraph(self):
        if self._cg is None:
            self._cg = _cfg.call_graph(self.modules)
        return self._cg

    @property
    def mod_sets(self):
        if self._mods is None:
            self._mods = summaries.mod_sets(self.modules)
        return self._mods

    def owners(self, name):
        """known functions from which the (unknown) helper `name` is reached through unknown helpers only;
        a known function is its own owner"""
        if name not in self.unknown_funcs:
            return {name}
        if self._owners is None:
            self._owners = {}
            cg = self.callgraph
            rev = {}
            for a, bs in cg.items():
                for b in bs:
                    rev.setdefault(b, set()).add(a)
            for h in self.unknown_funcs:
                seen, work, own = set(), [h], set()
                while work:
                    x = work.pop()
                    if x in seen:
                        continue
                    seen.add(x)
                    for caller in rev.get(x, ()):
                        if caller in self.unknown_funcs:
                            work.append(caller)
                        else:
                            own.add(caller)
                self._owners[h] = own
        return self._owners.get(name, set())

    def is_helper(self, name):
        """an unknown function that is analysed as part of its callers: it has direct callers.  (An unknown function that is
        only stored in a table of function pointers has no caller to be analysed in: it stands for itself.)"""
        if name not in self.unknown_funcs:
            return False
        return bool(self.owners(name))

    def deep_funcs(self, fn):
        """fn plus the unknown helpers it reaches through unknown helpers only"""
        out, work, seen = [], [fn], set()
        while work:
            f = work.pop()
            if f.name in seen:
                continue
            seen.add(f.name)
            out.append(f)
            for call in f.calls():
                n = call.callee_name()
                if n in self.unknown_funcs:
                    g = self.func(n)
                    if g is not None:
                        work.append(g)
        return out

    def deep_calls(self, fn, name=None):
        for f in self.deep_funcs(fn):
            for call in f.calls(name):
                yield call

    def func(self, name):
        for m in self.modules:
            if name in m.funcs:
                return m.funcs[name]
        return None

    def need(self, name):
        f = self.func(name)
        if f is None:
            from .report import Broken
            raise Broken('anchor function %s() not found in the IR of /repo' % name)
        return f

    def all_funcs(self):
        for m in self.modules:
            for f in m.funcs.values():
                yield f

    def where(self, ins_or_fn, line=None):
        """'src/confuse.c:123' style location"""
        if hasattr(ins_or_fn, 'op'):
            ins = ins_or_fn
            f = ins.file or (ins.func.file if ins.func else None) or '?'
            ln = ins.line
            if ln is None and ins.block is not None:
                # phi / artificial instruction: nearest located instruction of the block
                ln = ins.block.first_line()
        else:
            f = ins_or_fn.file or '?'
            ln = line if line is not None else ins_or_fn.line
        base = os.path.basename(f)
        if base == 'lexer.c':
            return '<generated>lexer.c:%s' % ln
        return 'src/%s:%s' % (base, ln)

    def string_arg(self, ins, k):
        """constant string passed as k-th argument of a call (looking through gettext)"""
        if k >= len(ins.args):
            return None
        v = ins.args[k]
        s = ins.func.module.string_of(v)
        if s is not None:
            return s
        if v.kind == 'reg':
            d = ins.func.defs.get(v.name)
            if d is not None and d.op == 'call' and d.callee_name() in ('dcgettext', 'dgettext', 'gettext'):
                idx = 0 if d.callee_name() == 'gettext' else 1
                return self.string_arg(d, idx)
        return None
