"""Classification of the failing return paths of a function.

A failing path is a residual path (sym.Explorer) whose return value is one of
the function's failure codes.  Each is put in exactly one class:

  diagnosed   a cfg_error() call lies on the path
  alloc       the path assumes an allocator (or a callee that only fails on
              allocation) returned NULL
  veto        the path assumes a user callback (indirect call) returned non-zero
  cb-out      a user callback reported success but left its out-parameter NULL
  nullarg     the path assumes one of the function's own pointer parameters is NULL
  callee      the path assumes a library callee with its own summary failed
              (that callee's failing paths are judged where they are)
  silent      none of the above: the failure depends on input/state and nobody
              reported it
"""
import re as _re
from . import sym
from .parsermodel import describe_cond

ALLOCATORS = {'malloc', 'calloc', 'realloc', 'reallocarray', 'strdup', 'strndup', 'fmemopen'}
FOPEN = {'fopen'}
# integer-returning callees: their success value
SUCCESS_CODE = {'cfg_parse_internal': -1, 'call_function': 0, 'cfg_lexer_include': 0, 'cfg_include': 0}


def is_null_assumption(cnd, truth):
    """(value, True) if the assumption says value == NULL/0; (value, False) if it says non-null"""
    if cnd[0] != 'icmp' or cnd[1] not in ('eq', 'ne'):
        return None
    a, b = cnd[2], cnd[3]
    if sym.is_const(a):
        a, b = b, a
    if not (sym.is_const(b) and b[1] == 0):
        return None
    isnull = (cnd[1] == 'eq') == truth
    return (a, isnull)


def call_of(path, v):
    if v[0] != 'call':
        return None
    for e in path.events:
        if e.kind == 'call' and e.res == v:
            return e
    return None


class Summary(object):
    """per-function: classes of its failing paths"""

    def __init__(self):
        self.classes = {}     # class -> count
        self.paths = []       # (path, class, detail)

    def only(self, *cls):
        return all(c in cls for _, c, _ in self.paths)


class FailAnalysis(object):
    def __init__(self, ctx, alloc_only=(), diagnosing=(), max_visits=2):
        self.ctx = ctx
        self.ex = sym.Explorer(ctx.modules, max_visits=max_visits, mod_sets=ctx.mod_sets, max_paths=60000)
        self.alloc_only = set(alloc_only)     # callees whose failure is always an allocation failure
        self.diagnosing = set(diagnosing)     # callees whose failure has been diagnosed (or excused) by themselves
        self.cache = {}

    def paths(self, fn, **kw):
        key = (fn.name, tuple(sorted((k, str(v)) for k, v in kw.items())))
        if key not in self.cache:
            self.cache[key] = [p for p in self.ex.explore(fn, **kw) if p.end == 'ret']
        return self.cache[key]

    def classify(self, fn, path):
        """class of one failing path of fn"""
        if any(e.kind == 'call' and e.name == 'cfg_error' for e in path.events):
            return ('diagnosed', None)
        params = set(('p', fn.param_names.get(p.name, p.name)) for p in fn.params)
        cls = None
        rv = path.retval
        if rv is not None and rv[0] == 'call' and rv[1].startswith('indirect:'):
            return ('veto', rv[1])
        if rv is not None and rv[0] == 'call' and rv[1] in self.diagnosing:
            return ('callee', rv[1])
        for cnd, truth, ins in path.assume:
            na = is_null_assumption(cnd, truth)
            if na is None:
                # result of a covered callee compared with its success code
                if cnd[0] == 'icmp' and cnd[1] in ('eq', 'ne'):
                    for side, other in ((cnd[2], cnd[3]), (cnd[3], cnd[2])):
                        ev = call_of(path, side)
                        if ev is not None and ev.name in SUCCESS_CODE and sym.is_const(other) \
                                and other[1] == SUCCESS_CODE[ev.name] and ((cnd[1] == 'ne') == truth) \
                                and ev.name in self.diagnosing:
                            cls = cls or ('callee', ev.name)
                # non-zero result of an indirect call: veto
                if cnd[0] == 'icmp':
                    for side in (cnd[2], cnd[3]):
                        ev = call_of(path, side)
                        if ev is not None and ev.name.startswith('indirect:'):
                            other = cnd[3] if side is cnd[2] else cnd[2]
                            if sym.is_const(other) and other[1] == 0 and ((cnd[1] == 'ne') == truth):
                                return ('veto', ev.name)
                            if sym.is_const(other) and other[1] == 0 and cnd[1] in ('eq', 'ne'):
                                continue
                continue
            v, isnull = na
            ev = call_of(path, v)
            if ev is not None:
                failed = isnull
                if ev.name in SUCCESS_CODE and ev.name in self.diagnosing:
                    if SUCCESS_CODE[ev.name] == 0 and not isnull:
                        cls = cls or ('callee', ev.name)
                    continue
                if ev.name.startswith('indirect:'):
                    if not isnull:
                        return ('veto', ev.name)
                    continue
                if not failed:
                    continue
                if ev.name in ALLOCATORS or ev.name in self.alloc_only:
                    return ('alloc', ev.name)
                if ev.name in FOPEN:
                    cls = cls or ('io', ev.name)
                if ev.name in self.diagnosing and ev.name not in SUCCESS_CODE:
                    cls = cls or ('callee', ev.name)
                continue
            if isnull and v in params:
                cls = cls or ('nullarg', sym.render(v))
            if isnull and v[0] == 'ld' and v[1][0] == 'alloca':
                # out-parameter of a callback left NULL
                for e in path.events:
                    if e.kind == 'call' and e.name.startswith('indirect:') and v[1] in e.args:
                        cls = cls or ('cb-out', e.name)
        if cls:
            return cls
        return ('silent', None)

    def summary(self, fn, is_failure, **kw):
        s = Summary()
        for p in self.paths(fn, **kw):
            if not is_failure(p.retval):
                continue
            c, d = self.classify(fn, p)
            s.paths.append((p, c, d))
            s.classes[c] = s.classes.get(c, 0) + 1
        return s


def cond_text(path, n=4):
    out = []
    for cnd, t, _ in path.assume[-n:]:
        out.append(('' if t else '!') + describe_cond(cnd))
    return ' && '.join(out)


def cond_key(path):
    """stable key of the decisive (last) input-dependent assumption of a path"""
    for cnd, t, _ in reversed(path.assume):
        d = describe_cond(cnd)
        if d in ('comment', 'opttitle'):
            continue
        return _re.sub(r'#\d+', '', ('' if t else '!') + d)
    return 'always'
