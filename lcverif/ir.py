"""Parser for the textual LLVM-14 IR subset that clang emits for C (typed pointers).

Nothing here knows about libconfuse.  The module turns a .ll file into
Module -> Function -> Block -> Instr objects, resolves !dbg locations to
source lines, struct field indices to field names (through the DWARF
member lists) and gives access to constant strings.
"""
import re

# ----------------------------------------------------------------------------
# lexical helpers


def split_top(s, sep=','):
    """split s on sep at nesting depth 0 of () [] {} <> and outside quotes"""
    out, depth, cur, i, n = [], 0, [], 0, len(s)
    inq = False
    while i < n:
        c = s[i]
        if inq:
            cur.append(c)
            if c == '\\' and i + 1 < n:
                cur.append(s[i + 1])
                i += 1
            elif c == '"':
                inq = False
        elif c == '"':
            inq = True
            cur.append(c)
        elif c in '([{<':
            depth += 1
            cur.append(c)
        elif c in ')]}>':
            depth -= 1
            cur.append(c)
        elif c == sep and depth == 0:
            out.append(''.join(cur).strip())
            cur = []
        else:
            cur.append(c)
        i += 1
    tail = ''.join(cur).strip()
    if tail:
        out.append(tail)
    return out


_ATTRS = {'noundef', 'nonnull', 'signext', 'zeroext', 'noalias', 'nocapture',
          'readonly', 'readnone', 'writeonly', 'inreg', 'returned', 'immarg',
          'nofree', 'nest', 'swiftself', 'inbounds', 'nuw', 'nsw', 'exact',
          'volatile', 'tail', 'musttail', 'notail', 'dso_local', 'internal'}
_ATTR_PAREN = ('dereferenceable', 'dereferenceable_or_null', 'align', 'byval',
               'sret', 'byref', 'preallocated', 'inalloca', 'elementtype')


def parse_type(s, i=0):
    """parse one first-class type starting at s[i]; return (type_string, j)"""
    n = len(s)
    while i < n and s[i] == ' ':
        i += 1
    st = i
    if s.startswith('%"', i):
        j = s.index('"', i + 2) + 1
    elif s[i] == '%':
        m = re.compile(r'%[A-Za-z0-9_.$-]+').match(s, i)
        j = m.end()
    elif s[i] in '[{<':
        depth, j = 0, i
        while j < n:
            if s[j] in '[{<':
                depth += 1
            elif s[j] in ']}>':
                depth -= 1
                if depth == 0:
                    j += 1
                    break
            j += 1
    else:
        m = re.compile(r'(void|i\d+|float|double|half|x86_fp80|fp128|metadata|label|ptr|token|opaque|\.\.\.)').match(s, i)
        if not m:
            raise ValueError('type? %r' % s[i:i + 60])
        j = m.end()
    # suffixes: '*' and function parameter lists
    while j < n:
        k = j
        while k < n and s[k] == ' ':
            k += 1
        if k < n and s[k] == '*':
            j = k + 1
        elif k < n and s[k] == '(' :
            depth = 0
            m = k
            while m < n:
                if s[m] == '(':
                    depth += 1
                elif s[m] == ')':
                    depth -= 1
                    if depth == 0:
                        break
                m += 1
            # a function type is always followed by '*' in typed-pointer IR
            m2 = m + 1
            while m2 < n and s[m2] == ' ':
                m2 += 1
            if m2 < n and s[m2] == '*':
                j = m + 1
            else:
                break
        else:
            break
    return s[st:j].strip(), j


class Value(object):
    __slots__ = ('kind', 'ty', 'name', 'ival', 'cop', 'cargs', 'text')

    def __init__(self, kind, ty, name=None, ival=None, cop=None, cargs=None, text=None):
        self.kind, self.ty, self.name, self.ival = kind, ty, name, ival
        self.cop, self.cargs, self.text = cop, cargs, text

    def is_reg(self):
        return self.kind == 'reg'

    def is_null(self):
        return self.kind == 'null'

    def is_int(self):
        return self.kind == 'int'

    def __repr__(self):
        if self.kind in ('reg', 'global'):
            return self.name
        if self.kind == 'int':
            return str(self.ival)
        if self.kind == 'cexpr':
            return '%s(%s)' % (self.cop, ', '.join(map(repr, self.cargs)))
        return self.text or self.kind

    def strip_casts(self):
        """look through constant bitcast/gep-0 expressions to the base global"""
        v = self
        while v.kind == 'cexpr' and v.cop in ('bitcast', 'getelementptr', 'inttoptr', 'ptrtoint', 'addrspacecast'):
            v = v.cargs[0]
        return v


def parse_value(ty, s):
    s = s.strip()
    if not s:
        return Value('other', ty, text='')
    if s[0] == '%':
        return Value('reg', ty, name=s)
    if s[0] == '@':
        return Value('global', ty, name=s)
    if re.match(r'^-?\d+$', s):
        return Value('int', ty, ival=int(s))
    if s == 'null':
        return Value('null', ty, text='null')
    if s in ('true', 'false'):
        return Value('int', ty, ival=1 if s == 'true' else 0)
    if s in ('undef', 'poison', 'zeroinitializer'):
        return Value('undef' if s != 'zeroinitializer' else 'zero', ty, text=s)
    m = re.match(r'^(getelementptr|bitcast|inttoptr|ptrtoint|addrspacecast|trunc|zext|sext|add|sub|mul|and|or|xor|icmp|select)\b', s)
    if m:
        cop = m.group(1)
        rest = s[m.end():].strip()
        rest = re.sub(r'^(inbounds|nuw|nsw|exact)\s*', '', rest)
        assert rest[0] == '(' and rest[-1] == ')', s
        inner = rest[1:-1]
        if cop in ('bitcast', 'inttoptr', 'ptrtoint', 'addrspacecast', 'trunc', 'zext', 'sext'):
            k = inner.rfind(' to ')
            inner = inner[:k]
        parts = split_top(inner)
        args = []
        if cop == 'getelementptr':
            parts = parts[1:]     # leading source element type
        for p in parts:
            args.append(parse_typed_value(p))
        return Value('cexpr', ty, cop=cop, cargs=args, text=s)
    if re.match(r'^-?[0-9.]+(e[+-]?\d+)?$', s) or s.startswith('0x'):
        return Value('float', ty, text=s)
    if s.startswith('c"') or s[0] in '[{<' or s.startswith('!') or s.startswith('metadata'):
        return Value('other', ty, text=s)
    return Value('other', ty, text=s)


def parse_typed_value(s):
    """'T [attrs] value' -> Value"""
    s = s.strip()
    if s.startswith('metadata'):
        return Value('metadata', 'metadata', text=s)
    ty, j = parse_type(s)
    rest = s[j:].strip()
    # strip parameter attributes
    while True:
        m = re.match(r'^([a-z_]+)(\([^)]*\))?\s*', rest)
        if not m:
            break
        w = m.group(1)
        if w in _ATTRS or (w in _ATTR_PAREN and (m.group(2) or w == 'align')):
            if w == 'align' and not m.group(2):
                m2 = re.match(r'^align\s+\d+\s*', rest)
                rest = rest[m2.end():]
            else:
                rest = rest[m.end():]
            continue
        break
    return parse_value(ty, rest)


def const_tree(ty, init, structs=None):
    """the initializer of a constant global as a tree: list (array / struct members in order), Value (scalar leaf) or None
    when the text has a shape that is not understood"""
    init = init.strip()
    ty = ty.strip()
    if init == 'zeroinitializer':
        m = re.match(r'^\[(\d+) x (.*)\]$', ty)
        if m:
            return [const_tree(m.group(2), 'zeroinitializer', structs) for _ in range(int(m.group(1)))]
        if ty.startswith('{') or ty.startswith('<{'):
            inner = ty[1:-1] if ty.startswith('{') else ty[2:-2]
            return [const_tree(t, 'zeroinitializer', structs) for t in split_top(inner)]
        if ty.startswith('%'):
            ftys = (structs or {}).get(ty)
            if ftys:
                return [const_tree(t, 'zeroinitializer', structs) for t in ftys]
            return None
        return Value('int', ty, ival=0) if re.match(r'^i\d+$', ty) else Value('null', ty)
    m = re.match(r'^c"(.*)"$', init)
    if m:
        data = _unescape_cstring(m.group(1))
        return [Value('int', 'i8', ival=ord(ch)) for ch in data]
    if init.startswith('[') and init.endswith(']'):
        out = []
        for el in split_top(init[1:-1]):
            el = el.strip()
            t, j = parse_type(el)
            out.append(const_tree(t, el[j:], structs))
        return out
    if (init.startswith('{') and init.endswith('}')) or (init.startswith('<{') and init.endswith('}>')):
        inner = init[1:-1] if init.startswith('{') else init[2:-2]
        out = []
        for el in split_top(inner):
            el = el.strip()
            t, j = parse_type(el)
            out.append(const_tree(t, el[j:], structs))
        return out
    try:
        return parse_value(ty, init)
    except Exception:
        return None


# ----------------------------------------------------------------------------
# program objects


class Instr(object):
    __slots__ = ('res', 'op', 'ty', 'ops', 'line', 'text', 'pred', 'callee', 'args',
                 'targets', 'cases', 'default', 'incoming', 'srcty', 'toty', 'block',
                 'idx', 'func', 'dbg', 'col', 'file')

    def __init__(self):
        for k in self.__slots__:
            setattr(self, k, None)
        self.ops = []

    def __repr__(self):
        return '<%s:%s %s>' % (self.line, self.res or '', self.text[:90])

    # convenience
    def callee_name(self):
        if self.op != 'call' or self.callee is None:
            return None
        c = self.callee.strip_casts()
        if c.kind == 'global':
            return c.name[1:]
        return None

    def is_dbg(self):
        return self.op == 'call' and (self.callee_name() or '').startswith('llvm.dbg.')


class Block(object):
    def __init__(self, label):
        self.label = label
        self.instrs = []
        self.succs = []
        self.preds = []

    @property
    def term(self):
        return self.instrs[-1]

    def phis(self):
        return [i for i in self.instrs if i.op == 'phi']

    def first_line(self):
        for i in self.instrs:
            if i.line:
                return i.line
        return None

    def __repr__(self):
        return '<bb %s>' % self.label


class Function(object):
    def __init__(self, name, retty, params, dbg):
        self.name, self.retty, self.params, self.dbg = name, retty, params, dbg
        self.blocks = {}      # label -> Block (insertion ordered)
        self.order = []
        self.defs = {}        # %reg -> Instr
        self.param_names = {}  # %0 -> 'cfg'
        self.var_names = {}   # %reg -> local variable name (from dbg.value)
        self.line = None
        self.file = None
        self.module = None

    @property
    def entry(self):
        return self.blocks[self.order[0]]

    def instrs(self):
        for l in self.order:
            for i in self.blocks[l].instrs:
                yield i

    def calls(self, name=None):
        for i in self.instrs():
            if i.op == 'call' and not i.is_dbg():
                if name is None or i.callee_name() == name:
                    yield i

    def pname(self, reg):
        return self.param_names.get(reg) or self.var_names.get(reg) or reg

    def __repr__(self):
        return '<fn %s>' % self.name


class Module(object):
    def __init__(self, path):
        self.path = path
        self.structs = {}        # '%struct.cfg_t' -> [field types]
        self.struct_fields = {}  # '%struct.cfg_t' -> [field names]
        self.globals = {}        # '@x' -> dict(ty, init, const, linkage, external)
        self.strings = {}        # '@.str.3' -> 'false'
        self.funcs = {}
        self.declared = set()
        self.md = {}             # '!12' -> raw text
        self.enums = {}          # enum name -> {enumerator: value}
        self.source_file = None

    def string_of(self, v):
        """constant C string a Value points to, or None"""
        if v is None:
            return None
        b = v.strip_casts() if isinstance(v, Value) else None
        if b is not None and b.kind == 'global':
            return self.strings.get(b.name)
        return None

    def field_name(self, sty, idx):
        names = self.struct_fields.get(sty)
        if names and 0 <= idx < len(names):
            return names[idx]
        return 'f%d' % idx


_RE_DEFINE = re.compile(r'^define\s+(.*?)@([A-Za-z0-9_.$]+)\((.*)\)\s*([^{]*)\{\s*$')
_RE_DBG = re.compile(r',\s*!dbg\s+(!\d+)')
_RE_MDTAIL = re.compile(r'(,\s*![A-Za-z_.]+\s+![0-9]+)+\s*$')
_CASTS = ('bitcast', 'zext', 'sext', 'trunc', 'ptrtoint', 'inttoptr', 'sitofp', 'uitofp',
          'fptosi', 'fptoui', 'fpext', 'fptrunc', 'addrspacecast')
_BINOPS = ('add', 'sub', 'mul', 'and', 'or', 'xor', 'shl', 'lshr', 'ashr', 'sdiv', 'udiv',
           'srem', 'urem', 'fadd', 'fsub', 'fmul', 'fdiv', 'frem')


def _unescape_cstring(s):
    out = bytearray()
    i = 0
    while i < len(s):
        if s[i] == '\\' and s[i + 1] == '\\':
            out.append(0x5c)
            i += 2
        elif s[i] == '\\':
            out.append(int(s[i + 1:i + 3], 16))
            i += 3
        else:
            out.append(ord(s[i]))
            i += 1
    if out and out[-1] == 0:
        out = out[:-1]
    return out.decode('latin-1')


def parse_module(path):
    m = Module(path)
    with open(path) as fh:
        lines = fh.read().split('\n')
    i, n = 0, len(lines)
    cur = None
    blk = None
    pending = []
    while i < n:
        ln = lines[i]
        i += 1
        if cur is None:
            if not ln:
                continue
            c0 = ln[0]
            if c0 == '%':
                mm = re.match(r'^(%[A-Za-z0-9_.$"-]+) = type (.*)$', ln)
                if mm:
                    body = mm.group(2).strip()
                    if body.startswith('{') or body.startswith('<{'):
                        inner = body[body.index('{') + 1:body.rindex('}')]
                        m.structs[mm.group(1)] = split_top(inner)
                    else:
                        m.structs[mm.group(1)] = None
                continue
            if c0 == '@':
                _parse_global(m, ln)
                continue
            if c0 == '!':
                mm = re.match(r'^(![0-9]+) = (.*)$', ln)
                if mm:
                    m.md[mm.group(1)] = mm.group(2)
                continue
            if ln.startswith('source_filename'):
                m.source_file = ln.split('"')[1]
                continue
            if ln.startswith('declare'):
                mm = re.search(r'@([A-Za-z0-9_.$]+)\(', ln)
                if mm:
                    m.declared.add(mm.group(1))
                continue
            if ln.startswith('define'):
                mm = _RE_DEFINE.match(ln)
                if not mm:
                    raise ValueError('define? ' + ln)
                head, name, params, tail = mm.groups()
                retty = head.strip().split()
                # return type is the last type token before '@': parse from the right
                rt = _ret_type(head)
                plist = []
                for p in split_top(params):
                    if p == '...':
                        continue
                    pv = parse_typed_value(p)
                    plist.append(pv)
                dbg = None
                md = re.search(r'!dbg\s+(!\d+)', tail)
                if md:
                    dbg = md.group(1)
                cur = Function(name, rt, plist, dbg)
                cur.module = m
                cur.internal = bool(re.search(r'\b(internal|private)\b', head))
                # entry label: the number following the last unnamed param
                nums = [int(p.name[1:]) for p in plist if p.kind == 'reg' and p.name[1:].isdigit()]
                entry = str((max(nums) + 1) if nums else (len(plist)))
                blk = Block(entry)
                cur.blocks[entry] = blk
                cur.order.append(entry)
                continue
            continue
        # inside a function
        if ln == '}':
            m.funcs[cur.name] = cur
            cur = None
            blk = None
            continue
        if not ln.strip():
            continue
        mm = re.match(r'^([A-Za-z0-9_.$-]+):', ln)
        if mm and not ln.startswith(' '):
            blk = Block(mm.group(1))
            cur.blocks[blk.label] = blk
            cur.order.append(blk.label)
            continue
        text = ln.strip()
        if text.startswith('switch'):
            while not text.rstrip().endswith(']') and ']' not in text.split('[', 1)[-1]:
                text += ' ' + lines[i].strip()
                i += 1
            # metadata may follow the closing bracket on the same line
        ins = _parse_instr(text)
        ins.block = blk
        ins.func = cur
        ins.idx = len(blk.instrs)
        blk.instrs.append(ins)
        if ins.res:
            cur.defs[ins.res] = ins
    _finish(m)
    return m


def _ret_type(head):
    """return type from the text between 'define' and '@name'"""
    toks = head.strip()
    # drop linkage / attributes words at the front
    while True:
        mm = re.match(r'^(dso_local|internal|private|external|weak|linkonce_odr|hidden|noundef|signext|zeroext|noalias|nonnull|available_externally|unnamed_addr|local_unnamed_addr)\s+', toks)
        if not mm:
            break
        toks = toks[mm.end():]
    ty, _ = parse_type(toks)
    return ty


def _parse_global(m, ln):
    mm = re.match(r'^(@[A-Za-z0-9_.$"-]+) = (.*)$', ln)
    if not mm:
        return
    name, rest = mm.groups()
    g = {'name': name, 'const': False, 'external': False, 'internal': False, 'init': None, 'ty': None, 'raw': rest}
    words = rest
    while True:
        w = re.match(r'^(private|internal|external|dso_local|unnamed_addr|local_unnamed_addr|common|weak|hidden|thread_local)\s+', words)
        if not w:
            break
        if w.group(1) == 'external':
            g['external'] = True
        if w.group(1) in ('internal', 'private'):
            g['internal'] = True
        words = words[w.end():]
    if words.startswith('constant '):
        g['const'] = True
        words = words[len('constant '):]
    elif words.startswith('global '):
        words = words[len('global '):]
    else:
        m.globals[name] = g
        return
    ty, j = parse_type(words)
    g['ty'] = ty
    init = words[j:].strip()
    init = re.sub(r',\s*align \d+.*$', '', init)
    init = re.sub(r',\s*!dbg.*$', '', init)
    g['init'] = init
    ms = re.match(r'^c"(.*)"$', init)
    if ms and g['const']:
        m.strings[name] = _unescape_cstring(ms.group(1))
    elif g['const'] and init == 'zeroinitializer' and re.match(r'^\[\d+ x i8\]$', ty):
        m.strings[name] = ''
    m.globals[name] = g


def _parse_instr(text):
    ins = Instr()
    ins.text = text
    d = _RE_DBG.search(text)
    if d:
        ins.dbg = d.group(1)
    # strip trailing metadata attachments
    body = re.sub(r'(,\s*![A-Za-z_.]+\s+![0-9]+)+\s*$', '', text)
    mm = re.match(r'^(%[A-Za-z0-9_.$-]+) = (.*)$', body)
    if mm:
        ins.res = mm.group(1)
        body = mm.group(2)
    op = body.split(None, 1)[0]
    rest = body[len(op):].strip()
    if op in ('tail', 'musttail', 'notail'):
        op2 = rest.split(None, 1)[0]
        rest = rest[len(op2):].strip()
        op = op2
    ins.op = op
    if op == 'call':
        _parse_call(ins, rest)
    elif op == 'load':
        rest = re.sub(r'^(volatile|atomic)\s+', '', rest)
        parts = split_top(rest)
        ins.ty = parts[0]
        ins.ops = [parse_typed_value(parts[1])]
    elif op == 'store':
        rest = re.sub(r'^(volatile|atomic)\s+', '', rest)
        parts = split_top(rest)
        ins.ops = [parse_typed_value(parts[0]), parse_typed_value(parts[1])]
    elif op == 'getelementptr':
        rest = re.sub(r'^inbounds\s+', '', rest)
        parts = split_top(rest)
        ins.srcty = parts[0]
        ins.ops = [parse_typed_value(p) for p in parts[1:]]
        ins.ty = None
    elif op in _CASTS:
        k = rest.rfind(' to ')
        ins.ops = [parse_typed_value(rest[:k])]
        ins.toty = rest[k + 4:].strip()
        ins.ty = ins.toty
    elif op in ('icmp', 'fcmp'):
        pr, rest2 = rest.split(None, 1)
        ins.pred = pr
        parts = split_top(rest2)
        a = parse_typed_value(parts[0])
        b = parse_value(a.ty, parts[1])
        ins.ops = [a, b]
        ins.ty = 'i1'
    elif op == 'br':
        if rest.startswith('label'):
            ins.targets = [rest.split('%', 1)[1].strip()]
        else:
            parts = split_top(rest)
            ins.ops = [parse_typed_value(parts[0])]
            ins.targets = [parts[1].split('%', 1)[1].strip(), parts[2].split('%', 1)[1].strip()]
    elif op == 'switch':
        head, casetxt = rest.split('[', 1)
        casetxt = casetxt[:casetxt.rindex(']')]
        hp = split_top(head)
        ins.ops = [parse_typed_value(hp[0])]
        ins.default = hp[1].split('%', 1)[1].strip()
        ins.cases = []
        for cm in re.finditer(r'i\d+\s+(-?\d+),\s*label\s+%([A-Za-z0-9_.$-]+)', casetxt):
            ins.cases.append((int(cm.group(1)), cm.group(2)))
        ins.targets = [ins.default] + [c[1] for c in ins.cases]
    elif op == 'phi':
        ty, j = parse_type(rest)
        ins.ty = ty
        ins.incoming = []
        for pm in split_top(rest[j:]):
            inner = pm.strip()[1:-1]
            v, l = split_top(inner)
            ins.incoming.append((parse_value(ty, v), l.strip()[1:]))
        ins.ops = [v for v, _ in ins.incoming]
    elif op == 'ret':
        if rest.startswith('void'):
            ins.ops = []
        else:
            ins.ops = [parse_typed_value(rest)]
    elif op == 'select':
        parts = split_top(rest)
        ins.ops = [parse_typed_value(p) for p in parts]
        ins.ty = ins.ops[1].ty
    elif op in _BINOPS:
        rest = re.sub(r'^((nuw|nsw|exact|fast|nnan|ninf|nsz|arcp|contract|afn|reassoc)\s+)+', '', rest)
        parts = split_top(rest)
        a = parse_typed_value(parts[0])
        b = parse_value(a.ty, parts[1])
        ins.ops = [a, b]
        ins.ty = a.ty
    elif op == 'alloca':
        parts = split_top(rest)
        ins.srcty = parts[0]
        ins.ty = parts[0] + '*'
    elif op == 'unreachable':
        pass
    elif op in ('fneg', 'freeze'):
        ins.ops = [parse_typed_value(rest)]
        ins.ty = ins.ops[0].ty
    elif op in ('extractvalue', 'insertvalue', 'va_arg'):
        parts = split_top(rest)
        ins.ops = [parse_typed_value(parts[0])]
        if op == 'va_arg':
            ins.ty = parts[1]
    else:
        raise ValueError('unknown instruction: ' + text)
    return ins


def _parse_call(ins, rest):
    # [cconv] [ret attrs] <ty>|<fnty> <fnptrval>(<args>) [fn attrs]
    while True:
        mm = re.match(r'^(fastcc|ccc|coldcc|noundef|signext|zeroext|noalias|nonnull|inreg|dereferenceable\(\d+\)|dereferenceable_or_null\(\d+\)|align \d+|nofpclass\([^)]*\))\s+', rest)
        if not mm:
            break
        rest = rest[mm.end():]
    ty, j = parse_type(rest)
    rest2 = rest[j:].strip()
    # ty may be the full function type "i32 (i8*, ...)" only when varargs: then
    # parse_type stopped before '(' because no '*' followed.
    if rest2.startswith('('):
        # varargs / explicit function type: skip the parenthesised signature
        depth = 0
        for k, c in enumerate(rest2):
            if c == '(':
                depth += 1
            elif c == ')':
                depth -= 1
                if depth == 0:
                    break
        rest2 = rest2[k + 1:].strip()
    ins.ty = ty
    # callee up to the '(' that starts the args
    if rest2.startswith('@') or rest2.startswith('%'):
        mm = re.match(r'^([@%][A-Za-z0-9_.$-]+)\s*\(', rest2)
        callee_txt = mm.group(1)
        argstart = mm.end() - 1
    else:
        # constant expression callee, e.g. bitcast (...)
        depth = 0
        k = rest2.index('(')
        for k2 in range(k, len(rest2)):
            if rest2[k2] == '(':
                depth += 1
            elif rest2[k2] == ')':
                depth -= 1
                if depth == 0:
                    break
        callee_txt = rest2[:k2 + 1]
        argstart = rest2.index('(', k2 + 1)
    depth = 0
    for k in range(argstart, len(rest2)):
        if rest2[k] == '(':
            depth += 1
        elif rest2[k] == ')':
            depth -= 1
            if depth == 0:
                break
    argtxt = rest2[argstart + 1:k]
    ins.callee = parse_value(ty, callee_txt)
    ins.args = [parse_typed_value(a) for a in split_top(argtxt)] if argtxt.strip() else []
    ins.ops = list(ins.args)


# ----------------------------------------------------------------------------
# post-processing


def _md_field(txt, key):
    mm = re.search(r'\b' + key + r': ([^,)]+)', txt)
    return mm.group(1).strip() if mm else None


def _finish(m):
    # dbg line numbers
    files = {}
    for k, v in m.md.items():
        if v.startswith('!DIFile'):
            mm = re.search(r'filename: "([^"]*)"', v)
            files[k] = mm.group(1) if mm else None
    scope_file = {}

    def file_of_scope(sid, depth=0):
        if sid in scope_file:
            return scope_file[sid]
        v = m.md.get(sid, '')
        f = _md_field(v, 'file')
        r = None
        if f and f in files:
            r = files[f]
        elif depth < 20:
            sc = _md_field(v, 'scope')
            if sc:
                r = file_of_scope(sc, depth + 1)
        scope_file[sid] = r
        return r
    loc = {}
    for k, v in m.md.items():
        if v.startswith('!DILocation'):
            l = _md_field(v, 'line')
            c = _md_field(v, 'column')
            sc = _md_field(v, 'scope')
            loc[k] = (int(l) if l else None, int(c) if c else None, file_of_scope(sc) if sc else None)
    localvars = {}
    for k, v in m.md.items():
        if v.startswith('!DILocalVariable'):
            mm = re.search(r'name: "([^"]*)"', v)
            arg = _md_field(v, 'arg')
            localvars[k] = (mm.group(1) if mm else None, int(arg) if arg else None)
    # struct field names from DWARF composite types
    comp = {}
    for k, v in m.md.items():
        if 'DICompositeType' in v and ('DW_TAG_structure_type' in v or 'DW_TAG_union_type' in v):
            mm = re.search(r'name: "([^"]*)"', v)
            el = _md_field(v, 'elements')
            if mm and el and el in m.md:
                members = re.findall(r'![0-9]+', m.md[el])
                names = []
                for mem in members:
                    mv = m.md.get(mem, '')
                    if 'DW_TAG_member' in mv:
                        nm = re.search(r'name: "([^"]*)"', mv)
                        names.append(nm.group(1) if nm else '?')
                tag = 'struct' if 'structure_type' in v else 'union'
                comp.setdefault((tag, mm.group(1)), names)
        if 'DICompositeType' in v and 'DW_TAG_enumeration_type' in v:
            mm = re.search(r'name: "([^"]*)"', v)
            el = _md_field(v, 'elements')
            if el and el in m.md:
                en = {}
                for mem in re.findall(r'![0-9]+', m.md[el]):
                    mv = m.md.get(mem, '')
                    nm = re.search(r'name: "([^"]*)"', mv)
                    val = _md_field(mv, 'value')
                    if nm and val is not None:
                        en[nm.group(1)] = int(val)
                m.enums[mm.group(1) if mm else k] = en
    # typedef'd anonymous structs:  typedef struct {...} X  ->  %struct.X
    for k, v in m.md.items():
        if 'DW_TAG_typedef' in v:
            nm = re.search(r'name: "([^"]*)"', v)
            bt = _md_field(v, 'baseType')
            if nm and bt and bt in m.md:
                bv = m.md[bt]
                if 'DICompositeType' in bv and 'name:' not in bv:
                    el = _md_field(bv, 'elements')
                    if el and el in m.md:
                        names = []
                        for mem in re.findall(r'![0-9]+', m.md[el]):
                            mv = m.md.get(mem, '')
                            if 'DW_TAG_member' in mv:
                                n2 = re.search(r'name: "([^"]*)"', mv)
                                names.append(n2.group(1) if n2 else '?')
                        tag = 'struct' if 'structure_type' in bv else 'union'
                        comp.setdefault((tag, nm.group(1)), names)
    for sty, fields in m.structs.items():
        base = sty[1:]
        if base.startswith('struct.') and fields is not None:
            nm = base[len('struct.'):]
            names = comp.get(('struct', nm))
            if names and len(names) == len(fields):
                m.struct_fields[sty] = names
        elif base.startswith('union.'):
            nm = base[len('union.'):]
            names = comp.get(('union', nm))
            if names:
                m.struct_fields[sty + '#members'] = names
    subprog = {}
    for k, v in m.md.items():
        if 'DISubprogram' in v:
            l = _md_field(v, 'line')
            f = _md_field(v, 'file')
            subprog[k] = (int(l) if l else None, files.get(f))
    for fn in m.funcs.values():
        if fn.dbg in subprog:
            fn.line, fn.file = subprog[fn.dbg]
            if fn.file and fn.file.endswith('.l') and fn.line:
                fn.line -= 1
        for lbl in fn.order:
            b = fn.blocks[lbl]
            for ins in b.instrs:
                if ins.dbg in loc:
                    ins.line, ins.col, ins.file = loc[ins.dbg]
                    # flex 2.6 emits '#line N+1' for text on lexer.l line N
                    if ins.file and ins.file.endswith('.l') and ins.line:
                        ins.line -= 1
                if ins.op == 'call' and ins.callee_name() in ('llvm.dbg.value', 'llvm.dbg.declare'):
                    mm = re.match(r'^metadata\s+(.*)$', ins.args[0].text or '')
                    mv = re.match(r'^metadata\s+(![0-9]+)', ins.args[1].text or '')
                    if mm and mv and mv.group(1) in localvars:
                        nm, arg = localvars[mv.group(1)]
                        try:
                            tv = parse_typed_value(mm.group(1))
                        except Exception:
                            tv = None
                        if tv is not None and tv.kind == 'reg' and nm:
                            if arg and ins.callee_name() == 'llvm.dbg.declare':
                                # the parameter's address is taken: it lives in a stack slot; name the
                                # incoming register by position and the slot as a variable
                                if 0 < arg <= len(fn.params):
                                    fn.param_names.setdefault(fn.params[arg - 1].name, nm)
                            elif arg:
                                fn.param_names.setdefault(tv.name, nm)
                            fn.var_names.setdefault(tv.name, nm)
        # successor / predecessor lists
        for lbl in fn.order:
            b = fn.blocks[lbl]
            if not b.instrs:
                continue
            t = b.instrs[-1]
            if t.op in ('br', 'switch'):
                seen = []
                for tg in t.targets:
                    if tg not in seen:
                        seen.append(tg)
                b.succs = seen
            for sname in b.succs:
                fn.blocks[sname].preds.append(lbl)
