"""The scanner's DFA, read from the uncompressed tables of `flex -Cf -8`.

flex has already resolved longest-match and rule priority into yy_accept[];
this module only decodes the tables and answers reachability questions.
"""
import re
from collections import deque


class LexError(Exception):
    pass


def _array(txt, name):
    m = re.search(r'\b' + re.escape(name) + r'\[[^\]]*\](\[[^\]]*\])?\s*=\s*\{(.*?)\}\s*;', txt, re.S)
    if not m:
        raise LexError('table %s not found' % name)
    return m.group(2)


class DFA(object):
    def __init__(self, full_c_text, lexer_c_text, lexer_l_text):
        body = _array(full_c_text, 'yy_nxt')
        rows = re.findall(r'\{([^{}]*)\}', body)
        self.nxt = [[int(x) for x in r.replace('\n', ' ').split(',') if x.strip()] for r in rows]
        for r in self.nxt:
            if len(r) != 256:
                raise LexError('yy_nxt row of length %d' % len(r))
        self.accept = [int(x) for x in _array(full_c_text, 'yy_accept').replace('\n', ' ').split(',') if x.strip()]
        self.nul = [int(x) for x in _array(full_c_text, 'yy_NUL_trans').replace('\n', ' ').split(',') if x.strip()]
        self.num_rules = int(re.search(r'#define YY_NUM_RULES (\d+)', full_c_text).group(1))
        self.end_of_buffer = int(re.search(r'#define YY_END_OF_BUFFER (\d+)', full_c_text).group(1))
        self.default_rule = self.num_rules
        # start conditions
        self.sc = {}
        for m in re.finditer(r'^#define (\w+) (\d+)\s*$', full_c_text, re.M):
            pass
        blk = re.search(r'#define INITIAL 0\n((?:#define \w+ \d+\n)*)', full_c_text)
        self.sc['INITIAL'] = 0
        if blk:
            for m in re.finditer(r'#define (\w+) (\d+)', blk.group(1)):
                self.sc[m.group(1)] = int(m.group(2))
        self.sc_name = {v: k for k, v in self.sc.items()}
        # rule number -> lexer.l line / pattern text, from the build's lexer.c
        self.rule_line = {}
        self.rule_text = {}
        self.eof_line = {}
        l_lines = lexer_l_text.split('\n')
        pending = []
        for ln in lexer_c_text.split('\n'):
            m = re.match(r'^case (\d+):', ln)
            m2 = re.match(r'^case YY_STATE_EOF\((\w+)\):', ln)
            if m:
                pending.append(('rule', int(m.group(1))))
                continue
            if m2:
                pending.append(('eof', m2.group(1)))
                continue
            m3 = re.match(r'^#line (\d+) "[^"]*lexer\.l"', ln)
            if m3 and pending:
                n = int(m3.group(1))
                for kind, key in pending:
                    if kind == 'rule':
                        pat_line = n - 1
                        # flex reports the line after the pattern start; walk up to
                        # the line that starts in column 0 (the pattern)
                        while pat_line > 1 and (not l_lines[pat_line - 1].strip()
                                                or l_lines[pat_line - 1][0] in ' \t}'):
                            pat_line -= 1
                        self.rule_line[key] = pat_line
                        self.rule_text[key] = self._pattern(l_lines[pat_line - 1])
                    else:
                        self.eof_line[key] = n - 1
                pending = []
        self.rule_text[self.default_rule] = '<flex default rule: ECHO>'
        self.rule_line[self.default_rule] = 0
        self.nstates = len(self.accept)

    @staticmethod
    def _pattern(line):
        """the pattern part of a rule line (up to unquoted, unbracketed whitespace)"""
        out, i, n = [], 0, len(line)
        inq = inb = False
        while i < n:
            c = line[i]
            if c == '\\' and i + 1 < n:
                out.append(line[i:i + 2])
                i += 2
                continue
            if inq:
                if c == '"':
                    inq = False
            elif inb:
                if c == ']':
                    inb = False
            elif c == '"':
                inq = True
            elif c == '[':
                inb = True
            elif c in ' \t':
                break
            out.append(c)
            i += 1
        return ''.join(out)

    # -- basic stepping ----------------------------------------------------
    def start(self, sc):
        if isinstance(sc, str):
            sc = self.sc[sc]
        return 1 + 2 * sc

    def step(self, s, b):
        if b == 0:
            t = self.nul[s]
            return t if t > 0 else None
        t = self.nxt[s][b]
        return t if t > 0 else None

    def match(self, sc, data):
        """longest match of bytes `data` (followed by end of input) in start
        condition sc -> (rule, length) ; rule None means EOF with nothing matched"""
        if not data:
            return (None, 0)
        s = self.start(sc)
        last = None
        for i, b in enumerate(data):
            s2 = self.step(s, b)
            if s2 is None:
                break
            s = s2
            if self.accept[s]:
                last = (self.accept[s], i + 1)
        if last is None:
            raise LexError('no rule matches %r in %s' % (data, sc))
        return last

    def tokenize(self, sc, data, limit=64):
        """rule sequence for data assuming no action changes the start condition"""
        out, pos = [], 0
        while pos < len(data) and len(out) < limit:
            r, n = self.match(sc, data[pos:])
            out.append((r, data[pos:pos + n]))
            pos += n
        return out

    # -- reachability ------------------------------------------------------
    def reachable(self, sc):
        """{state: shortest byte string reaching it} from the start of sc"""
        st = self.start(sc)
        seen = {st: b''}
        dq = deque([st])
        while dq:
            s = dq.popleft()
            for b in range(256):
                t = self.step(s, b)
                if t is not None and t not in seen:
                    seen[t] = seen[s] + bytes([b])
                    dq.append(t)
        return seen

    def firing_rules(self, sc):
        """{rule: shortest witness} of rules that can be selected in sc"""
        out = {}
        for s, w in self.reachable(sc).items():
            r = self.accept[s]
            if r and s != self.start(sc):
                if r == self.end_of_buffer:
                    continue
                if r not in out or len(w) < len(out[r]):
                    out[r] = w
        return out

    def rule_conditions(self):
        """rule -> list of start-condition names in which it can fire"""
        out = {}
        for name in self.sc:
            for r in self.firing_rules(name):
                out.setdefault(r, []).append(name)
        return out

    def newline_counts(self, sc):
        """{rule: set of saturating newline counts (0,1,2) over all matches}"""
        st = self.start(sc)
        seen = {(st, 0)}
        dq = deque([(st, 0)])
        out = {}
        while dq:
            s, k = dq.popleft()
            for b in range(256):
                t = self.step(s, b)
                if t is None:
                    continue
                k2 = min(2, k + (1 if b == 10 else 0))
                if (t, k2) not in seen:
                    seen.add((t, k2))
                    dq.append((t, k2))
        for s, k in seen:
            r = self.accept[s]
            if r and s != st and r != self.end_of_buffer:
                out.setdefault(r, set()).add(k)
        return out

    def first_bytes(self, sc, rule_pred):
        """set of first bytes b such that some string starting with b is matched
        (as the selected rule) by a rule satisfying rule_pred, in condition sc"""
        st = self.start(sc)
        out = {}
        for b in range(256):
            t = self.step(st, b)
            if t is None:
                continue
            seen = {t: bytes([b])}
            dq = deque([t])
            while dq:
                s = dq.popleft()
                r = self.accept[s]
                if r and r != self.end_of_buffer and rule_pred(r):
                    out.setdefault(b, (r, seen[s]))
                    break
                for c in range(256):
                    u = self.step(s, c)
                    if u is not None and u not in seen:
                        seen[u] = seen[s] + bytes([c])
                        dq.append(u)
        return out
