"""Action summaries of the scanner: for every flex rule (and every <<EOF>>
action) the set of paths through its C action, each an ordered list of effects
(buffer writes, start-condition changes, line increments, diagnostics, token
value, return code).  Built by path-sensitive constant propagation (sym.py)
over the IR of cfg_yylex with the hand-written helpers inlined.
"""
import os

from . import sym, cfg as _cfg, lexdfa, summaries

HELPERS = ('qbeg', 'qput', 'qend', 'qstr')


class ActionPath(object):
    def __init__(self, rule, path, model):
        self.rule = rule
        self.path = path
        self.events = path.events
        self.returns = path.end == 'ret'
        self.retval = path.retval if self.returns else None
        self.effects = []      # normalised effect tuples, in order
        self._line_total = 0
        self._line_base = None
        self._line_base = None
        self._normalise(model)

    @staticmethod
    def _into_scratch(dst):
        """is dst an address inside the scanner's scratch buffer (cfg_qstring / a fresh reallocation of it)"""
        b = dst
        while b[0] == 'idx':
            b = b[1]
        if b[0] == 'ld' and b[1] == ('g', '@cfg_qstring'):
            return True
        return b[0] == 'call' and b[1] in ('realloc', 'reallocarray', 'malloc', 'calloc')

    def _normalise(self, model):
        eff = self.effects
        for e in self.events:
            if e.kind == 'call':
                n = e.name
                if n == 'qputc':
                    a = e.args[0]
                    eff.append(('qputc', a, e.in_loop, e))
                elif n == 'cfg_error':
                    fmt = e.args[1] if len(e.args) > 1 else None
                    eff.append(('error', fmt[1] if fmt and fmt[0] == 'str' else sym.render(fmt), e))
                elif n == 'getenv':
                    eff.append(('getenv', e.args[0], e))
                elif n in ('free', 'fclose', 'cfg_scan_fp_end', 'cfg_scan_fp_begin', 'sscanf', '__isoc99_sscanf',
                           'trim_whitespace', 'strlen', 'strchr', 'memset', 'llvm.memset.p0i8.i64'):
                    eff.append(('call', n, e.args, e))
                elif n in ('llvm.memcpy.p0i8.p0i8.i64', 'memcpy') and len(e.args) >= 3 and self._into_scratch(e.args[0]):
                    # a run of bytes appended to the scratch buffer in one go: memcpy(buf + index, src, n)
                    src, cnt = e.args[1], e.args[2]
                    k = next((k_ for k_ in range(0, 8) if _yytext_plus(src, k_)), None)
                    whole = cnt[0] == 'call' and cnt[1] == 'strlen' and any(
                        x.kind == 'call' and x.res == cnt and x.args and x.args[0] == src for x in self.events)
                    if k is not None and whole:
                        # the rest of the matched text from byte k on: the same as copying it byte by byte in a loop
                        byte = ('ld', ('ld', YYTEXT)) if k == 0 else ('ld', ('idx', ('ld', YYTEXT), ('c', k)))
                        eff.append(('qputc', byte, True, e))
                    elif src[0] == 'alloca' and sym.is_const(cnt) and cnt[1] == 1:
                        # one byte handed over through a local (qputc() written as "append a run of one")
                        val = next((x.val for x in reversed(self.events[:self.events.index(e)]) if x.kind == 'store' and x.addr == src), None)
                        if val is not None:
                            eff.append(('qputc', val, e.in_loop, e))
                        else:
                            eff.append(('call', n, e.args, e))
                    else:
                        eff.append(('call', n, e.args, e))
                elif n in HELPERS:
                    pass   # inlined: their bodies follow
                else:
                    eff.append(('call', n, e.args, e))
            elif e.kind == 'store':
                f = e.field
                if f == '@yy_start':
                    v = e.val
                    scn = None
                    if sym.is_const(v):
                        scn = (v[1] - 1) // 2
                    eff.append(('begin', scn, e))
                elif f == 'line':
                    # cfg->line := <entry value of cfg->line> + k ?  (k is cumulative)
                    v = e.val
                    inc = None
                    if v[0] == 'bin' and v[1] == 'add' and sym.is_const(v[3]) and v[2][0] == 'ld' and sym.field_of(v[2][1]) == 'line':
                        tot = v[3][1]
                        if v[2] != self._line_base:
                            self._line_base = v[2]
                            self._line_total = 0
                        inc = tot - self._line_total
                        self._line_total = tot
                    if inc is None and v[0] == 'ld' and sym.field_of(v[1]) == 'line' and sym.norm(v[1]) == sym.norm(e.addr):
                        inc = 0          # "line += n" with n == 0 on this path
                    eff.append(('line', inc, e.in_loop, v, e))
                elif f == '@cfg_yylval':
                    eff.append(('yylval', e.val, e))
                elif f in ('@qstring_index', '@qstring_len', '@cfg_qstring'):
                    eff.append(('qvar', f, e.val, e))
                elif f == '@cfg_include_stack_ptr':
                    eff.append(('incptr', e.val, e))
                elif f == 'filename':
                    eff.append(('filename', e.val, e))
                else:
                    eff.append(('store', f, e.addr, e.val, e))

    # queries --------------------------------------------------------------
    def of(self, kind):
        return [x for x in self.effects if x[0] == kind]

    def final_begin(self):
        b = self.of('begin')
        return b[-1][1] if b else None

    def line_incs(self):
        """(definite count, has_loop_increment)"""
        n, loop = 0, False
        for x in self.of('line'):
            if x[2]:
                loop = True
            if x[1] is None:
                return (None, True)
            n += x[1]
        return (n, loop)

    def yylval(self):
        y = self.of('yylval')
        return y[-1][1] if y else None

    def describe(self):
        out = []
        for x in self.effects:
            k = x[0]
            if k == 'qputc':
                out.append('qputc(%s)%s' % (sym.render(x[1]), '*' if x[2] else ''))
            elif k == 'error':
                out.append('error(%r)' % x[1])
            elif k == 'begin':
                out.append('BEGIN(%s)' % x[1])
            elif k == 'line':
                out.append('line+=%s%s' % (x[1], '*' if x[2] else ''))
            elif k == 'yylval':
                out.append('yylval=%s' % sym.render(x[1]))
            elif k == 'getenv':
                out.append('getenv')
            elif k == 'call':
                out.append(x[1] + '()')
            elif k == 'incptr':
                out.append('incptr=%s' % sym.render(x[1]))
            elif k == 'qvar':
                out.append('%s=%s' % (x[1][1:], sym.render(x[2])))
            else:
                out.append(k)
        out.append('return %s' % sym.render(self.retval) if self.returns else 'continue')
        return ' ; '.join(out)


class LexModel(object):
    def __init__(self, st):
        self.stage = st
        self.mod = st.lexer
        if not os.path.exists(st.path('lexer_full.c')):
            from . import stage as _stage
            raise _stage.StageError('the scanner automaton cannot be extracted: ' + (st.text('lexer_full.err') if os.path.exists(st.path('lexer_full.err')) else 'no full tables'))
        self.dfa = lexdfa.DFA(st.text('lexer_full.c'), st.text('lexer.c'), st.text('lexer.l'))
        fn = self.mod.funcs.get('cfg_yylex')
        if fn is None:
            raise sym.AnalysisIncomplete('cfg_yylex not found in the generated scanner')
        self.fn = fn
        # the action switch: the switch with the most cases
        best = None
        for ins in fn.instrs():
            if ins.op == 'switch' and (best is None or len(ins.cases) > len(best.cases)):
                best = ins
        if best is None or len(best.cases) < self.dfa.num_rules:
            raise sym.AnalysisIncomplete('action switch of cfg_yylex not found')
        self.switch = best
        self.case_block = {}
        for v, l in best.cases:
            self.case_block[v] = l
        loops = _cfg.natural_loops(fn)
        # stop blocks: headers of loops that contain the switch
        self.stop = [h for h, body in loops.items() if best.block.label in body]
        if not self.stop:
            raise sym.AnalysisIncomplete('scanner loop not found')
        self.mod_sets = summaries.mod_sets([self.mod])
        self.ex = sym.Explorer([self.mod], inline=HELPERS, max_visits=2, max_paths=5000, mod_sets=self.mod_sets,
                               pure=('trim_whitespace', '__isoc99_sscanf', 'sscanf'))
        self.actions = {}     # rule number -> [ActionPath]
        self.eof_actions = {}  # start condition name -> [ActionPath]
        for r in range(1, self.dfa.num_rules + 1):
            self.actions[r] = self._explore_case(r)
        for name, k in self.dfa.sc.items():
            self.eof_actions[name] = self._explore_case(self.dfa.end_of_buffer + k + 1)
        self.helper_fns = {n: self.mod.funcs[n] for n in HELPERS + ('qputc', 'trim_whitespace') if n in self.mod.funcs}

    def _explore_case(self, val):
        lbl = self.case_block.get(val)
        if lbl is None:
            raise sym.AnalysisIncomplete('no action case for value %d' % val)
        env = {p.name: ('p', self.fn.param_names.get(p.name, p.name)) for p in self.fn.params}
        # cfg is dereferenced unconditionally by the newline rule: a null cfg is
        # outside the scanner's contract
        paths = self.ex.explore(self.fn, start=lbl, env=env, stop=self.stop + [self.switch.block.label],
                                neq={('p', 'cfg'): {0}})
        out = []
        for p in paths:
            if p.end in ('cut', 'unreachable'):
                continue      # 'unreachable': the buffer helper's assertion on a failed realloc (judged by C02 R2.2)
            out.append(ActionPath(val, p, self))
        if not out:
            raise sym.AnalysisIncomplete('no complete path through the action of rule %d' % val)
        return out

    def rule_name(self, r):
        return 'rule %d (lexer.l:%d) %s' % (r, self.dfa.rule_line.get(r, 0), self.dfa.rule_text.get(r, '?'))

    def sc_name(self, k):
        return self.dfa.sc_name.get(k, str(k))


# ----------------------------------------------------------------------------
# classification of action summaries into the vocabulary of the decoding table

YYTEXT = ('g', '@cfg_yytext')


def _is_yytext_byte(v, k):
    """v is the value yytext[k] (k int) possibly sign-extended"""
    if v[0] != 'ld':
        return False
    a = v[1]
    if k == 0 and a[0] == 'ld' and a[1] == YYTEXT:
        return True
    if a[0] == 'idx' and a[1][0] == 'ld' and a[1][1] == YYTEXT and a[2] == ('c', k):
        return True
    return False


def _yytext_plus(v, k):
    if k == 0:
        return v[0] == 'ld' and v[1] == YYTEXT
    return v[0] == 'idx' and v[1][0] == 'ld' and v[1][1] == YYTEXT and v[2] == ('c', k)


def classify_path(ap, matched=None):
    """one action path -> a short class string (see C03 reference decoder)"""
    eff = [x for x in ap.effects if x[0] not in ('qvar',)]
    q = ap.of('qputc')
    errs = ap.of('error')
    begins = [x[1] for x in ap.of('begin')]
    ln, lnloop = ap.line_incs()
    calls = [x for x in ap.of('call')]
    cnames = [x[1] for x in calls]
    tail = ''
    if ln:
        tail += '+line%d' % ln
    if lnloop:
        tail += '+line*'
    if errs:
        if ap.returns and ap.retval == ('c', 0):
            return 'error' + tail
        return 'error-without-return0'
    if ap.of('getenv'):
        g = ap.of('getenv')[0]
        base = 'env' if _yytext_plus(g[1], 2) else 'env?'
        if ap.returns:
            return '%s->return(%s)' % (base, ap.retval[1] if ap.retval[0] == 'c' else '?') + tail
        if any(not x[2] for x in q):
            return base + '+const' + tail
        return base + '->buffer' + tail
    if any(n in ('__isoc99_sscanf', 'sscanf') for n in cnames):
        sc = next(x for x in calls if x[1] in ('__isoc99_sscanf', 'sscanf'))
        args = sc[2]
        fmt = args[1][1] if args[1][0] == 'str' else '?'
        off = next((k for k in (0, 1, 2, 3) if _yytext_plus(args[0], k)), None)
        if len(q) == 1 and not q[0][2]:
            v = q[0][1]
            src = v
            while src[0] == 'bin' and src[1] == 'trunc':
                src = src[2]
            if src[0] == 'ld' and src[1] == args[2]:
                return 'scan(%s,+%s)' % (fmt, off) + tail
        return 'scan?' + tail
    conv = [x for x in calls if x[1] in ('strtoul', 'strtol', 'strtoull', 'strtoll')]
    if conv and len(q) == 1 and not q[0][2]:
        # strtoul(yytext + k, NULL, 8|16) is sscanf("%o"|"%x") on text the pattern restricts to digits of that base
        sc = conv[0]
        args = sc[2]
        off = next((k for k in (0, 1, 2, 3) if _yytext_plus(args[0], k)), None)
        src = q[0][1]
        while src[0] == 'bin' and src[1] in ('trunc', 'sext', 'zext'):
            src = src[2]
        if off is not None and len(args) == 3 and args[1] == sym.C0 and args[2] in (('c', 8), ('c', 16)) and src == sc[3].res:
            return 'scan(%s,+%s)' % ('%o' if args[2][1] == 8 else '%x', off) + tail
        return 'scan?' + tail
    if ap.returns:
        rv = ap.retval
        r = rv[1] if rv[0] == 'c' else '?'
        if r == '?' and matched is not None:
            # "return yytext[k]": known once the matched text is
            x = rv
            while x[0] == 'bin' and x[1] in ('sext', 'zext', 'trunc'):
                x = x[2]
            k_ = _yytext_index(x)
            if k_ is not None and k_ < len(matched):
                r = matched[k_]
        y = ap.yylval()
        ysrc = '?'
        if y is not None:
            if y[0] == 'ld' and y[1] == YYTEXT:
                ysrc = 'yytext'
            elif y[0] == 'ld' and y[1] == ('g', '@cfg_qstring'):
                ysrc = 'buffer'
            elif y[0] == 'call' and y[1] == 'trim_whitespace':
                ysrc = 'trimmed-buffer'
            else:
                ysrc = sym.render(y)
        else:
            ysrc = 'none'
        pre = ''
        if q:
            if len(q) == 1 and q[0][1] == ('c', 0) and not q[0][2]:
                pre = 'terminate,'
            elif any(x[2] for x in q):
                pre = 'copy,' + ('terminate,' if q[-1][1] == ('c', 0) and not q[-1][2] else '')
            else:
                pre = 'qputc?,'
        b = ('begin%s,' % begins[-1]) if begins else ''
        if 'cfg_scan_fp_end' in cnames:
            return 'pop-include' + tail
        return 'return(%s,%s%s%s)' % (r, b, pre, ysrc) + tail
    # continuing paths
    if 'cfg_scan_fp_end' in cnames:
        return 'pop-include'
    if 'fwrite' in cnames:
        return 'ECHO'
    b = ('begin%s' % begins[-1]) if begins else ''
    if not q:
        return (b or 'skip') + tail
    parts = []
    run = None      # an in-loop copy of consecutive bytes of the match: (first index, next index)
    for x in q:
        v, loop = x[1], x[2]
        k = next((k for k in range(0, 8) if _is_yytext_byte(v, k)), None)
        if loop and k is not None:
            if run is not None and k == run[1]:
                run = (run[0], k + 1)       # a further iteration of the same copy loop
                continue
            run = (k, k + 1)
            parts.append('all' if k == 0 else 'from%d' % k)
            continue
        run = None
        if v[0] == 'c':
            parts.append('const(%d)' % (v[1] & 0xff))
        elif k is not None:
            parts.append('byte%d' % k)
        else:
            parts.append('?' + sym.render(v))
    return b + ','.join(parts) + tail


def classify(model, rule, eof_sc=None):
    """set of classes over all paths of a rule (or of an EOF action)"""
    aps = model.eof_actions[eof_sc] if eof_sc is not None else model.actions[rule]
    return sorted(set(classify_path(a) for a in aps))


# ----------------------------------------------------------------------------
# input-sensitive view: which paths of a rule's action are consistent with the bytes it matched

def _yytext_index(v):
    """k if v is the byte yytext[k] (possibly wrapped in an extension), else None"""
    for k in range(0, 8):
        if _is_yytext_byte(v, k):
            return k
    if v[0] == 'bin' and v[1] in ('trunc',):
        return _yytext_index(v[2])
    return None


def _sbyte(b):
    return b - 256 if b >= 128 else b


def _in_loop(ins, model=None):
    f = getattr(ins, 'func', None)
    if f is None or ins.block is None:
        return False
    if isinstance(f, str):
        return False
    ex = set(model.stop) if model is not None and f is model.fn else ()
    return ins.block.label in _cfg.in_loop_blocks(f, exclude_headers=ex)


def _eval_with_start(v, yy_start):
    """integer value of an expression over the scanner's start-condition variable, None if it has another shape"""
    if sym.is_const(v):
        return v[1]
    if v[0] == 'ld' and v[1] == ('g', '@yy_start'):
        return yy_start
    if v[0] == 'bin' and v[1] in ('sext', 'zext', 'trunc'):
        return _eval_with_start(v[2], yy_start)
    if v[0] == 'bin' and len(v) == 4:
        a, b = _eval_with_start(v[2], yy_start), _eval_with_start(v[3], yy_start)
        if a is None or b is None:
            return None
        ops = {'add': lambda: a + b, 'sub': lambda: a - b, 'mul': lambda: a * b, 'sdiv': lambda: int(a / b) if b else None,
               'udiv': lambda: a // b if b else None, 'ashr': lambda: a >> b, 'lshr': lambda: a >> b, 'and': lambda: a & b}
        try:
            return ops[v[1]]() if v[1] in ops else None
        except Exception:
            return None
    return None


def _text_value(v, matched, ap, depth=0):
    """integer value of an expression over the matched text: bytes of yytext, its length, the length of a run of
    characters from a constant set starting at yytext+k (strspn/strcspn), and arithmetic on these; None otherwise"""
    if depth > 8:
        return None
    if sym.is_const(v):
        return v[1]
    k = _yytext_index(v)
    if k is not None:
        return _sbyte(matched[k]) if k < len(matched) else 0
    if v[0] == 'bin' and v[1] in ('sext', 'zext', 'trunc'):
        return _text_value(v[2], matched, ap, depth + 1)
    if v[0] == 'ld':
        # a byte of the text at a computed position: yytext[k + <length measured on the text>]
        def off(a, d=0):
            if d > 6:
                return None
            if a[0] == 'ld' and a[1] == YYTEXT:
                return 0
            if a[0] == 'idx':
                b0 = off(a[1], d + 1)
                i0 = _text_value(a[2], matched, ap, depth + 1)
                return None if b0 is None or i0 is None else b0 + i0
            return None
        o = off(v[1])
        if o is not None and o >= 0:
            return _sbyte(matched[o]) if o < len(matched) else 0
        return None
    if v[0] == 'bin' and len(v) == 4 and v[1] in ('add', 'sub', 'mul'):
        a, b = _text_value(v[2], matched, ap, depth + 1), _text_value(v[3], matched, ap, depth + 1)
        if a is None or b is None:
            return None
        return {'add': a + b, 'sub': a - b, 'mul': a * b}[v[1]]
    if v[0] == 'call' and v[1] in ('strspn', 'strcspn', 'strlen'):
        e = next((x for x in ap.events if x.kind == 'call' and x.res == v), None)
        if e is None or not e.args:
            return None
        a0 = e.args[0]
        off = None
        for k_ in range(0, 8):
            if _yytext_plus(a0, k_):
                off = k_
        if off is None:
            return None
        tail = bytes(matched[off:])
        if v[1] == 'strlen':
            return len(tail.split(b'\0')[0])
        if len(e.args) < 2 or e.args[1][0] != 'str':
            return None
        cs = set(e.args[1][1].encode('latin-1'))
        n = 0
        for b_ in tail:
            if b_ == 0 or ((b_ in cs) != (v[1] == 'strspn')):
                break
            n += 1
        return n
    return None


def consistent_with(ap, matched, model=None, sc=None):
    """False if some assumption of the action path about a byte of the matched text contradicts `matched` (or, when the
    start condition the rule fired in is given, contradicts that: an action shared by several conditions may ask YY_START)"""
    n = len(matched)
    for cn, t, ins in ap.path.assume:
        if _in_loop(ins, model):
            continue          # a loop over the text is explored to a bound; its exit test says nothing about this text
        if sc is not None and cn[0] == 'icmp' and sym.mentions(cn, lambda x: x == ('g', '@yy_start')):
            a, b = _eval_with_start(cn[2], 1 + 2 * sc), _eval_with_start(cn[3], 1 + 2 * sc)
            if a is not None and b is not None:
                r = {'eq': a == b, 'ne': a != b, 'slt': a < b, 'sle': a <= b, 'sgt': a > b, 'sge': a >= b, 'ult': a < b, 'ugt': a > b}.get(cn[1])
                if r is not None and r != t:
                    return False
            continue
        if cn[0] == 'icmp' and _yytext_index(cn[2]) is None and sym.mentions(cn, lambda x: x[0] == 'call' and x[1] in ('strspn', 'strcspn', 'strlen')) \
                and not sym.mentions(cn, lambda x: x[0] == 'call' and x[1] not in ('strspn', 'strcspn', 'strlen')):
            # a test of a length measured on the matched text
            a_, b_ = _text_value(cn[2], matched, ap), _text_value(cn[3], matched, ap)
            if a_ is not None and b_ is not None:
                r = {'eq': a_ == b_, 'ne': a_ != b_, 'slt': a_ < b_, 'sle': a_ <= b_, 'sgt': a_ > b_, 'sge': a_ >= b_,
                     'ult': a_ < b_, 'ule': a_ <= b_, 'ugt': a_ > b_, 'uge': a_ >= b_}.get(cn[1])
                if r is not None and r != t:
                    return False
            continue
        if cn[0] == 'icmp' and sym.is_const(cn[3]):
            k = _yytext_index(cn[2])
            if k is None:
                continue
            actual = _sbyte(matched[k]) if k < n else 0      # yytext is NUL-terminated
            want = cn[3][1]
            r = {'eq': actual == want, 'ne': actual != want, 'slt': actual < want, 'sle': actual <= want,
                 'sgt': actual > want, 'sge': actual >= want}.get(cn[1])
            if r is None:
                continue
            if r != t:
                return False
        elif cn[0] == 'switch-default':
            k = _yytext_index(cn[1])
            if k is None:
                continue
            actual = _sbyte(matched[k]) if k < n else 0
            ex = ap.path.neq.get(cn[1]) or ()
            if actual in ex:
                return False
    return True


def classes_for(model, rule, matched, sc=None):
    """classes of the action paths of `rule` that are possible when it matched exactly `matched` (in start condition sc)"""
    memo = model.__dict__.setdefault('_classes_for', {})
    if isinstance(sc, str):
        sc = model.dfa.sc.get(sc)
    key = (rule, bytes(matched), sc)
    if key not in memo:
        aps = [ap for ap in model.actions[rule] if consistent_with(ap, matched, model, sc)]
        memo[key] = sorted(set(classify_path(a, matched) for a in aps))
    return memo[key]
