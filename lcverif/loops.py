"""One iteration of a natural loop, with the loop-carried state named after the source variables.

A loop-carried variable is either an SSA phi at the loop header or - when its address is taken, e.g.
because a helper updates it through a pointer - a stack slot.  Both are presented the same way:
at the header the variable x has the symbolic value ('p', 'x'); on a path back to the header
path.next['x'] is its new value.
"""
from . import cfg as _cfg


def slot_vars(f):
    """{alloca register: source name} of the scalar/pointer locals that live in a stack slot"""
    out = {}
    if not f.order:
        return out
    for ins in f.blocks[f.order[0]].instrs:
        if ins.op != 'alloca':
            continue
        ty = (ins.srcty or '').strip()
        if ty.startswith('[') or (ty.startswith('%') and not ty.endswith('*')):
            continue
        nm = f.var_names.get(ins.res)
        if nm:
            out[ins.res] = nm
    return out


def header_names(f, h):
    return {ph.res: f.var_names.get(ph.res) for ph in f.blocks[h].phis()}


def _slot_used_in(f, body, reg):
    for lbl in body:
        for ins in f.blocks[lbl].instrs:
            if ins.op == 'load' or ins.is_dbg():
                continue
            ops = list(ins.ops or [])
            if ins.op == 'call':
                ops = list(ins.args or [])
            if any(o.kind == 'reg' and o.name == reg for o in ops):
                return True
    return False


def loops_over(f, var):
    """headers of the loops that carry the variable `var` (phi at the header, or a slot written in the body)"""
    out = []
    loops = _cfg.natural_loops(f)
    slots = slot_vars(f)
    for h, body in loops.items():
        if var in header_names(f, h).values():
            out.append(h)
            continue
        for reg, nm in slots.items():
            if nm == var and _slot_used_in(f, body, reg):
                out.append(h)
                break
    return out


def iterate(ex, f, h, **kw):
    """explore one iteration from header h; yields the paths with .next completed for slot variables"""
    names = header_names(f, h)
    env = {r: ('p', n or r) for r, n in names.items()}
    env.update(kw.pop('env', None) or {})
    slots = {r: n for r, n in slot_vars(f).items() if n not in names.values()}
    mem = dict(kw.pop('mem', None) or {})
    for r, n in slots.items():
        mem.setdefault(('alloca', r), ('p', n))
    for p in ex.explore(f, start=h, env=env, stop=[h], mem=mem, **kw):
        if p.end == 'stop':
            for r, n in slots.items():
                if n not in p.next:
                    p.next[n] = p.mem.get(('alloca', r), ('p', n))
        yield p


def var_types(f, h):
    """{source name: IR type} of the loop-carried variables at header h"""
    out = {}
    for ph in f.blocks[h].phis():
        nm = f.var_names.get(ph.res)
        if nm:
            out[nm] = (ph.ty or '').strip()
    if f.order:
        for ins in f.blocks[f.order[0]].instrs:
            if ins.op == 'alloca':
                nm = f.var_names.get(ins.res)
                if nm and nm not in out:
                    out[nm] = (ins.srcty or '').strip()
    return out
