"""What a path writes to a stream, independent of which stdio routine wrote it.

fprintf(fp, "%s = {", name), fputs(name, fp); fputs(" = {", fp) and a sequence of fputc() calls all
yield the same token stream:   arg(%s, name)  lit(" = {")
Tokens:
  ('lit', text, ev)            constant text
  ('arg', conv, value, ev)     a run-time value written with the conversion conv ('%s', '%c', '%ld', ...)
  ('call', name, ev)           a call of one of the functions named in `calls` (other printers, callbacks)
`render()` turns a token list into one string in printf notation (literal '%' doubled, calls as
\\x00name\\x00) together with a map from string offsets to tokens, so that rules can search for text.
"""
import re

from . import sym

CONV = re.compile(r'%([-+ #0]*)(\*|\d+)?(?:\.(\*|\d+))?(hh|h|ll|l|L|z|j|t)?([diouxXeEfgGcspn%])')
STREAM_WRITERS = ('fprintf', 'fputs', 'fputc', 'putc', 'fwrite', 'fputs_unlocked', 'fputc_unlocked', 'putc_unlocked', 'vfprintf')


def _strip(v):
    while v[0] == 'bin' and v[1] in ('trunc', 'sext', 'zext'):
        v = v[2]
    return v


def tokens_of_call(name, args, ev=None):
    """tokens written by one stdio call, or None if the call is not a stream writer"""
    if name == 'fprintf':
        if len(args) < 2:
            return None
        fmt = args[1]
        if fmt[0] != 'str':
            return [('arg', '%?', fmt, ev)]
        out = []
        pos = 0
        k = 2
        text = fmt[1]
        for m in CONV.finditer(text):
            if m.start() > pos:
                out.append(('lit', text[pos:m.start()], ev))
            pos = m.end()
            if m.group(5) == '%':
                out.append(('lit', '%', ev))
                continue
            if m.group(2) == '*':
                k += 1
            if m.group(3) == '*':
                k += 1
            a = args[k] if k < len(args) else ('undef',)
            k += 1
            conv = m.group(0)
            if m.group(5) == 's' and a[0] == 'str' and conv == '%s':
                out.append(('lit', a[1], ev))
            elif m.group(5) == 'c' and conv == '%c' and sym.is_const(a):
                out.append(('lit', chr(a[1] & 0xff), ev))
            else:
                out.append(('arg', conv, a, ev))
        if pos < len(text):
            out.append(('lit', text[pos:], ev))
        return out
    if name in ('fputs', 'fputs_unlocked'):
        a = args[0]
        if a[0] == 'str':
            return [('lit', a[1], ev)] if a[1] else []
        return [('arg', '%s', a, ev)]
    if name in ('fputc', 'putc', 'fputc_unlocked', 'putc_unlocked'):
        a = args[0]
        if sym.is_const(a):
            return [('lit', chr(a[1] & 0xff), ev)]
        return [('arg', '%c', a, ev)]
    if name == 'fwrite':
        a = args[0]
        if a[0] == 'str' and sym.is_const(args[1]) and sym.is_const(args[2]):
            return [('lit', a[1][:args[1][1] * args[2][1]], ev)]
        return [('arg', '%s', a, ev)]
    if name == 'vfprintf':
        return [('arg', '%?', args[1] if len(args) > 1 else ('undef',), ev)]
    return None


def stream_arg(name, args):
    """the FILE* a stdio writer writes to"""
    if name in ('fprintf', 'vfprintf'):
        return args[0] if args else None
    if name == 'fwrite':
        return args[3] if len(args) > 3 else None
    return args[1] if len(args) > 1 else None


def tokens(events, calls=()):
    """flat token list of a path's events; `calls` names the non-stdio calls that are kept as markers"""
    out = []
    for k_, e in enumerate(events):
        if e.kind != 'call' or e.inlined:
            continue
        t = None
        if e.name == 'vfprintf' and len(e.args) > 1 and e.args[1][0] == 'str':
            # a printf-like helper analysed as part of its caller: vfprintf(fp, fmt, ap) inside helper(..., fmt, ...) writes what
            # fprintf(fp, fmt, <the arguments behind fmt in the helper's call>) writes
            for h in reversed(events[:k_]):
                if h.kind == 'call' and h.inlined and h.name == getattr(e, 'fn', None) and e.args[1] in list(h.args):
                    j = list(h.args).index(e.args[1])
                    t = tokens_of_call('fprintf', [e.args[0], e.args[1]] + list(h.args[j + 1:]), e)
                    break
        if t is None:
            t = tokens_of_call(e.name, e.args, e)
        if t is not None:
            out.extend(t)
        elif e.name in calls or (e.name.startswith('indirect:') and 'indirect:' in calls):
            out.append(('call', e.name, e))
    # merge adjacent literals
    merged = []
    for t in out:
        if t[0] == 'lit' and merged and merged[-1][0] == 'lit':
            merged[-1] = ('lit', merged[-1][1] + t[1], merged[-1][2])
        else:
            merged.append(t)
    return merged


def render(toks):
    """(text, index) - text in printf notation; index[i] = position of the token that produced text[i]"""
    parts = []
    index = []
    for k, t in enumerate(toks):
        if t[0] == 'lit':
            s = t[1].replace('%', '%%')
        elif t[0] == 'arg':
            s = t[1]
        else:
            s = '\x00%s\x00' % t[1]
        parts.append(s)
        index.extend([k] * len(s))
    return ''.join(parts), index


def static_literals(c, f):
    """[(call instruction, literal text)] for the constant text written by the stdio calls of f (from the IR)"""
    out = []
    for call in f.calls():
        n = call.callee_name()
        if n == 'fprintf':
            s = c.string_arg(call, 1)
            if s is not None:
                lit = CONV.sub(lambda m: '%' if m.group(5) == '%' else '\x01', s)
                for piece in lit.split('\x01'):
                    if piece:
                        out.append((call, piece))
        elif n in ('fputs', 'fputs_unlocked'):
            s = c.string_arg(call, 0)
            if s:
                out.append((call, s))
        elif n in ('fputc', 'putc', 'fputc_unlocked', 'putc_unlocked'):
            a = call.args[0]
            if a.kind == 'int':
                out.append((call, chr(a.ival & 0xff)))
        elif n == 'fwrite':
            s = c.string_arg(call, 0)
            if s:
                out.append((call, s))
    return out


def writes_anything(f):
    return any((x.callee_name() or '') in STREAM_WRITERS for x in f.calls())
