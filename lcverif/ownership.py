"""Path-sensitive ownership analysis over explored paths (sym.Path).

Slots are filled from the repository:
  allocators   return a fresh object (or NULL)
  releasers    release their argument (deep releasers also release what it owns)
  takers       take ownership of an argument (it escapes into global state)

For one path the analysis tracks every object acquired on that path:
  live      -> must be released, returned, or stored into memory that outlives the call
  attached  -> stored into another object acquired on this path: shares its fate
and every release of a pointer that lives in a struct field (dangling-owner rule).
"""
from . import sym
from .failpaths import is_null_assumption

ALLOCATORS = {'malloc': None, 'calloc': None, 'strdup': None, 'strndup': None, 'fopen': None, 'fmemopen': None,
              'realloc': 0, 'reallocarray': 0}
FRESH_RETURNING = {'cfg_tilde_expand', 'cfg_searchpath', 'cfg_make_fullpath', 'parse_title', 'cfg_dupopt_array',
                   'cfg_yy_create_buffer'}
SHALLOW_RELEASERS = {'free': 0, 'fclose': 0}
DEEP_RELEASERS = {'cfg_free': 0, 'cfg_free_opt_array': 0, 'cfg_free_searchpath': 0, 'cfg_yy_delete_buffer': 0}
TAKERS = {'cfg_yypush_buffer_state': [0]}
# callees that release the *contents* owned by the object their argument points to
CONTENT_RELEASERS = {'cfg_free_value': (0, ('values', 'comment')), 'call_function': (2, ('values', 'comment'))}
# callees that make the object their argument points to own new memory
CONTENT_ADDERS = {'cfg_addval': 0, 'cfg_setopt': 1}


def strip(v):
    """look through pointer arithmetic that keeps the object (casts are already transparent)"""
    return v


def null_facts(path):
    """{value: True(null)/False(non-null)} from the path's assumptions"""
    out = {}
    for cnd, t, _ in path.assume:
        na = is_null_assumption(cnd, t)
        if na is not None:
            out[na[0]] = na[1]
    return out


class Obj(object):
    def __init__(self, val, ev):
        self.val = val
        self.ev = ev
        self.state = 'live'       # live | released | escaped | returned | attached | moved
        self.owner = None         # Obj (attached) or ('local', alloca)
        self.released_by = None
        self.store_addrs = []

    def __repr__(self):
        return '<%s %s>' % (sym.render(self.val), self.state)


class Finding(object):
    def __init__(self, kind, obj_or_val, ev, detail):
        self.kind = kind          # leak | double-release | dangling | use-after-release
        self.val = obj_or_val
        self.ev = ev
        self.detail = detail

    def __repr__(self):
        return '%s: %s' % (self.kind, self.detail)


def external_root(addr):
    r = sym.root_of(addr)
    return r[0] in ('p', 'g') or (r[0] == 'call' and r[1] not in ALLOCATORS and r[1] not in FRESH_RETURNING)


def analyse_path(path, fn_name=None, extra_alloc=(), carried=()):
    """returns list of Finding for one path.
    carried: values that represent loop-carried owners (escape targets when a phi takes the value)"""
    nf = null_facts(path)
    objs = {}
    findings = []
    released_vals = {}
    field_loads_released = []     # (value, addr it was loaded from, release event)
    escaped_then_released = []
    local_dirty = {}              # alloca addr -> event that made it own content
    top = min([e.depth for e in path.events] or [0])
    for i, e in enumerate(path.events):
        if e.kind == 'call' and e.inlined:
            continue          # its body follows
        if e.kind == 'call':
            n = e.name
            res = e.res
            # releases first (realloc both releases and allocates)
            if n in SHALLOW_RELEASERS or n in DEEP_RELEASERS:
                k = SHALLOW_RELEASERS.get(n, DEEP_RELEASERS.get(n))
                if k < len(e.args):
                    v = e.args[k]
                    if v in released_vals and v[0] != 'c':
                        findings.append(Finding('double-release', v, e, '%s released again by %s()' % (sym.render(v), n)))
                    released_vals[v] = e
                    o = objs.get(v)
                    if o is not None:
                        if o.state == 'escaped':
                            escaped_then_released.append((o, e))
                        o.state = 'released'
                        o.released_by = (n, e)
                    elif v[0] == 'ld':
                        field_loads_released.append((v, v[1], e, i))
            if n in CONTENT_RELEASERS:
                k, flds = CONTENT_RELEASERS[n]
                if k < len(e.args):
                    a = e.args[k]
                    if a in local_dirty:
                        del local_dirty[a]
                    for o in objs.values():
                        if o.state == 'attached' and o.owner == ('local', a):
                            o.state = 'released'
                            o.released_by = (n, e)
            if n in ALLOCATORS or n in FRESH_RETURNING or n in extra_alloc:
                isnull = nf.get(res)
                moved = ALLOCATORS.get(n)
                if moved is not None and moved < len(e.args):
                    src = e.args[moved]
                    so = objs.get(src)
                    if isnull is not True and so is not None and so.state in ('live', 'escaped', 'attached'):
                        so.state = 'moved'
                if isnull is not True:
                    objs[res] = Obj(res, e)
            if n in TAKERS:
                for k in TAKERS[n]:
                    if k < len(e.args) and e.args[k] in objs:
                        objs[e.args[k]].state = 'escaped'
            if n in CONTENT_ADDERS:
                k = CONTENT_ADDERS[n]
                if k < len(e.args) and e.args[k][0] == 'alloca' and nf.get(res) is not True:
                    local_dirty[e.args[k]] = e
            # use after release
            if n not in SHALLOW_RELEASERS and n not in DEEP_RELEASERS and not n.startswith('llvm.'):
                for a in e.args:
                    if a in released_vals and a[0] in ('call', 'ld') and a in objs and objs[a].state == 'released':
                        findings.append(Finding('use-after-release', a, e, '%s passed to %s() after it was released' % (sym.render(a), n)))
        elif e.kind == 'store':
            v = e.val
            o = objs.get(v)
            if o is not None and o.state in ('live', 'attached'):
                root = sym.root_of(e.addr)
                if root in objs and objs[root] is not o:
                    o.state = 'attached'
                    o.owner = objs[root]
                elif e.addr[0] == 'alloca' or root[0] == 'alloca':
                    if e.addr[0] == 'alloca' and e.addr[1:] and False:
                        pass
                    o.state = 'attached'
                    o.owner = ('local', root if root[0] == 'alloca' else e.addr)
                else:
                    o.state = 'escaped'
                o.store_addrs.append(e.addr)
        elif e.kind == 'ret' and e.depth == top:
            v = e.val
            if v is not None:
                base = v
                while base[0] in ('idx',):
                    base = base[1]
                if base in objs and objs[base].state in ('live', 'attached'):
                    objs[base].state = 'returned'
                # value loaded from a local slot that holds an object
                if v[0] == 'ld' and v[1][0] == 'alloca':
                    for o in objs.values():
                        if o.state == 'attached' and o.owner == ('local', v[1]):
                            o.state = 'returned'
    # loop-carried owners (the caller passes the values that flow into phis at a stop)
    for v in carried:
        if v in objs and objs[v].state in ('live', 'attached'):
            objs[v].state = 'escaped'
    # resolve attachments
    changed = True
    while changed:
        changed = False
        for o in objs.values():
            if o.state == 'attached' and isinstance(o.owner, Obj):
                ow = o.owner
                if ow.state in ('escaped', 'returned', 'moved'):
                    o.state = ow.state
                    changed = True
                elif ow.state == 'released':
                    if ow.released_by and ow.released_by[0] in DEEP_RELEASERS:
                        o.state = 'released'
                        changed = True
    for o in objs.values():
        if o.state == 'live':
            findings.append(Finding('leak', o.val, o.ev, '%s acquired by %s() is neither released, returned nor stored anywhere that outlives the call'
                                    % (sym.render(o.val), o.ev.name)))
        elif o.state == 'attached':
            if isinstance(o.owner, Obj):
                ow = o.owner
                if ow.state == 'released':
                    findings.append(Finding('leak', o.val, o.ev, '%s was stored into %s, which is then released with %s() without releasing it'
                                            % (sym.render(o.val), sym.render(ow.val), ow.released_by[0])))
                elif ow.state == 'live':
                    pass       # reported through the owner
                else:
                    pass
            else:
                findings.append(Finding('leak', o.val, o.ev, '%s acquired by %s() is only stored in the local %s, which is not released on this path'
                                        % (sym.render(o.val), o.ev.name, sym.render(o.owner[1]))))
    for a, ev in local_dirty.items():
        findings.append(Finding('leak', a, ev, 'the local aggregate %s owns memory (added by %s()) that is not released on this path'
                                % (sym.render(a), ev.name)))
    # dangling owners: a pointer loaded from field A was released; A must be overwritten afterwards (or before,
    # after the load) or its container released
    for v, addr, ev, idx in field_loads_released:
        if addr[0] not in ('fld', 'idx'):
            continue
        if addr[0] == 'idx' and sym.root_of(addr)[0] not in ('p', 'g', 'ld'):
            continue
        if sym.object_of(addr)[0] == 'alloca':
            continue          # a member of a local record: it dies with the function
        # a slot of a global stack that the path has popped (its counter was stored back decremented): dead storage
        r0 = sym.root_of(addr)
        if r0[0] == 'g' and addr[0] in ('fld', 'idx'):
            cnts = set()
            sym.mentions(addr, lambda x: cnts.add(x[1]) or False if (x[0] == 'ld' and x[1][0] == 'g') else False)
            popped = False
            for e2 in path.events:
                if e2.kind == 'store' and e2.addr in cnts and e2.val[0] == 'bin' and e2.val[1] == 'add' and sym.is_const(e2.val[3]) and e2.val[3][1] < 0 \
                        and e2.val[2][0] == 'ld' and e2.val[2][1] == e2.addr:
                    popped = True
            if popped:
                continue
        overwritten = False
        naddr = sym.norm(addr)
        for e2 in path.events:
            if e2.kind == 'store' and sym.norm(e2.addr) == naddr:
                overwritten = True
        # container released later (same path): any releaser applied to the base object the field lives in
        base = addr[1]
        container = False
        for e2 in path.events[idx + 1:]:
            if e2.kind == 'call' and (e2.name in SHALLOW_RELEASERS or e2.name in DEEP_RELEASERS):
                a = e2.args[0] if e2.args else None
                if a is not None and (sym.norm(a) == sym.norm(base) or contains(sym.norm(base), sym.norm(a))):
                    container = True
                # the object the field lives in was reached through an element of an array that is released: nothing
                # can get at the field any more
                b_ = base
                if a is not None and b_[0] == 'ld' and sym.norm(a) == sym.norm(b_[1][1] if b_[1][0] == 'idx' else b_[1]) and sym.norm(a)[0] == 'ld':
                    container = True          # (element 0 of an array is the array pointer dereferenced)
        if not overwritten and not container:
            findings.append(Finding('dangling', v, ev, '%s is released by %s() but the field %s still points to it when the function returns'
                                    % (sym.render(v), ev.name, sym.render(addr))))
    for o, ev in escaped_then_released:
        # released after having been stored into outliving memory: that memory must be overwritten afterwards
        ok = False
        i = path.events.index(ev)
        for e2 in path.events[i + 1:]:
            if e2.kind == 'store' and e2.addr in o.store_addrs:
                ok = True
        if not ok:
            findings.append(Finding('dangling', o.val, ev, '%s was stored into %s and is then released by %s(): the field keeps a dangling pointer'
                                    % (sym.render(o.val), sym.render(o.store_addrs[0]) if o.store_addrs else '?', ev.name)))
    return findings


def contains(base, a):
    """is address/value `base` derived from object value `a` (base lives inside a)"""
    v = base
    for _ in range(12):
        if v == a:
            return True
        if v[0] in ('fld', 'idx'):
            v = v[1]
        elif v[0] == 'ld':
            # a field of the object holds a pointer to another object: not inside
            return False
        else:
            return False
    return False
