"""The parser's transition table, extracted from the IR of cfg_parse_internal.

For every (state constant, token constant) one iteration of the main loop is
explored by path-sensitive constant propagation with the `state` phi and the
result of cfg_yylex() seeded.  Each residual path records the assumptions made
at undecided branches (option type, flag bits, call results, level, forced
state), the ordered calls, and how it ends: back edge with a successor state,
or a return code.
"""
from . import sym, cfg as _cfg
from .report import Broken

TOKENS = {
    'EOF': -1, 'ERR': 0, '{': 123, '}': 125, '(': 40, ')': 41, '=': 61, '+=': 43, ',': 44, 'STR': 3, 'COMMENT': 8,
}
TOKNAME = {v: k for k, v in TOKENS.items()}
import re as _re
NOTFOUND = _re.compile(r'^!cfg_getopt\(\)#\d+$')
RET = {-1: 'STATE_EOF', 0: 'STATE_CONTINUE', 1: 'STATE_ERROR'}


class Transition(object):
    def __init__(self, state, tok, path, model):
        self.state = state
        self.tok = tok
        self.path = path
        # the marker of a call that was replaced by its body (a helper split off later) is not an event of its own
        self.events = [e for e in path.events if not (e.kind == 'call' and e.inlined)]
        self.assume = path.assume
        self.model = model
        if path.end == 'stop':
            ns = path.next.get('state')
            self.kind = 'next'
            self.next_state = ns[1] if ns is not None and sym.is_const(ns) else None
            self.next_state_expr = ns
            self.ret = None
        elif path.end == 'ret':
            self.kind = 'ret'
            self.next_state = None
            self.ret = path.retval[1] if path.retval is not None and sym.is_const(path.retval) else None
        else:
            self.kind = path.end
            self.next_state = None
            self.ret = None
        self.next = path.next

    # -- queries -------------------------------------------------------------
    def calls(self, name=None):
        # a call that was replaced by its body (a helper split off later) is only a marker: its effects follow
        return [e for e in self.events if e.kind == 'call' and not e.inlined and (name is None or e.name == name)]

    def call_names(self):
        return [e.name for e in self.events if e.kind == 'call' and not e.inlined]

    def errors(self):
        out = []
        for e in self.calls('cfg_error'):
            f = e.args[1] if len(e.args) > 1 else None
            out.append(f[1] if f is not None and f[0] == 'str' else sym.render(f))
        return out

    def cond(self):
        """assumptions in readable, stable form: list of strings"""
        out = []
        for c, t, ins in self.assume:
            out.append(('' if t else '!') + describe_cond(c))
        return out

    def assumes(self, text, truth=True):
        want = ('' if truth else '!') + text
        return want in self.cond()

    def outcome(self):
        if self.kind == 'next':
            return '-> state %s' % (self.next_state if self.next_state is not None else sym.render(self.next_state_expr))
        if self.kind == 'ret':
            return 'return %s' % RET.get(self.ret, self.ret)
        return self.kind

    def describe(self):
        ev = []
        for e in self.events:
            if e.kind == 'call':
                if e.name == 'cfg_error':
                    ev.append('error(%r)' % (self.errors_of(e)))
                elif e.name in ('free', 'dcgettext'):
                    continue
                else:
                    ev.append(e.name)
        return '[%s] %s : %s' % (' && '.join(self.cond()) or 'always', ' ; '.join(ev) or '-', self.outcome())

    def errors_of(self, e):
        f = e.args[1] if len(e.args) > 1 else None
        return f[1] if f is not None and f[0] == 'str' else sym.render(f)


FLAG_NAMES = {1: 'MULTI', 2: 'LIST', 4: 'NOCASE', 8: 'TITLE', 16: 'NODEFAULT', 32: 'NO_TITLE_DUPES', 64: 'RESET',
              128: 'DEFINIT', 256: 'IGNORE_UNKNOWN', 512: 'DEPRECATED', 1024: 'DROP', 2048: 'COMMENTS',
              4096: 'MODIFIED', 8192: 'KEYSTRVAL'}
TYPE_NAMES = {0: 'NONE', 1: 'INT', 2: 'FLOAT', 3: 'STR', 4: 'BOOL', 5: 'SEC', 6: 'FUNC', 7: 'PTR', 8: 'COMMENT'}


def describe_cond(c):
    """stable textual form of a branch condition"""
    if c[0] == 'icmp':
        pred, a, b = c[1], c[2], c[3]
        # is_set(F, x->flags):  ((x->flags & F) == F)
        if a[0] == 'bin' and a[1] == 'and' and sym.is_const(a[2]) and not sym.is_const(a[3]):
            a = ('bin', 'and', a[3], a[2])
        if a[0] == 'bin' and a[1] == 'and' and sym.is_const(a[3]) and sym.is_const(b) and a[3][1] == b[1] and pred in ('eq', 'ne'):
            base = sym.render(a[2])
            fl = FLAG_NAMES.get(b[1], hex(b[1]))
            s = '%s has %s' % (base, fl)
            return s if pred == 'eq' else 'not(%s)' % s
        ra, rb = sym.render(a), sym.render(b)
        if (ra.endswith('->type') or ra.endswith('.type')) and sym.is_const(b):
            rb = TYPE_NAMES.get(b[1], rb)
        if sym.is_const(b) and b[1] == 0 and pred == 'ne':
            return ra
        if sym.is_const(b) and b[1] == 0 and pred == 'eq':
            return 'not(%s)' % ra
        return '%s %s %s' % (ra, pred, rb)
    if c[0] == 'switch-default':
        return 'other(%s)' % sym.render(c[1])
    return sym.render(c)


class ParserModel(object):
    def __init__(self, ctx):
        self.ctx = ctx
        fn = ctx.need('cfg_parse_internal')
        self.fn = fn
        calls = list(fn.calls('cfg_yylex'))
        if not calls:
            # the token is fetched by a helper (which may also skip what the state machine never sees): its call sites
            calls = [cl for cl in fn.calls() if cl.callee_name() in ctx.unknown_funcs and ctx.func(cl.callee_name()) is not None
                     and any(True for _ in ctx.deep_calls(ctx.func(cl.callee_name()), 'cfg_yylex'))]
        if not calls:
            raise Broken('cfg_parse_internal: no cfg_yylex() call site')
        self.lexcalls = calls
        self.lexcall = calls[0]
        loops = _cfg.natural_loops(fn)
        # the token loop: the outermost loop that fetches a token in its body ("while (tok = yylex())" has the only
        # call in the body; "for (tok = yylex(); tok; tok = yylex())" has a second one in front of the loop)
        hdrs = [h for h, body in loops.items() if any(cl.block.label in body for cl in calls)]
        hdrs = [h for h in hdrs if not any(h != h2 and h in loops[h2] for h2 in hdrs)]
        if len(hdrs) != 1:
            raise Broken('cfg_parse_internal: main loop not identified (%d candidate loops)' % len(hdrs))
        self.header = hdrs[0]
        self.loop_body = loops[self.header]
        self.phis = {}
        for ph in fn.blocks[self.header].phis():
            nm = fn.var_names.get(ph.res)
            self.phis[nm or ph.res] = ph
        # a loop-carried token variable (the for-loop form): every value flowing into it is a cfg_yylex() result
        self.tok_phi = None
        lexres = set(cl.res for cl in calls if cl.res)
        for ph in fn.blocks[self.header].phis():
            if ph.ops and all(x.kind == 'reg' and x.name in lexres for x in ph.ops):
                self.tok_phi = ph
        # scalar locals kept in a stack slot (address taken): name by register
        self.slot_vars = {}
        for ins in fn.blocks[fn.order[0]].instrs:
            if ins.op == 'alloca' and ins.srcty.strip() in ('i8*', 'i32', 'i64', '%struct.cfg_opt_t*', '%union.cfg_value_t*'):
                nm = fn.var_names.get(ins.res)
                if nm and nm not in self.phis:
                    self.slot_vars[ins.res] = nm
        # the state variable: the loop-carried value the biggest switch of the loop dispatches on - a phi at the
        # loop head, or (when helpers update it through a pointer) a local kept in a stack slot
        self.state_phi = None
        self.state_slot = None
        best = None
        for ins in fn.instrs():
            if ins.op == 'switch' and ins.block.label in self.loop_body and ins.ops[0].kind == 'reg':
                carried = any(ph.res == ins.ops[0].name for ph in fn.blocks[self.header].phis())
                d = fn.defs.get(ins.ops[0].name)
                slot = d is not None and d.op == 'load' and d.ops[0].kind == 'reg' and d.ops[0].name in self.slot_vars
                if carried or slot:
                    if best is None or len(ins.cases) > len(best.cases):
                        best = ins
        # loop-carried variables gathered in a local record ("struct parser p" handed to per-state functions): every
        # scalar member is a slot, named after the member
        self.field_slots = {}          # address value -> member name
        self.state_field = None
        mod = fn.module
        for ins in fn.blocks[fn.order[0]].instrs:
            if ins.op != 'alloca' or not (ins.srcty or '').strip().startswith('%struct.'):
                continue
            sty = ins.srcty.strip()
            if sty in ('%struct.cfg_opt_t', '%struct.cfg_t', '%struct.stat'):
                continue
            ftys = mod.structs.get(sty)
            names = mod.struct_fields.get(sty)
            if not ftys or not names:
                continue
            for ty, nm in zip(ftys, names):
                ty = ty.strip()
                if ty.endswith('*') or ty in ('i32', 'i64', 'i8', 'i16'):
                    self.field_slots[('fld', ('alloca', ins.res), sty[1:].split('.', 1)[1], nm)] = nm
        if best is None or len(best.cases) < 5:
            # the dispatch may sit in a helper and read the state through a pointer to that record
            cand = None
            for g in ctx.deep_funcs(fn):
                for ins in g.instrs():
                    if ins.op != 'switch' or ins.ops[0].kind != 'reg' or len(ins.cases) < 5:
                        continue
                    d = g.defs.get(ins.ops[0].name)
                    if d is None or d.op != 'load' or d.ops[0].kind != 'reg':
                        continue
                    gp = g.defs.get(d.ops[0].name)
                    if gp is None or gp.op != 'getelementptr' or len(gp.ops) < 3 or gp.ops[2].kind != 'int':
                        continue
                    sty = (gp.srcty or '').strip()
                    fld = g.module.field_name(sty, gp.ops[2].ival)
                    hits = [a for a, nm in self.field_slots.items() if nm == fld and a[2] == sty[1:].split('.', 1)[1]]
                    if hits and (cand is None or len(ins.cases) > len(cand[0].cases)):
                        cand = (ins, hits[0])
            if cand is None:
                raise Broken('cfg_parse_internal: no switch over a loop-carried state variable')
            best, self.state_field = cand
            self.field_slots[self.state_field] = 'state'
        self.state_switch = best
        for nm, ph in list(self.phis.items()):
            if ph.res == best.ops[0].name:
                self.state_phi = ph
                if nm != 'state':
                    # keep the canonical name the rules use
                    del self.phis[nm]
                    self.phis['state'] = ph
                    fn.var_names[ph.res] = 'state'
        if self.state_phi is None and self.state_field is None:
            d = fn.defs.get(best.ops[0].name)
            self.state_slot = d.ops[0].name
            self.slot_vars[self.state_slot] = 'state'
            fn.var_names[self.state_slot] = 'state'
        self.states = sorted(v for v, _ in self.state_switch.cases)
        self.mod_sets = ctx.mod_sets
        self.ex = sym.Explorer(ctx.modules, inline=callback_wrappers(ctx), max_visits=2, max_paths=20000, mod_sets=self.mod_sets, once=('cfg_yylex',))
        self._table = {}

    def _finish_loop(self, paths):
        """A path that comes back to the loop head with the loop variable set to "stop" (rc = STATE_ERROR ...) does not
        start another iteration: follow it out of the loop to the return and present it as one returning path."""
        seeds = self._loop_condition_seeds()
        if not seeds:
            return paths
        import copy
        fn = self.fn
        out = []
        for p in paths:
            leaving = p.end == 'stop' and any(sym.is_const(p.next.get(reg, ('p', '?'))) and p.next.get(reg) != val for reg, val in seeds.items())
            if not leaving:
                out.append(p)
                continue
            env2 = {}
            for prm in fn.params:
                env2[prm.name] = ('p', fn.param_names.get(prm.name, prm.name))
            for ph in fn.blocks[self.header].phis():
                env2[ph.res] = p.next.get(ph.res, ('p', fn.var_names.get(ph.res, ph.res)))
            tails = self.ex.explore(fn, start=self.header, env=env2, mem=dict(p.mem), neq={('p', 'cfg'): {0}})
            shift = len(p.assume)
            for q in tails:
                if q.end == 'cut':
                    continue
                evs = list(p.events)
                for e in q.events:
                    e2 = copy.copy(e)
                    e2.seq = e.seq + shift
                    evs.append(e2)
                q.events = evs
                q.assume = list(p.assume) + list(q.assume)
                out.append(q)
        return out

    def _loop_condition_seeds(self):
        """{phi register: constant} for loop-carried variables whose only role at the loop head is 'go on while x == K'"""
        if getattr(self, '_lcs', None) is not None:
            return self._lcs
        out = {}
        fn = self.fn
        blk = fn.blocks[self.header]
        t = blk.instrs[-1]
        if t.op == 'br' and len(t.targets) == 2 and t.ops and t.ops[0].kind == 'reg':
            inside = [x in self.loop_body for x in t.targets]
            cnd = fn.defs.get(t.ops[0].name)
            if cnd is not None and cnd.op == 'icmp' and inside[0] != inside[1] and cnd.ops[0].kind == 'reg' and cnd.ops[1].kind == 'int':
                ph = fn.defs.get(cnd.ops[0].name)
                if ph is not None and ph.op == 'phi' and ph.block is blk and ph is not self.state_phi and ph is not self.tok_phi:
                    stay_when_true = inside[0]
                    if (cnd.pred == 'eq') == stay_when_true:
                        out[ph.res] = ('c', cnd.ops[1].ival)
        self._lcs = out
        return out

    def state_constants(self):
        """every constant that can flow into the state variable (assignments in the loop,
        the initial value and force_state arguments of every caller)"""
        out = set()
        unknown = []
        fn = self.fn
        seen = set()

        def walk(v):
            if v.kind == 'int':
                out.add(v.ival)
                return
            if v.kind != 'reg' or v.name in seen:
                return
            seen.add(v.name)
            d = fn.defs.get(v.name)
            if d is None:
                # parameter: force_state -> look at every caller
                pn = fn.param_names.get(v.name)
                idx = [p.name for p in fn.params].index(v.name)
                def arg_consts(g, a, line, depth=0):
                    """constants that can be passed as this argument (through phis, selects and helper parameters)"""
                    if a.kind == 'int':
                        out.add(a.ival)
                        return
                    if a.kind != 'reg' or depth > 4:
                        unknown.append((g.name, line))
                        return
                    gd = g.defs.get(a.name)
                    if gd is None:
                        # a parameter of a helper: whatever the helper's callers pass
                        names = [p_.name for p_ in g.params]
                        if a.name in names and g.name in self.ctx.unknown_funcs:
                            k = names.index(a.name)
                            found = False
                            for h in self.ctx.all_funcs():
                                for c2 in h.calls(g.name):
                                    if k < len(c2.args):
                                        found = True
                                        arg_consts(h, c2.args[k], c2.line, depth + 1)
                            if found:
                                return
                        unknown.append((g.name, line))
                    elif gd.op == 'phi':
                        for x in gd.ops:
                            arg_consts(g, x, line, depth + 1)
                    elif gd.op == 'select':
                        arg_consts(g, gd.ops[1], line, depth + 1)
                        arg_consts(g, gd.ops[2], line, depth + 1)
                    elif gd.op == 'call' and (gd.callee_name() or '') in self.ctx.unknown_funcs:
                        # computed by a helper: whatever that helper can return
                        h = self.ctx.func(gd.callee_name())
                        rets = [i_ for i_ in h.instrs() if i_.op == 'ret' and i_.ops]
                        if not rets:
                            unknown.append((g.name, line))
                        for r_ in rets:
                            arg_consts(h, r_.ops[0], r_.line, depth + 1)
                    else:
                        unknown.append((g.name, line))
                for g in self.ctx.all_funcs():
                    for call in g.calls('cfg_parse_internal'):
                        arg_consts(g, call.args[idx], call.line)
                return
            if d.op == 'phi':
                for x in d.ops:
                    walk(x)
            elif d.op == 'select':
                walk(d.ops[1])
                walk(d.ops[2])
            else:
                unknown.append((fn.name, d.line))
        if self.state_phi is not None:
            walk(sym_value(self.state_phi.res))
            return out, unknown
        if self.state_field is not None:
            # state kept in a member of a local record: every store to that member of that record type, here or in a helper
            sname, fld = self.state_field[2], self.state_field[3]
            real = next((k for k, v in self.field_slots.items() if v == 'state'), self.state_field)
            for g in self.ctx.deep_funcs(fn):
                for ins in g.instrs():
                    if ins.op != 'store' or ins.ops[1].kind != 'reg':
                        continue
                    gp = g.defs.get(ins.ops[1].name)
                    if gp is None or gp.op != 'getelementptr' or len(gp.ops) < 3 or gp.ops[2].kind != 'int':
                        continue
                    if (gp.srcty or '').strip() != '%struct.' + sname or g.module.field_name(gp.srcty.strip(), gp.ops[2].ival) != real[3]:
                        continue
                    v = ins.ops[0]
                    if g is fn:
                        walk(v)
                    elif v.kind == 'int':
                        out.add(v.ival)
                    else:
                        d = g.defs.get(v.name) if v.kind == 'reg' else None
                        if d is not None and d.op in ('phi', 'select') and all(x.kind == 'int' for x in (d.ops if d.op == 'phi' else d.ops[1:])):
                            for x in (d.ops if d.op == 'phi' else d.ops[1:]):
                                out.add(x.ival)
                        else:
                            unknown.append((g.name, getattr(d, 'line', None)))
            return out, unknown
        # state kept in a stack slot: every value stored into it, here or (through the pointer) in a helper
        def stores_into(g, reg, depth=0):
            for ins in g.instrs():
                if ins.op == 'store' and ins.ops[1].kind == 'reg' and ins.ops[1].name == reg:
                    yield g, ins.ops[0]
                elif ins.op == 'call' and not ins.is_dbg() and depth < 4:
                    h = self.ctx.func(ins.callee_name() or '')
                    if h is None or h.name not in self.ctx.unknown_funcs:
                        continue
                    for k, a in enumerate(ins.args):
                        if a.kind == 'reg' and a.name == reg and k < len(h.params):
                            for x in stores_into(h, h.params[k].name, depth + 1):
                                yield x
        for g, v in stores_into(fn, self.state_slot):
            if g is fn:
                walk(v)
            elif v.kind == 'int':
                out.add(v.ival)
            else:
                d = g.defs.get(v.name) if v.kind == 'reg' else None
                if d is not None and d.op in ('phi', 'select') and all(x.kind == 'int' for x in (d.ops if d.op == 'phi' else d.ops[1:])):
                    for x in (d.ops if d.op == 'phi' else d.ops[1:]):
                        out.add(x.ival)
                else:
                    unknown.append((g.name, getattr(d, 'line', None)))
        return out, unknown

    def transitions(self, state, tok, seeds=None):
        """residual paths of one loop iteration.  seeds: {variable or parameter name: int}
        for loop-carried variables (ignore, num_values) and parameters (level, force_state)"""
        key = (state, tok, tuple(sorted((seeds or {}).items())))
        if key in self._table:
            return self._table[key]
        fn = self.fn
        env = {}
        for p in fn.params:
            nm = fn.param_names.get(p.name, p.name)
            env[p.name] = ('p', nm)
            if seeds and nm in seeds:
                env[p.name] = ('c', seeds[nm])
        for nm, ph in self.phis.items():
            env[ph.res] = ('p', nm)
            if seeds and nm in seeds:
                env[ph.res] = ('c', seeds[nm])
        if self.state_phi is not None:
            env[self.state_phi.res] = ('c', state)
        if self.tok_phi is not None:
            env[self.tok_phi.res] = ('c', tok)
        # "while (rc == CONTINUE)": an iteration that happens starts with the loop condition true
        for reg_, val_ in self._loop_condition_seeds().items():
            env[reg_] = val_
        # locals whose address is taken (handed to a helper by reference) live in memory instead of in a
        # loop-carried SSA value: seed the slot with the same symbol, read the final content back below
        mem = {}
        for reg, nm in self.slot_vars.items():
            mem[('alloca', reg)] = ('c', seeds[nm]) if seeds and nm in seeds else ('p', nm)
        if self.state_slot is not None:
            mem[('alloca', self.state_slot)] = ('c', state)
        for addr, nm in self.field_slots.items():
            mem[addr] = ('c', seeds[nm]) if seeds and nm in seeds else ('p', nm)
        if self.state_field is not None:
            mem[self.state_field] = ('c', state)
        paths = self.ex.explore(fn, start=self.header, env=env, stop=[self.header],
                                call_results={'cfg_yylex': [('c', tok)]},
                                neq={('p', 'cfg'): {0}}, mem=mem)
        paths = self._finish_loop(paths)
        out = []
        for p in paths:
            if p.end == 'cut':
                continue
            if p.end == 'yield':
                # the iteration went on to fetch another token without coming back to the loop head: the loop-carried
                # variables are what they were when the iteration began
                p.end = 'stop'
                for nm, ph in self.phis.items():
                    p.next.setdefault(nm, env[ph.res])
                    p.next.setdefault(ph.res, env[ph.res])
            if p.end == 'stop':
                for reg, nm in self.slot_vars.items():
                    if nm not in p.next:
                        p.next[nm] = p.mem.get(('alloca', reg), ('p', nm))
                for addr, nm in self.field_slots.items():
                    if nm not in p.next:
                        p.next[nm] = p.mem.get(addr, ('p', nm))
            tr = Transition(state, tok, p, self)
            out.append(tr)
        if not out:
            raise sym.AnalysisIncomplete('no residual path for state %d token %s' % (state, TOKNAME.get(tok, tok)))
        self._table[key] = out
        return out

    def opt_nonnull_states(self):
        c, model = self.ctx, self
        if getattr(self, '_nonnull', None) is not None:
            return self._nonnull
        states = set(model.states)
        nonnull = set(states) - {0}
        # forced entries
        idx_state, idx_opt = 2, 3
        for g in c.all_funcs():
            for call in g.calls('cfg_parse_internal'):
                fo = call.args[idx_opt]
                if fo.kind == 'null':
                    fs = call.args[idx_state]
                    if fs.kind == 'int' and fs.ival in nonnull and fs.ival != -1:
                        nonnull.discard(fs.ival)
        changed = True
        table = [(s, tok, trs) for s, tok, trs in model.table()]
        while changed:
            changed = False
            for s, tok, trs in table:
                for tr in trs:
                    if tr.kind != 'next' or tr.next_state is None or tr.next_state not in nonnull:
                        continue
                    if s in nonnull and tr.assumes('opt', False):
                        continue
                    o = tr.next.get('opt')
                    ok = False
                    if o is None or o == ('p', 'opt'):
                        ok = (s in nonnull) or tr.assumes('opt')
                    elif o[0] == 'call':
                        # non-null iff the path assumed so
                        for cn, t, _ in tr.assume:
                            na = _is_null_assumption(cn, t)
                            if na and na[0] == o and not na[1]:
                                ok = True
                    if not ok:
                        nonnull.discard(tr.next_state)
                        changed = True
        self._nonnull = nonnull
        return nonnull

    def table(self, states=None, toks=None):
        states = self.states if states is None else states
        toks = sorted(TOKENS.values()) if toks is None else toks
        for s in states:
            for t in toks:
                yield s, t, self.transitions(s, t)


def callback_wrappers(ctx):
    """small helper functions that only wrap a user-callback call (e.g. a factored-out
    'if (opt && opt->validcb) return opt->validcb(cfg, opt);'): analysed as part of their caller"""
    out = set()
    keep = {'cfg_setopt', 'call_function', 'cfg_error', 'cfg_parse_internal', 'cfg_free_value', 'cfg_print_pff_indent',
            'cfg_opt_print_pff_indent', 'cfg_setnint', 'cfg_setnfloat', 'cfg_setnstr', 'cfg_include'}
    for f in ctx.confuse.funcs.values():
        if f.name in keep:
            continue
        n = sum(1 for _ in f.instrs())
        if n > 60:
            continue
        ind = [x for x in f.calls() if x.callee_name() is None]
        if ind and not any(True for _ in f.calls('cfg_parse_internal')):
            out.add(f.name)
    return out


def _is_null_assumption(cnd, truth):
    if cnd[0] != 'icmp' or cnd[1] not in ('eq', 'ne'):
        return None
    a, b = cnd[2], cnd[3]
    if sym.is_const(a):
        a, b = b, a
    if not (sym.is_const(b) and b[1] == 0):
        return None
    return (a, (cnd[1] == 'eq') == truth)


class sym_value(object):
    """tiny adaptor so state_constants can walk from a register name"""

    def __init__(self, name):
        self.kind = 'reg'
        self.name = name
