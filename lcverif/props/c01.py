"""C01 - parsed configuration equals the reference meaning of the text (structural half).

Decided: which token sequences the hand-written state machine accepts and which
store / call / recurse action each token triggers (R1.1), closure of the state
variable (R1.2), the default/reset typestate that implements "= replaces,
+= appends, unmentioned keeps default" (R1.3), exhaustiveness of every dispatch
on the option type (R1.4).  NOT decided: the values read back.
"""
from .. import lexmodel, sym, parsermodel as pm, failpaths as fp, report, cfg as _cfg

EXPLANATION = (
    'Static analysis: the transition table of cfg_parse_internal is extracted from the LLVM IR by constant propagation '
    '(state and token seeded, branch assumptions recorded). Runtime-failure variants (allocation failure, callback '
    'veto, conversion failure) are set aside; the remaining grammar transitions are compared with the reference token '
    'automaton of the configuration language written below from the documentation (name, = / +=, value, braced or bare '
    'list, [title] section body, function call), by a simultaneous breadth-first walk that pairs implementation states '
    'with reference states on first visit, so state numbers are not part of the oracle; compared are, per token class '
    'and option kind, accept/reject/return/recurse and the store/call action. Also: every constant reaching the state '
    'variable has a case; the RESET/MODIFIED typestate around defaults, "=" and "+="; every dispatch on the option '
    'type covers the value-carrying enumerators. The stored values themselves are not computed.')

T = pm.TOKENS
FAILURE_MARKS = ('cfg_setopt()', 'cfg_addval()', 'strdup()', 'cfg_addopt()', 'call_function()', 'cfg_parse_internal()',
                 'indirect:validcb()', 'indirect:')

# ---- reference automaton -----------------------------------------------------------
# state -> {token: [(kind-guard or None, next | 'error' | 'return' | 'accept', action or None)]}
# kinds: scalar, list, section, titled, func, unknown
REF = {
    'NAME': {
        'STR': [('scalar', 'ASSIGN', 'lookup'), ('list', 'ASSIGN', 'lookup'), ('section', 'LBRACE', 'lookup'),
                ('titled', 'TITLE', 'lookup'), ('func', 'LPAREN', 'lookup'), ('unknown', 'error', 'lookup')],
        '}': [('level>0', 'return', None), ('level0', 'error', None)],
        'EOF': [(None, 'accept', None)],
        '*': [(None, 'error', None)],
    },
    'ASSIGN': {
        '=': [('scalar', 'VALUE', None), ('list', 'LISTOPEN', None)],
        '+=': [('scalar', 'error', None), ('list', 'LISTOPEN', None)],
        '*': [(None, 'error', None)],
    },
    'VALUE': {          # scalar value
        'STR': [(None, 'NAME', 'store')],
        '*': [(None, 'error', None)],
    },
    'LISTOPEN': {
        '{': [(None, 'ELEM', None)],
        'STR': [(None, 'NAME', 'store')],       # bare single value
        '*': [(None, 'error', None)],
    },
    'ELEM': {           # after '{' or ','
        'STR': [(None, 'SEP', 'store')],
        '}': [(None, 'NAME', None)],
        '*': [(None, 'error', None)],
    },
    'SEP': {
        ',': [(None, 'ELEM', None)],
        '}': [(None, 'NAME', None)],
        '*': [(None, 'error', None)],
    },
    'TITLE': {
        'STR': [(None, 'LBRACE', None)],
        '*': [(None, 'error', None)],
    },
    'LBRACE': {
        '{': [(None, 'NAME', 'section')],
        '*': [(None, 'error', None)],
    },
    'LPAREN': {
        '(': [(None, 'ARG', None)],
        '*': [(None, 'error', None)],
    },
    'ARG': {
        ')': [(None, 'NAME', 'call')],
        'STR': [(None, 'ARGSEP', 'arg')],
        '*': [(None, 'error', None)],
    },
    'ARGSEP': {
        ')': [(None, 'NAME', 'call')],
        ',': [(None, 'ARG', None)],
        '*': [(None, 'error', None)],
    },
}
REF_TOKENS = ['STR', '=', '+=', '{', '}', '(', ')', ',', 'EOF']
# in which reference states is the option a list / a scalar (for guard filtering of shared implementation states)
STATE_KIND = {'VALUE': 'scalar', 'LISTOPEN': 'list', 'ELEM': 'list', 'SEP': 'list'}


def is_failure_variant(tr):
    """the path exists because something failed at run time (not because of the token)"""
    for cnd, t, ins in tr.assume:
        na = fp.is_null_assumption(cnd, t)
        if na is not None:
            v, isnull = na
            if v[0] == 'call':
                nm = v[1]
                if nm in ('cfg_setopt', 'cfg_addval', 'strdup', 'cfg_addopt') and isnull:
                    return True
                if nm in ('call_function',) and not isnull:
                    return True
                if nm.startswith('indirect:') and not isnull:
                    return True
        if cnd[0] == 'icmp':
            for side in (cnd[2], cnd[3]):
                if side[0] == 'call' and side[1] == 'cfg_parse_internal':
                    other = cnd[3] if side is cnd[2] else cnd[2]
                    if sym.is_const(other) and other[1] == -1 and ((cnd[1] == 'ne') == t):
                        return True
    return False


def kind_facts(tr):
    """facts about the current / looked-up option from the path assumptions"""
    f = {}
    for x in tr.cond():
        neg = x.startswith('!')
        y = x[1:] if neg else x
        if y.startswith('not(') and y.endswith(')'):
            y = y[4:-1]
            neg = not neg
        if y.endswith('->flags has LIST'):
            f['list'] = not neg
        elif y.endswith('->flags has TITLE'):
            f['title'] = not neg
        elif y.endswith('->type eq SEC'):
            f['sec'] = not neg
        elif y.endswith('->type eq FUNC'):
            f['func'] = not neg
        elif pm.NOTFOUND.match(x):
            f['found'] = False
        elif y.startswith('cfg_getopt()#') and '->' not in y:
            f['found'] = not neg
        elif y == 'cfg->flags has IGNORE_UNKNOWN':
            f['ignore'] = not neg
        elif y == 'cfg->flags has KEYSTRVAL':
            f['keyval'] = not neg
        elif y == 'level':
            f['level0'] = neg
        elif y.startswith('level eq 0'):
            f['level0'] = not neg
        elif y.endswith('->flags has DEPRECATED') or y in ('opt', 'comment', 'opttitle'):
            pass
        elif y.endswith('->validcb') or y.endswith('->flags has RESET') or y.startswith('num_values'):
            pass
    return f


def action_of(tr):
    names = tr.call_names()
    if 'cfg_parse_internal' in names and 'cfg_setopt' in names:
        return 'section'
    if 'call_function' in names:
        return 'call'
    if 'cfg_setopt' in names:
        return 'store'
    if 'cfg_addval' in names:
        return 'arg'
    if 'cfg_getopt' in names:
        return 'lookup'
    return None


def name_kind(f):
    if f.get('found') is False:
        return 'unknown'
    if f.get('sec'):
        return 'titled' if f.get('title') else 'section'
    if f.get('func'):
        return 'func'
    return 'value'      # scalar or list: decided later by the LIST flag


def grammar(c, chk, model):
    """R1.1: the transitions of the extracted parser table against the reference token automaton"""
    # ---- R1.1 ---------------------------------------------------------------------------
    nonnull = model.opt_nonnull_states()
    pair = {'NAME': 0}            # ref state -> impl state
    rev = {0: {'NAME'}}
    work = ['NAME']
    done = set()
    ncmp = 0
    bad = {}
    while work:
        rs = work.pop(0)
        if rs in done:
            continue
        done.add(rs)
        s = pair[rs]
        for tokname in REF_TOKENS:
            tok = T[tokname]
            rules = REF[rs].get(tokname) or REF[rs]['*']
            trs = [tr for tr in model.transitions(s, tok) if not is_failure_variant(tr)
                   and not (s in nonnull and tr.assumes('opt', False))]
            for guard, want, act in rules:
                ncmp += 1
                sel = []
                for tr in trs:
                    f = kind_facts(tr)
                    if rs == 'NAME' and tokname == 'STR':
                        k = name_kind(f)
                        if guard in ('scalar', 'list'):
                            if k != 'value':
                                continue
                        elif guard == 'unknown':
                            if k != 'unknown' or f.get('ignore') or f.get('keyval'):
                                continue
                        elif k != guard:
                            continue
                    elif guard in ('scalar', 'list'):
                        if 'list' in f and f['list'] != (guard == 'list'):
                            continue
                    elif guard == 'level>0':
                        if f.get('level0') is True:
                            continue
                    elif guard == 'level0':
                        if f.get('level0') is False:
                            continue
                    kind_ctx = STATE_KIND.get(rs)
                    if kind_ctx and 'list' in f and f['list'] != (kind_ctx == 'list'):
                        continue
                    sel.append(tr)
                if not sel:
                    bad.setdefault('%s:%s:%s:none' % (rs, tokname, guard), (rs, s, tokname, guard, want, 'no grammar transition', None))
                    continue
                for tr in sel:
                    got = None
                    if tr.kind == 'ret':
                        got = {1: 'error', -1: 'accept' if tokname == 'EOF' else 'return', 0: 'continue'}.get(tr.ret, 'ret%s' % tr.ret)
                    elif tr.kind == 'next':
                        got = ('state', tr.next_state)
                    else:
                        got = tr.kind
                    if want in ('error', 'return', 'accept'):
                        if got != want:
                            bad.setdefault('%s:%s:%s' % (rs, tokname, guard),
                                           (rs, s, tokname, guard, want, 'implementation: %s' % (tr.outcome()), tr))
                        continue
                    # want is a reference state
                    if not (isinstance(got, tuple) and got[0] == 'state' and got[1] is not None):
                        bad.setdefault('%s:%s:%s' % (rs, tokname, guard), (rs, s, tokname, guard, want, 'implementation: %s' % tr.outcome(), tr))
                        continue
                    ns = got[1]
                    if want in pair:
                        if pair[want] != ns:
                            bad.setdefault('%s:%s:%s' % (rs, tokname, guard),
                                           (rs, s, tokname, guard, want, 'implementation goes to state %d, but %s was paired with state %d' % (ns, want, pair[want]), tr))
                            continue
                    else:
                        pair[want] = ns
                        rev.setdefault(ns, set()).add(want)
                        work.append(want)
                    if act and act != 'lookup':
                        a = action_of(tr)
                        if a != act:
                            bad.setdefault('%s:%s:%s:action' % (rs, tokname, guard),
                                           (rs, s, tokname, guard, want, 'expected action %s, implementation does %s' % (act, a), tr))
                    elif act is None and want not in ('error',):
                        a = action_of(tr)
                        if a in ('store', 'call', 'section', 'arg'):
                            bad.setdefault('%s:%s:%s:action' % (rs, tokname, guard),
                                           (rs, s, tokname, guard, want, 'no store/call expected here, implementation does %s' % a, tr))
        chk.ok('R1.1', 'reference state %s ~ parser state %d' % (rs, s), '%d token classes compared' % len(REF_TOKENS), sample=(rs in ('NAME', 'ELEM', 'ARG')))
    for key, (rs, s, tokname, guard, want, why, tr) in sorted(bad.items()):
        chk.fail('R1.1', 'grammar:' + key, c.where(model.fn, tr.path.last_ins.line if tr is not None and tr.path.last_ins is not None else None),
                 'in "%s" (parser state %d) on token %s%s the language says %s; %s'
                 % (rs, s, tokname, ' for a %s option' % guard if guard else '', want if want in ('error', 'return', 'accept') else 'go on to "%s"' % want, why),
                 witness=[tr.describe()] if tr is not None else None)
    missing = [r for r in REF if r not in pair]
    if missing and not bad:
        chk.fail('R1.1', 'grammar:unreached:%s' % ','.join(sorted(missing)), c.where(model.fn), 'reference states %s are never reached by the implementation' % sorted(missing))
    chk.floor('R1.1 (state, token, kind) comparisons', ncmp, 100)
    chk.extra['state_pairing'] = {k: v for k, v in sorted(pair.items())}



def run(c, chk):
    chk.explanation = EXPLANATION
    chk.rule('R1.1', 'grammar transitions of the extracted parser table equal the reference token automaton (accept/reject/return/recurse + action)')
    chk.rule('R1.2', 'every constant that can reach the state variable has a case; the scanner returns no token outside the parser\'s alphabet')
    chk.rule('R1.3', 'RESET/MODIFIED typestate: defaults set it, "=" sets it, "+=" clears it (lists only), consumers free-and-clear before the first append')
    chk.rule('R1.4', 'every dispatch on the option type covers the value-carrying enumerators')
    chk.trusted = ['clang/opt IR', 'reference automaton in lcverif/props/c01.py (from doc/tutorial + property text)']
    chk.assumptions = ['values are not computed; multi-section order, title merge and nesting depth are not decided']
    model = pm.ParserModel(c)
    chk.analysed = {'parser_states': len(model.states), 'reference_states': len(REF)}

    grammar(c, chk, model)

    # argument text: every store / title / argument takes the token text
    check_token_text(c, chk, model)

    # ---- R1.2 ---------------------------------------------------------------------------
    consts, unknown = model.state_constants()
    cases = set(model.states)
    guard_m1 = any(i.op == 'icmp' and i.ops[1].kind == 'int' and i.ops[1].ival == -1 and i.ops[0].kind == 'reg'
                   and model.fn.param_names.get(i.ops[0].name) == 'force_state' for i in model.fn.instrs())
    extra = sorted(x for x in consts if x not in cases and not (x == -1 and guard_m1))
    if extra:
        chk.fail('R1.2', 'state-closure:%s' % extra, c.where(model.fn), 'the state variable can take the value(s) %s, which have no case (internal-error arm)' % extra)
    elif unknown and not all_const_callers(c, model):
        chk.fail('R1.2', 'state-nonconst', c.where(model.fn), 'a non-constant value can reach the state variable: %s' % unknown[:3])
    else:
        chk.ok('R1.2', 'state constants %s' % sorted(consts), 'all have a case; the default (internal error) arm is unreachable', sample=True)
    # scanner alphabet
    lex = c.lex
    rets = set()
    for r, aps in list(lex.actions.items()) + [(None, a) for a in lex.eof_actions.values()]:
        for ap in aps:
            if ap.returns:
                rv = ap.retval
                while rv is not None and rv[0] == 'bin' and rv[1] in ('sext', 'zext', 'trunc'):
                    rv = rv[2]
                if r is not None and rv is not None and not sym.is_const(rv) and lexmodel._yytext_index(rv) == 0:
                    # "return yytext[0]": the token is the first byte of whatever the rule can match
                    for scn in lex.dfa.rule_conditions().get(r, []):
                        for b in lex.dfa.first_bytes(scn, lambda x, r=r: x == r):
                            rets.add(b)
                    continue
                rets.add(ap.retval[1] if sym.is_const(ap.retval) else sym.render(ap.retval))
    alien = sorted(str(x) for x in rets if x not in set(T.values()))
    if alien:
        chk.fail('R1.2', 'token-alphabet:%s' % alien, 'src/lexer.l', 'the scanner can return token value(s) %s that the parser has no class for' % alien)
    else:
        chk.ok('R1.2', 'token alphabet', 'scanner returns only %s' % sorted(pm.TOKNAME[x] for x in rets))

    # ---- R1.3 ---------------------------------------------------------------------------
    reset_typestate(c, chk, model)

    # ---- R1.5: a repeated title replaces that section in place, also in a case-insensitive context ----
    chk.rule('R1.5', 'the title merge of the section store folds case according to the context flags (like option names)')
    from . import c09
    ex_ = sym.Explorer(c.modules, max_visits=2, mod_sets=c.mod_sets, max_paths=60000)
    ts = c09.title_sites(c, ex_)
    if 'cfg_t' in c09.merge_words(c, ts):
        chk.ok('R1.5', 'cfg_setopt: title merge', 'an incoming title is compared with the existing ones under cfg->flags CFGF_NOCASE', sample=True)
    else:
        chk.fail('R1.5', 'title-merge-case:cfg_setopt', c.where(c.need('cfg_setopt')),
                 'cfg_setopt() no longer compares an incoming title with the existing ones under the context\'s CFGF_NOCASE (found: %s): '
                 'in a case-insensitive context a repeated title in other letter case is appended instead of replacing the section'
                 % (sorted(str(x) for x in ts.get('cfg_setopt', [])) or 'no comparison of its own'))

    # ---- R1.4 ---------------------------------------------------------------------------
    type_dispatch(c, chk)
    construct_before_use(c, chk, 'R1.6')
    depends_on(c, chk)
    deprecated_handling(c, chk, model)
    section_store(c, chk, ex_)


def section_store(c, chk, ex):
    """R1.11: what the store does with a section that is written again: an instance of a multi section is always a newly
    built one (a repeated title REPLACES the old instance - nothing of the old one may show through), an existing single
    section is kept and merged into"""
    chk.rule('R1.11', 'storing a multi section always installs a newly built instance (a repeated title replaces, nothing of the old one survives); an existing single section is kept (re-opening merges)')
    fn = c.need('cfg_setopt')
    nmulti = nsingle = 0
    bad = None
    bad2 = None
    bad3 = None
    bad4 = None
    for p in ex.explore(fn):
        if p.end != 'ret' or p.retval is None or p.retval == sym.C0:
            continue
        facts = {}
        for cn, t, _ in p.assume:
            d = pm.describe_cond(cn)
            neg = d.startswith('not(')
            if neg:
                d = d[4:-1]
            facts[d] = (t != neg)
        if not any(k.endswith('->type eq SEC') and v for k, v in facts.items()) and \
                not any(e.kind == 'store' and e.field == 'section' for e in p.events) and not any(e.kind == 'call' and e.name == 'cfg_init_defaults' for e in p.events):
            continue
        multi = next((v for k, v in facts.items() if k == 'opt->flags has MULTI'), None)
        stores = [e for e in p.events if e.kind == 'store' and e.field == 'section' and sym.object_of(e.addr)[0] != 'alloca']
        fresh = [e for e in stores if sym.root_of(e.val)[0] == 'call' and sym.root_of(e.val)[1] in ex.FRESH]
        inits = [e for e in p.events if e.kind == 'call' and e.name == 'cfg_init_defaults']
        if multi:
            nmulti += 1
            if not fresh:
                bad = bad or p
            elif not any(e.args and e.args[0] == fresh[-1].val for e in inits) and not any(sym.norm(e.args[0]) == sym.norm(('ld', fresh[-1].addr)) for e in inits if e.args):
                bad3 = bad3 or p          # a new instance that never gets the declared defaults of its options
        elif multi is False:
            # a single section that exists already: found by the path's own test of the slot
            exists = any(k.endswith('.section') or k.endswith('->section') for k, v in facts.items() if v)
            if exists:
                nsingle += 1
                if stores or any(e.kind == 'call' and e.name == 'cfg_free' for e in p.events):
                    bad2 = bad2 or p
                elif inits:
                    bad4 = bad4 or p          # kept, but its options are set back to their defaults: not a merge
    if bad is not None:
        chk.fail('R1.11', 'multi-section-not-rebuilt', c.where(bad.last_ins) if bad.last_ins is not None else c.where(fn),
                 'cfg_setopt() can store a CFGF_MULTI section and succeed without installing a newly built instance (%s): when the title repeats, '
                 'the old instance is re-used and whatever it held (list elements, options without defaults, nested sections) shows through '
                 'instead of being replaced' % fp.cond_text(bad, 5))
    elif nmulti:
        chk.ok('R1.11', 'cfg_setopt: %d successful stores of a multi section' % nmulti, 'each installs an instance built on that path', sample=True)
    if bad2 is not None:
        chk.fail('R1.11', 'single-section-replaced', c.where(bad2.last_ins) if bad2.last_ins is not None else c.where(fn),
                 'cfg_setopt() replaces or releases an existing single section when it is written again (%s): re-opening it must merge' % fp.cond_text(bad2, 5))
    elif nsingle:
        chk.ok('R1.11', 'cfg_setopt: %d stores into an existing single section' % nsingle, 'the instance is kept')
    if bad3 is not None:
        chk.fail('R1.11', 'multi-section-no-defaults', c.where(bad3.last_ins) if bad3.last_ins is not None else c.where(fn),
                 'cfg_setopt() can install a newly built instance of a multi section without giving it the declared defaults of its options (%s): e.g. a section defined again under '
                 'an existing title comes out with empty options and without its pre-created sub-sections' % fp.cond_text(bad3, 5))
    if bad4 is not None:
        chk.fail('R1.11', 'single-section-reinitialised', c.where(bad4.last_ins) if bad4.last_ins is not None else c.where(fn),
                 'cfg_setopt() runs cfg_init_defaults() on a single section that exists already when it is written again (%s): re-opening the section sets its options back to '
                 'their defaults (and appends list defaults once more) instead of merging into what it holds' % fp.cond_text(bad4, 5))
    chk.floor('R1.11 successful stores of a multi section', nmulti, 2)
    chk.floor('R1.11 stores into an existing single section', nsingle, 1)


def all_const_callers(c, model):
    """force_state arguments of all callers resolve to constants (through phis)"""
    for g in c.all_funcs():
        for call in g.calls('cfg_parse_internal'):
            a = call.args[2]
            if not const_set(g, a, set()):
                return False
    return True


def const_set(g, v, seen):
    if v.kind == 'int':
        return {v.ival}
    if v.kind != 'reg' or v.name in seen:
        return set() if v.kind == 'reg' and v.name in seen else None
    seen = seen | {v.name}
    d = g.defs.get(v.name)
    if d is None:
        return None
    if d.op == 'phi':
        out = set()
        for x in d.ops:
            r = const_set(g, x, seen)
            if r is None:
                return None
            out |= r
        return out
    if d.op == 'select':
        a = const_set(g, d.ops[1], seen)
        b = const_set(g, d.ops[2], seen)
        return None if a is None or b is None else a | b
    return None


def check_token_text(c, chk, model):
    """value stores, titles, function arguments and names take cfg_yylval, the text of the current token"""
    YL = ('ld', ('g', '@cfg_yylval'))
    n = 0
    for s in model.states:
        for tr in model.transitions(s, T['STR']):
            if is_failure_variant(tr):
                continue
            for e in tr.calls('cfg_setopt'):
                n += 1
                v = e.args[2]
                if not (v[0] == 'ld' and v[1] == ('g', '@cfg_yylval')):
                    chk.fail('R1.1', 'store-arg:state%d' % s, c.where(e.ins), 'state %d stores %s instead of the text of the value token' % (s, sym.render(v)))
            for e in tr.calls('cfg_getopt') + tr.calls('cfg_addopt'):
                n += 1
                v = e.args[1]
                if not (v[0] == 'ld' and v[1] == ('g', '@cfg_yylval')):
                    chk.fail('R1.1', 'name-arg:state%d' % s, c.where(e.ins), 'state %d looks up %s instead of the text of the name token' % (s, sym.render(v)))
    # section creation takes the saved title
    for s in model.states:
        for tr in model.transitions(s, T['{']):
            for e in tr.calls('cfg_setopt'):
                n += 1
                if e.args[2] != ('p', 'opttitle'):
                    chk.fail('R1.1', 'title-arg:state%d' % s, c.where(e.ins), 'the section is created with %s instead of the saved title' % sym.render(e.args[2]))
    chk.ok('R1.1', 'token text', '%d store/lookup/title call sites take the current token text (cfg_yylval) / the saved title' % n)
    chk.floor('R1.1 token-text call sites', n, 6)


def flag_store(e, bit):
    """('set'|'clear'|None) - does this store set / clear `bit` in a flags word"""
    v = e.val
    if e.field != 'flags' or v[0] != 'bin':
        return None
    if v[1] == 'or' and sym.is_const(v[3]) and v[3][1] & bit:
        return 'set'
    if v[1] == 'and' and sym.is_const(v[3]) and not (v[3][1] & bit):
        return 'clear'
    return None


def reset_typestate(c, chk, model):
    RESET, MOD = 64, 4096
    # (b) the '=' and '+=' arms
    assign_state = None
    for s in model.states:
        trs = [tr for tr in model.transitions(s, T['=']) if tr.kind == 'next']
        if trs and all(any(flag_store(e, RESET) == 'set' for e in tr.events if e.kind == 'store') for tr in trs):
            assign_state = s
    if assign_state is None:
        chk.fail('R1.3', 'assign-sets-reset', c.where(model.fn), 'no parser state sets CFGF_RESET on "=" (old values would be kept)')
        return
    chk.ok('R1.3', 'state %d x "="' % assign_state, 'sets CFGF_RESET on every accepting path', sample=True)
    okp = True
    napp = 0
    for tr in model.transitions(assign_state, T['+=']):
        if tr.kind != 'next':
            continue
        napp += 1
        f = kind_facts(tr)
        cl = any(flag_store(e, RESET) == 'clear' for e in tr.events if e.kind == 'store')
        if not f.get('list'):
            okp = False
            chk.fail('R1.3', 'append-nonlist', c.where(model.fn), '"+=" is accepted for an option that is not a list', witness=[tr.describe()])
        if not cl:
            okp = False
            chk.fail('R1.3', 'append-keeps-reset', c.where(model.fn), '"+=" does not clear CFGF_RESET: appending to defaults would drop them', witness=[tr.describe()])
    if okp and napp:
        chk.ok('R1.3', 'state %d x "+="' % assign_state, 'accepted only for lists; clears CFGF_RESET', sample=True)
    elif not napp:
        chk.fail('R1.3', 'append-missing', c.where(model.fn), '"+=" is never accepted')
    element_counter(c, chk, model, assign_state, 'R1.3')
    defaults_dropped_under_reset(c, chk, 'R1.3')
    # (c) consumers
    for fname in ('cfg_setopt', 'cfg_opt_getval'):
        fn = c.need(fname)
        ex = sym.Explorer(c.modules, max_visits=2, mod_sets=c.mod_sets, max_paths=60000)
        npaths = 0
        badp = None
        for p in ex.explore(fn):
            if p.end != 'ret':
                continue
            conds = [('' if t else '!') + pm.describe_cond(cn) for cn, t, _ in p.assume]
            if 'opt->flags has RESET' not in conds:
                continue
            add = [i for i, e in enumerate(p.events) if e.kind == 'call' and e.name == 'cfg_addval']
            if not add:
                continue
            npaths += 1
            free = [i for i, e in enumerate(p.events) if e.kind == 'call' and e.name == 'cfg_free_value']
            clr = [i for i, e in enumerate(p.events) if e.kind == 'store' and flag_store(e, RESET) == 'clear']
            if not (free and clr and free[0] < add[0] and clr[0] < add[0]):
                badp = p
                break
        if badp is not None:
            chk.fail('R1.3', 'consumer:%s' % fname, c.where(fn), '%s() appends a value while CFGF_RESET is set without first freeing the defaults and clearing the bit' % fname,
                     witness=[repr(e) for e in badp.events[:8]])
        elif npaths:
            chk.ok('R1.3', '%s under RESET' % fname, '%d appending paths: cfg_free_value() and the clear precede the first cfg_addval()' % npaths, sample=True)
        else:
            chk.fail('R1.3', 'consumer-none:%s' % fname, c.where(fn), '%s() never tests CFGF_RESET before appending' % fname)
    # (d) empty list
    found = False
    for s in model.states:
        for tr in model.transitions(s, T['}']):
            if tr.kind == 'next' and 'cfg_free_value' in tr.call_names():
                conds = tr.cond()
                if any('RESET' in x and not x.startswith('!') for x in conds):
                    found = True
    if found:
        chk.ok('R1.3', 'empty list "{}"', 'frees the old values when RESET is set and no element was given')
    else:
        chk.fail('R1.3', 'empty-list', c.where(model.fn), '"= {}" does not clear the previous values of the list')
    # (a) defaults: one iteration of cfg_init_defaults
    fn = c.need('cfg_init_defaults')
    loops = _cfg.natural_loops(fn)
    # outermost loop header = the one not contained in another loop's body (other than itself)
    hdrs = [h for h in loops if not any(h in b and h != h2 for h2, b in loops.items())]
    if len(hdrs) != 1:
        raise report.Broken('cfg_init_defaults: outer loop not identified')
    h = hdrs[0]
    ex = sym.Explorer(c.modules, max_visits=2, mod_sets=c.mod_sets, max_paths=60000)
    nmat = 0
    badp = None
    for p in ex.explore(fn, start=h, stop=[h]):
        if p.end != 'stop':
            continue
        mat = [i for i, e in enumerate(p.events) if e.kind == 'call' and e.name in
               ('cfg_opt_setnint', 'cfg_opt_setnfloat', 'cfg_opt_setnbool', 'cfg_opt_setnstr', 'cfg_parse_internal')]
        if not mat:
            continue
        nmat += 1
        st = [i for i, e in enumerate(p.events) if e.kind == 'store' and flag_store(e, RESET) == 'set']
        cm = [i for i, e in enumerate(p.events) if e.kind == 'store' and flag_store(e, MOD) == 'clear']
        if not (st and cm and st[-1] > mat[-1] and cm[-1] > mat[-1]):
            badp = p
            break
    if badp is not None:
        chk.fail('R1.3', 'defaults-reset', c.where(fn), 'cfg_init_defaults() materialises a default without setting CFGF_RESET and clearing CFGF_MODIFIED afterwards',
                 witness=[repr(e) for e in badp.events[-8:]])
    elif nmat:
        chk.ok('R1.3', 'cfg_init_defaults', '%d default-materialising paths per option: RESET set and MODIFIED cleared after the value is stored' % nmat, sample=True)
    else:
        raise report.Broken('cfg_init_defaults: no default-materialising path found')


VALUE_TYPES = {'cfg_setopt': {'CFGT_INT', 'CFGT_FLOAT', 'CFGT_STR', 'CFGT_BOOL', 'CFGT_SEC', 'CFGT_PTR'},
               'cfg_init_defaults': {'CFGT_INT', 'CFGT_FLOAT', 'CFGT_STR', 'CFGT_BOOL'},
               'cfg_free_value': {'CFGT_STR', 'CFGT_SEC', 'CFGT_PTR'},
               'cfg_opt_nprint_var': {'CFGT_INT', 'CFGT_FLOAT', 'CFGT_STR', 'CFGT_BOOL'},
               'cfg_addlist_internal': {'CFGT_INT', 'CFGT_FLOAT', 'CFGT_STR', 'CFGT_BOOL'}}


def element_counter(c, chk, model, assign_state, rid):
    """the element counter that decides "= {}" starts at 0 for every list assignment and counts every stored element"""
    if assign_state is None:
        for s in model.states:
            trs = [tr for tr in model.transitions(s, T['=']) if tr.kind == 'next']
            if trs and all(any(flag_store(e, 64) == 'set' for e in tr.events if e.kind == 'store') for tr in trs):
                assign_state = s
        if assign_state is None:
            raise report.Broken('the parser state that accepts "=" was not found')
    # (b') the element counter that decides "= {}" starts at 0 for every list assignment and counts every stored element
    for tokname in ('=', '+='):
        for tr in model.transitions(assign_state, T[tokname]):
            if tr.kind != 'next' or not kind_facts(tr).get('list'):
                continue
            nv = tr.next.get('num_values')
            if nv != sym.C0:
                chk.fail(rid, 'element-counter-not-reset:%s' % tokname, c.where(model.fn),
                         'a list assignment ("%s") does not restart the element counter (it becomes %s): a later "= {}" is not recognised as '
                         'empty when an earlier list in the same section had elements, and keeps the old values' % (tokname, sym.render(nv) if nv else 'unchanged'),
                         witness=[tr.describe()])
                break
        else:
            continue
        break
    else:
        chk.ok(rid, 'element counter', 'reset to 0 by "=" and "+=" on a list', sample=False)
    counted = False
    for s_ in model.states:
        for tr in model.transitions(s_, T['STR']):
            if tr.kind == 'next' and 'cfg_setopt' in tr.call_names() and kind_facts(tr).get('list') and not is_failure_variant(tr):
                nv = tr.next.get('num_values')
                if nv == ('bin', 'add', ('p', 'num_values'), ('c', 1)):
                    counted = True
                elif nv in (None, ('p', 'num_values')):
                    chk.fail(rid, 'element-not-counted:state%d' % s_, c.where(model.fn),
                             'state %d stores a list element without counting it: "= {x}" would be treated like "= {}"' % s_, witness=[tr.describe()])
    if counted:
        chk.ok(rid, 'element counting', 'every stored list element increments the counter')


def type_dispatch(c, chk):
    enum = c.confuse.enums.get('cfg_type_t')
    if not enum:
        raise report.Broken('enum cfg_type_t not found in the debug information')
    byval = {v: k for k, v in enum.items()}
    known = {'CFGT_NONE', 'CFGT_INT', 'CFGT_FLOAT', 'CFGT_STR', 'CFGT_BOOL', 'CFGT_SEC', 'CFGT_FUNC', 'CFGT_PTR', 'CFGT_COMMENT'}
    new = sorted(set(enum) - known)
    for fname, need in sorted(VALUE_TYPES.items()):
        fn = c.func(fname)
        if fn is None:
            # folded into another function: some helper must still dispatch over these types
            cands = [g for g in c.confuse.funcs.values() if g.name in c.unknown_funcs]
            fn = next((g for g in cands if need <= dispatched_types(c, g, byval)), None)
            if fn is None:
                raise report.Broken('anchor function %s() not found and no helper dispatches over %s' % (fname, sorted(need)))
            fname = fn.name
        handled = dispatched_types(c, fn, byval)
        miss = sorted(need - handled)
        if miss:
            chk.fail('R1.4', 'dispatch:%s:%s' % (fname, ','.join(miss)), c.where(fn), '%s() has no arm for option type(s) %s' % (fname, miss))
        elif new:
            unhandled = [t for t in new if t not in handled]
            if unhandled:
                chk.fail('R1.4', 'dispatch-new:%s:%s' % (fname, ','.join(unhandled)), c.where(fn),
                         '%s() does not handle the new option type(s) %s' % (fname, unhandled))
            else:
                chk.ok('R1.4', fname, 'handles %s' % sorted(handled))
        else:
            chk.ok('R1.4', fname, 'arms for %s' % sorted(handled), sample=(fname == 'cfg_setopt'))


# ---- R1.6: a context is complete before code that reads it runs ------------------------------------

def dispatched_types(c, fn, byval):
    """enumerators of cfg_type_t that fn (or a helper split off it) compares an option's type with"""
    handled = set()
    for fn_, ins in [(g_, i_) for g_ in c.deep_funcs(fn) for i_ in g_.instrs()]:
        src = None
        if ins.op == 'switch':
            src = ins.ops[0]
            vals = [v for v, _ in ins.cases]
        elif ins.op == 'icmp' and ins.pred in ('eq', 'ne') and ins.ops[1].kind == 'int':
            src = ins.ops[0]
            vals = [ins.ops[1].ival]
        else:
            continue
        if src.kind != 'reg':
            continue
        d = fn_.defs.get(src.name)
        if d is None or d.op != 'load' or d.ops[0].kind != 'reg':
            continue
        g = fn_.defs.get(d.ops[0].name)
        if g is None or g.op != 'getelementptr' or g.srcty.strip() != '%struct.cfg_opt_t' or len(g.ops) < 3 \
                or g.ops[2].kind != 'int' or fn_.module.field_name('%struct.cfg_opt_t', g.ops[2].ival) != 'type':
            continue
        for v in vals:
            if v in byval:
                handled.add(byval[v])
    # a table of per-type workers indexed by the option's type: an enumerator is handled when its entry names a worker
    from ..ir import split_top
    for fn_ in c.deep_funcs(fn):
        for ins in fn_.instrs():
            if ins.op != 'getelementptr' or not ins.ops or ins.ops[0].kind != 'global':
                continue
            tbl = fn_.module.globals.get(ins.ops[0].name)
            if not tbl or not tbl.get('const') or not (tbl.get('init') or '').startswith('['):
                continue

            def from_type(v, depth=0):
                d = fn_.defs.get(v.name) if v.kind == 'reg' else None
                if d is None or depth > 4:
                    # a parameter: the callers pass the type
                    if v.kind == 'reg' and d is None:
                        pos = next((k for k, p_ in enumerate(fn_.params) if p_.name == v.name), None)
                        for g_ in c.confuse.funcs.values():
                            for call in g_.calls(fn_.name):
                                if pos is not None and pos < len(call.args):
                                    a = call.args[pos]
                                    da = g_.defs.get(a.name) if a.kind == 'reg' else None
                                    while da is not None and da.op in ('zext', 'sext', 'trunc'):
                                        da = g_.defs.get(da.ops[0].name) if da.ops[0].kind == 'reg' else None
                                    if da is not None and da.op == 'load' and da.ops[0].kind == 'reg':
                                        gg = g_.defs.get(da.ops[0].name)
                                        if gg is not None and gg.op == 'getelementptr' and gg.srcty.strip() == '%struct.cfg_opt_t' and len(gg.ops) >= 3 \
                                                and gg.ops[2].kind == 'int' and g_.module.field_name('%struct.cfg_opt_t', gg.ops[2].ival) == 'type':
                                            return True
                    return False
                if d.op in ('zext', 'sext', 'trunc'):
                    return from_type(d.ops[0], depth + 1)
                if d.op == 'load' and d.ops[0].kind == 'reg':
                    g = fn_.defs.get(d.ops[0].name)
                    return g is not None and g.op == 'getelementptr' and g.srcty.strip() == '%struct.cfg_opt_t' and len(g.ops) >= 3 \
                        and g.ops[2].kind == 'int' and fn_.module.field_name('%struct.cfg_opt_t', g.ops[2].ival) == 'type'
                return False
            if not any(from_type(o) for o in ins.ops[1:]):
                continue
            elems = split_top(tbl['init'].strip()[1:-1])
            for k, el in enumerate(elems):
                if '@' in el and k in byval:
                    handled.add(byval[k])
    return handled


def construct_before_use(c, chk, rid, only_fields=None, define_rule=True):
    """a freshly allocated context must not have a member (re)assigned after it was handed to library code that
    reads that member: what that code created meanwhile (sections copy the parent's flags, error function, file
    name) was derived from the unfinished value"""
    from ..summaries import field_reads
    if define_rule:
        chk.rule(rid, 'a new context has every member that cfg_init_defaults()/the parser read assigned before it is handed to them')
    reads = field_reads(c.modules)
    ex = sym.Explorer(c.modules, max_visits=2, mod_sets=c.mod_sets, max_paths=50000)
    nsites = 0
    reported = set()
    for f in c.confuse.funcs.values():
        if f.name in c.unknown_funcs:
            continue
        if not any(call.callee_name() == 'calloc' for g in c.deep_funcs(f) for call in g.calls()):
            continue
        makes = False
        for p in ex.explore(f):
            if p.end != 'ret':
                continue
            handed = {}       # fresh object -> [(event index, callee, fields read)]
            for i, e in enumerate(p.events):
                if e.kind == 'call' and not e.inlined and e.name in reads and c.func(e.name) is not None:
                    for a in e.args:
                        if a[0] == 'call' and a[1] == 'calloc':
                            handed.setdefault(a, []).append((i, e.name, reads[e.name]))
                elif e.kind == 'store' and e.addr[0] == 'fld' and e.addr[2] == 'cfg_t' and e.addr[1] in handed:
                    fld = e.addr[3]
                    if only_fields and fld not in only_fields:
                        continue
                    for i0, callee, rd in handed[e.addr[1]]:
                        if fld in rd:
                            key = 'late-init:%s:%s:%s' % (f.name, fld, callee)
                            if key not in reported:
                                reported.add(key)
                                chk.fail(rid, key, c.where(e.ins), '%s() assigns the new context\'s "%s" only after %s() has already run on it, which reads that member: '
                                         'sections created by then copied the unfinished value (e.g. they miss the context flags)' % (f.name, fld, callee))
            if handed:
                makes = True
        if makes:
            nsites += 1
            if not any(k.startswith('late-init:%s:' % f.name) for k in reported):
                chk.ok(rid, f.name, 'every member the callees read is assigned before the new context is handed to them', sample=True)
    chk.floor('%s functions that build a context and hand it on' % rid, nsites, 1)


# ---- R1.7: a deprecated option is dealt with when its statement is complete ---------------------------

def deprecated_handling(c, chk, model):
    chk.rule('R1.7', 'before the parser forgets the option it just completed (next name, closing brace, end of input) it has tested it for CFGF_DEPRECATED')
    n = 0
    bad = None
    need_callee_test = False
    for tokname, tok in sorted(pm.TOKENS.items()):
        if tokname == 'ERR':
            continue
        try:
            trs = model.transitions(0, tok)
        except sym.AnalysisIncomplete:
            continue
        for tr in trs:
            if tr.kind not in ('next', 'ret') or (tr.kind == 'ret' and tr.ret == 1):
                continue          # a failed parse: what was read is discarded anyway
            n += 1
            tested = any(sym.mentions(cn, lambda v: v == ('p', 'opt')) for cn, t, _ in tr.assume)
            delegated = any(e.name == 'cfg_handle_deprecated' and ('p', 'opt') in e.args for e in tr.calls())
            if delegated and not tested:
                need_callee_test = True
            examined = tested or delegated
            kept = tr.kind == 'next' and tr.next_state == 0 and tr.next.get('opt') == ('p', 'opt')
            if not examined and not kept:
                bad = bad or (tokname, tr)
    if need_callee_test and not bad:
        # the parser hands every completed option to cfg_handle_deprecated() untested: then that function must do the
        # testing - nothing is reported or dropped unless the option is non-NULL and carries CFGF_DEPRECATED
        hd = c.need('cfg_handle_deprecated')
        exh = sym.Explorer(c.modules, max_visits=2, mod_sets=c.mod_sets)
        for p in exh.explore(hd):
            acts = [e for e in p.events if e.kind == 'call' and e.name in ('cfg_error', 'cfg_free_value')]
            if acts and not any(pm.describe_cond(cn) == 'opt->flags has DEPRECATED' and t for cn, t, _ in p.assume):
                chk.fail('R1.7', 'deprecated-untested', c.where(acts[0].ins), 'cfg_handle_deprecated() is called for every completed option but reports / drops without testing CFGF_DEPRECATED')
                return
    if bad:
        tokname, tr = bad
        chk.fail('R1.7', 'deprecated-unhandled:%s' % tokname, c.where(model.fn),
                 'in state 0, on token %s the parser %s without having looked at the option it completed last: a CFGF_DEPRECATED|CFGF_DROP option that is '
                 'followed by this token is neither reported nor dropped' % (tokname, tr.outcome()), witness=[tr.describe()] if hasattr(tr, 'describe') else None)
    else:
        chk.ok('R1.7', 'state 0: %d transitions' % n, 'each either tests the completed option (NULL / CFGF_DEPRECATED -> cfg_handle_deprecated) or keeps it pending', sample=True)
    chk.floor('R1.7 transitions out of state 0', n, 8)


def defaults_dropped_under_reset(c, chk, rid):
    """cfg_free_value() keeps the option's annotation only while CFGF_RESET is set (that is how "drop the defaults" differs
    from "drop everything"): where defaults are dropped because the bit is set, the call comes first and the bit is
    cleared afterwards"""
    if rid not in chk.rules:
        chk.rule(rid, 'defaults are dropped by cfg_free_value() while CFGF_RESET is still set (which preserves the annotation); the bit is cleared after the call')
    RESET = 64
    n = 0
    for fname in ('cfg_setopt', 'cfg_opt_getval'):
        fn = c.need(fname)
        ex = sym.Explorer(c.modules, max_visits=2, mod_sets=c.mod_sets, max_paths=60000)
        bad = None
        for p in ex.explore(fn):
            if p.end != 'ret':
                continue
            conds = [('' if t else '!') + pm.describe_cond(cn) for cn, t, _ in p.assume]
            if 'opt->flags has RESET' not in conds:
                continue
            free = [i for i, e in enumerate(p.events) if e.kind == 'call' and e.name == 'cfg_free_value' and e.args and e.args[0] == ('p', 'opt')]
            clr = [i for i, e in enumerate(p.events) if e.kind == 'store' and flag_store(e, RESET) == 'clear']
            if free and clr:
                n += 1
                if clr[0] < free[0]:
                    bad = bad or p
        if bad is not None:
            chk.fail(rid, 'reset-cleared-before-drop:%s' % fname, c.where(fn),
                     '%s() clears CFGF_RESET before it calls cfg_free_value() to drop the defaults: without the bit cfg_free_value() also releases the '
                     'option\'s annotation, which a later revert (cfg_opt_setmulti) cannot bring back' % fname)
        else:
            chk.ok(rid, fname, 'cfg_free_value(opt) runs with CFGF_RESET still set; the bit is cleared afterwards', sample=True)
    chk.floor('%s default-dropping paths' % rid, n, 2)


def depends_on(c, chk):
    """R1.8 / R1.9: the meaning of a text is built from how its tokens are decoded and how value tokens are converted:
    the decoding table (C03) and the conversion discipline (C04) are obligations of this property too"""
    from . import c03, c04
    chk.rule('R1.8', 'string, escape, substitution and comment decoding equals the reference table (the rules of C03)')
    chk.rule('R1.9', 'value tokens are converted exactly or refused (the rules of C04)')
    from . import c12
    chk.rule('R1.10', 'under the ignore-unknown flag the language has no undeclared names: such items are skipped, silently, whatever their shape (the rules of C12)')
    # R1.13: what a text means does not depend on where an earlier text left the scanner
    from . import c08 as _c08x
    chk.rule('R1.13', 'every scan begins in the initial start condition (rule R8.1 of C08): a text is not read as the continuation of an earlier text\'s comment or string')
    sub8 = report.SubCheck(chk, 'R1.13', 'C08', only=('R8.1',))
    _c08x.run(c, sub8)
    sub8.done('scanner start state')
    # R1.12: "unmentioned options keep their declared defaults": the defaults a context works with are those of the declaration
    from . import c16
    chk.rule('R1.12', 'the private copy of the schema carries every declared default and annotation over (NULL only where the declaration has NULL; rule R16.1 of C16)')
    sub16 = report.SubCheck(chk, 'R1.12', 'C16', only=('R16.1',))
    c16.run(c, sub16)
    sub16.done('schema copy')
    # R1.16: "a free-form key = value pair adds an option": the option the text adds is stored inside the table of its section,
    # where every lookup finds it (rule R2.11 of C02: the table has been given room for the entry on the same path)
    from . import c02 as _c02t
    _c02t.table_growth(c, _c08x.chk_proxy(chk, {'R2.11': 'R1.16'}), 'R2.11')
    # R1.15: what follows an include() line in the text is part of the text: the end of an included file (or of a default value
    # scanned while one is open) returns to the including source, it does not end the input (the include bookkeeping of C07 R7.6)
    from . import c07 as _c07x, c08 as _c08p
    chk.rule('R1.15', 'the end of an included file or of a default-value text leaves the include depth right: the rest of the including text is read (rule R7.6 of C07)')
    _c07x.include_rule(c, _c08p.chk_proxy(chk, {'R7.6': 'R1.15'}), sym.Explorer(c.modules, max_visits=2, mod_sets=c.mod_sets, max_paths=50000))
    # R1.14: a function call in the text means "this function, these arguments": the arguments of one call are not those of
    # the calls before it (rule R14.4 of C14: the buffer is emptied after every call)
    from . import c14 as _c14x
    chk.rule('R1.14', 'a function call receives exactly the arguments written between its parentheses (rule R14.4 of C14)')
    sub14 = report.SubCheck(chk, 'R1.14', 'C14', only=('R14.4',))
    _c14x.run(c, sub14)
    sub14.done('function arguments')
    for rid, mod, pid, label in (('R1.8', c03, 'C03', 'token decoding'), ('R1.9', c04, 'C04', 'value conversion'), ('R1.10', c12, 'C12', 'undeclared items')):
        sub = report.SubCheck(chk, rid, pid)
        mod.run(c, sub)
        sub.done(label)
