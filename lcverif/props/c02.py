"""C02 - no input text can corrupt memory, hang or kill the host process.

Decided clauses (see DESIGN.md section 2, C02): nothing is written to standard
output (R2.1), no reachable process terminator (R2.2), input-driven recursion
is bounded (R2.3), token values are never null (R2.4), scratch-buffer writes
are bounded (R2.5), every loop on the parse path makes progress (R2.6).
General memory safety is NOT decided.
"""
import json
import os
import subprocess
import tempfile

from .. import cfg as _cfg, sym, lexdfa, report
from ..ctx import PARSE_ENTRIES

EXPLANATION = (
    'Static analysis of the current /repo sources (no library code is executed): the scanner DFA is decoded from '
    'flex -Cf tables and every start condition is checked for reachability of the echo-to-stdout default rule; the '
    'LLVM IR of confuse.c and of the generated scanner is searched for writers to stdout/yyout and for call-graph '
    'paths from the parse entry points to exit/abort/assert, each of which must be discharged by a named allow-list '
    'entry; recursive call sites are checked for a schema- or constant-bound; every returning scanner action path '
    'must have assigned a provably non-null token value; the scratch-buffer writer is checked against its growth '
    'guard; every loop reachable from a parse must contain a progress step. Memory safety in general is not decided.')

TERMINATORS = ('exit', '_exit', '_Exit', 'abort', '__assert_fail', 'quick_exit')
STDOUT_WRITERS = ('printf', 'puts', 'putchar', 'vprintf', 'putchar_unlocked', 'puts_unlocked')
STREAM_WRITERS = {'fprintf': 0, 'vfprintf': 0, 'fputs': 1, 'fputc': 1, 'putc': 1, 'fwrite': 3, '_IO_putc': 1,
                  'fputs_unlocked': 1, 'fwrite_unlocked': 3}


def load_allow(name):
    p = os.path.join(report.VERIF, 'spec', name)
    with open(p) as fh:
        return json.load(fh)


def selftest_echo(chk):
    """positive example for the zero-expected rule R2.1a: a scanner with a hole"""
    src = os.path.join(report.VERIF, 'spec', 'selftest', 'echo.l')
    d = tempfile.mkdtemp(prefix='lcv-echo-')
    try:
        p = subprocess.run(['flex', '-Cf', '-8', '-Pcfg_yy', '-o', os.path.join(d, 'echo_full.c'), src],
                           stdout=subprocess.PIPE, stderr=subprocess.PIPE)
        p2 = subprocess.run(['flex', '-Pcfg_yy', '-o', os.path.join(d, 'echo.c'), src],
                            stdout=subprocess.PIPE, stderr=subprocess.PIPE)
        if p.returncode or p2.returncode:
            raise report.Broken('flex failed on the positive example echo.l')
        dfa = lexdfa.DFA(open(os.path.join(d, 'echo_full.c')).read(), open(os.path.join(d, 'echo.c')).read(),
                         open(src).read())
        hit = [sc for sc in dfa.sc if dfa.default_rule in dfa.firing_rules(sc)]
        if hit != ['hole']:
            raise report.Broken('default-rule detector did not flag exactly the hole of the positive example: %r' % hit)
        chk.ok('R2.1a', 'spec/selftest/echo.l', 'positive example: default rule reachable in <hole>, not in INITIAL', nontrivial=False)
    finally:
        for f in os.listdir(d):
            os.unlink(os.path.join(d, f))
        os.rmdir(d)


def stream_origin(fn, v, depth=0):
    """where a FILE* argument comes from: 'stdout', 'yyout', 'stderr', 'param', 'other'"""
    if v.kind == 'global':
        return v.name
    if v.kind != 'reg' or depth > 6:
        return 'other'
    d = fn.defs.get(v.name)
    if d is None:
        return 'param'
    if d.op == 'load':
        a = d.ops[0]
        if a.kind == 'global':
            return a.name
        return 'other'
    if d.op in ('bitcast',):
        return stream_origin(fn, d.ops[0], depth + 1)
    if d.op == 'phi':
        outs = set(stream_origin(fn, x, depth + 1) for x in d.ops)
        for bad in ('@stdout', '@cfg_yyout'):
            if bad in outs:
                return bad
        return outs.pop() if len(outs) == 1 else 'other'
    return 'other'


def run(c, chk):
    chk.explanation = EXPLANATION
    chk.rule('R2.1a', 'in every scanner start condition the flex default rule (echo to stdout) is unreachable')
    chk.rule('R2.1b', 'no instruction of either unit writes to stdout/yyout outside the (dead) default action')
    chk.rule('R2.2', 'every process terminator reachable from a parse entry point is a named, justified exception')
    chk.rule('R2.3', 'every recursion reachable from a parse is bounded by the schema/tree or by a constant')
    chk.rule('R2.4', 'every scanner action path that returns a token has assigned a provably non-null token value')
    chk.rule('R2.5', 'every write to the scratch buffer is inside the growth guard; growth allocates length+1')
    chk.rule('R2.6', 'every loop reachable from a parse consumes a token or advances an induction variable')
    chk.trusted = ['flex 2.6.4 (tables of -Cf -8 describe the same automaton as the build tables)',
                   'clang 14 -O0 + opt mem2reg (IR faithfully represents the source)',
                   'spec/terminators.allow.json, spec/recursion.allow.json (reasons reviewed by hand)']
    chk.assumptions = ['one build configuration (this config.h)', 'user callbacks do not terminate the process',
                       'general memory safety (bounds, lifetime) is not decided by this check']
    # (R2.2 comes first: it needs the call graph only, not the scanner automaton)
    # ---- R2.2 ----------------------------------------------------------------
    allow = load_allow('terminators.allow.json')
    cg = c.callgraph
    # indirect calls: the scanner has none; confuse.c calls user callbacks (opaque)
    reach = _cfg.transitive(cg, PARSE_ENTRIES)
    nterm = 0
    for f in c.all_funcs():
        if f.name not in reach:
            continue
        for call in f.calls():
            n = call.callee_name()
            if n not in TERMINATORS:
                continue
            nterm += 1
            msg = c.string_arg(call, 0) if n == '__assert_fail' else None
            # yy_fatal_error(msg) sites are more informative than the exit inside it
            entry = None
            for a in allow:
                if a['function'] in c.owners(f.name) and a['callee'] == n and (a.get('message') in (None, msg)):
                    entry = a
                    break
            if f.name == 'yy_fatal_error':
                continue     # judged per caller below
            chain = _cfg.find_path(cg, next((e for e in PARSE_ENTRIES if f.name in _cfg.transitive(cg, [e])), PARSE_ENTRIES[0]), f.name)
            if entry:
                chk.ok('R2.2', '%s -> %s(%s)' % (f.name, n, msg or ''), 'allowed: ' + entry['reason'])
            else:
                chk.fail('R2.2', '%s:%s:%s' % (f.name, n, msg or ''), c.where(call),
                         '%s() can terminate the process via %s(%s) during a parse' % (f.name, n, msg or ''),
                         witness=['call chain: ' + ' -> '.join(chain or [f.name]) + ' -> ' + n])
    if 'yy_fatal_error' in c.lexer.funcs:
        ffe = c.lexer.funcs['yy_fatal_error']
        if any(x.callee_name() in TERMINATORS for x in ffe.calls()):
            for f in c.lexer.funcs.values():
                if f.name not in reach:
                    continue
                for call in f.calls('yy_fatal_error'):
                    nterm += 1
                    msg = c.string_arg(call, 0)
                    entry = None
                    for a in allow:
                        if a['callee'] == 'yy_fatal_error' and a['function'] == f.name and a.get('message') == msg:
                            entry = a
                            break
                    chain = _cfg.find_path(cg, 'cfg_parse_fp', f.name)
                    if entry:
                        chk.ok('R2.2', '%s -> yy_fatal_error(%r)' % (f.name, msg), 'allowed: ' + entry['reason'])
                    else:
                        chk.fail('R2.2', '%s:yy_fatal_error:%s' % (f.name, msg), c.where(call),
                                 'scanner function %s() exits the process with %r' % (f.name, msg),
                                 witness=['call chain: ' + ' -> '.join(chain or [f.name]) + ' -> yy_fatal_error -> exit'])
    chk.floor('R2.2 reachable terminator sites', nterm, 5)

    lex = c.lex
    dfa = lex.dfa
    chk.analysed = {'units': 2, 'functions': len(c.confuse.funcs) + len(c.lexer.funcs), 'dfa_states': dfa.nstates,
                    'lexer_rules': dfa.num_rules}

    # ---- R2.1a ---------------------------------------------------------------
    selftest_echo(chk)
    for scname in sorted(dfa.sc, key=lambda n: dfa.sc[n]):
        fr = dfa.firing_rules(scname)
        nstates = len(dfa.reachable(scname))
        if dfa.default_rule in fr:
            w = fr[dfa.default_rule]
            chk.fail('R2.1a', 'default-rule:%s' % scname, 'src/lexer.l:<%s>' % scname,
                     'start condition <%s> has no rule for input %r: flex echoes it to stdout' % (scname, w),
                     witness=['shortest input reaching the default rule in <%s>: %r' % (scname, w),
                              'rules that can fire here: %s' % sorted(r for r in fr if r != dfa.default_rule)])
        else:
            chk.ok('R2.1a', '<%s>' % scname, '%d DFA states reachable, %d rules can fire, default rule unreachable'
                   % (nstates, len(fr)), sample=True)

    # ---- R2.1b ---------------------------------------------------------------
    default_blocks = set()
    fn = lex.fn
    lbl = lex.case_block.get(dfa.default_rule)
    if lbl:
        default_blocks = _cfg.reachable(fn, lbl, avoid=set(lex.stop) | {lex.switch.block.label})
    nsites = 0
    for f in c.all_funcs():
        for call in f.calls():
            n = call.callee_name()
            if n in STDOUT_WRITERS:
                nsites += 1
                chk.fail('R2.1b', '%s:%s' % (f.name, n), c.where(call), '%s() calls %s(), which writes to standard output' % (f.name, n))
            elif n in STREAM_WRITERS:
                nsites += 1
                k = STREAM_WRITERS[n]
                org = stream_origin(f, call.args[k]) if k < len(call.args) else 'other'
                if org in ('@stdout', '@cfg_yyout'):
                    if f is fn and call.block.label in default_blocks:
                        chk.ok('R2.1b', '%s:%s' % (c.where(call), n), 'the flex default action itself (dead by R2.1a)', nontrivial=False)
                    else:
                        chk.fail('R2.1b', '%s:%s:%s' % (f.name, n, org), c.where(call),
                                 '%s() writes to %s through %s()' % (f.name, org[1:], n))
                else:
                    chk.ok('R2.1b', '%s:%s' % (c.where(call), n), 'stream is %s' % org.lstrip('@'))
    chk.floor('R2.1b stream-writer call sites', nsites, 12)

    # ---- R2.3 ----------------------------------------------------------------
    rallow = load_allow('recursion.allow.json')
    nrec = 0
    sites = []
    for f in c.all_funcs():
        if f.name not in reach:
            continue
        if f.name not in _cfg.transitive(cg, cg.get(f.name, ())):
            continue
        for call in f.calls():
            n = call.callee_name()
            if n is None or n not in reach or c.func(n) is None:
                continue
            if f.name not in _cfg.transitive(cg, [n]):
                continue
            nrec += 1
            verdict = recursion_bound(c, f, call, n)
            if not verdict:
                entry = next((a for a in rallow if a['caller'] == f.name and a['callee'] == n), None)
                if entry:
                    verdict = 'allowed: ' + entry['reason']
            sites.append((f, call, n, verdict))
    # a cycle is harmless when at least one of its edges strictly descends a finite
    # structure: drop the bounded edges and look for cycles among the rest
    g2 = {}
    for f, call, n, verdict in sites:
        if not verdict:
            g2.setdefault(f.name, set()).add(n)
    for f, call, n, verdict in sites:
        site = '%s -> %s' % (f.name, n)
        if verdict:
            chk.ok('R2.3', '%s @%s' % (site, c.where(call)), verdict, sample=(f.name == 'cfg_parse_internal'))
        elif f.name in _cfg.transitive(g2, [n]):
            cyc = _cfg.find_path(g2, n, f.name) or [n, f.name]
            key = '%s->%s:%s' % (f.name, n, rec_signature(c, f, call))
            chk.fail('R2.3', key, c.where(call),
                     '%s() re-enters %s() on input-controlled nesting: no edge of the cycle %s descends a finite '
                     'structure (schema, tree, list) or tests a constant depth bound' % (f.name, n, ' -> '.join([f.name] + cyc)),
                     witness=['arguments at this site: ' + rec_signature(c, f, call)])
        else:
            chk.ok('R2.3', '%s @%s' % (site, c.where(call)),
                   'every cycle through this call also passes a bounded edge (strictly smaller schema/tree/list)')
    chk.floor('R2.3 recursive call sites on the parse path', nrec, 8)

    # ---- R2.4 ----------------------------------------------------------------
    nret = 0
    tw = lex.mod.funcs.get('trim_whitespace')
    for r in sorted(lex.actions):
        if r == dfa.default_rule:
            continue
        for ap in lex.actions[r]:
            if not ap.returns:
                continue
            rv = ap.retval
            if sym.is_const(rv) and rv[1] in (0, -1):
                continue
            nret += 1
            why = yylval_nonnull(ap, lex)
            site = lex.rule_name(r)
            if why[0]:
                chk.ok('R2.4', '%s: %s' % (site, ap.describe()[-60:]), why[1], sample=(nret % 7 == 0))
            else:
                chk.fail('R2.4', 'null-token:%s' % dfa.rule_text.get(r, r), 'src/lexer.l:%d' % dfa.rule_line.get(r, 0),
                         'action of %s can return token %s with a null value: %s' % (site, sym.render(rv), why[1]),
                         witness=['path: ' + ap.describe()])
    chk.floor('R2.4 token-returning action paths', nret, 12)
    # parser side: cfg_yylval is only used as a string under tok in {STR, COMMENT, punctuation}
    # (all of which R2.4 covers); EOF and 0 are tested before the state switch.
    parser_tok_guard(c, chk)

    # ---- R2.5 ----------------------------------------------------------------
    qputc_guard(c, chk)

    # ---- R2.6 ----------------------------------------------------------------
    loop_progress(c, chk, reach)
    reader_loops(c, chk)
    table_growth(c, chk, 'R2.11')
    if not isinstance(chk, report.SubCheck):
        from . import c13 as _c13
        from . import c11 as _c11
        chk.rule('R2.13', 'the name lookup the parser calls never goes on from a path step that did not resolve (rule R11.7 of C11): a NULL section is not dereferenced under any flag')
        sub = report.SubCheck(chk, 'R2.13', 'C11', only=('R11.7',))
        _c11.run(c, sub)
        sub.done('path steps')
        chk.rule('R2.12', 'every write into the include stack is preceded by the depth test (rule R13.2 of C13)')
        sub = report.SubCheck(chk, 'R2.12', 'C13', only=('R13.2',))
        _c13.run(c, sub)
        sub.done('include stack bound')
        # R2.18: no source - the empty one included - makes the scanner spin: its buffers have a positive size (rule R13.16 of C13)
        _c13.buffer_sizes(c, chk, rid='R2.18')
    local_arrays_in_bounds(c, chk)
    moves_within_strings(c, chk)
    slot_width(c, chk)
    # R2.14: a 7-bit scanner indexes past its table rows for every byte >= 0x80 (the rule of C03 R3.8)
    from . import c03 as _c03
    _c03.byte_table_width(c, chk, rid='R2.14')
    # R2.15: a cached pointer into a reallocatable option table is read after the table moved (use after free driven by the input)
    from . import c07 as _c07t
    _c07t.table_pointers_not_kept(c, chk, rid='R2.15')
    if not isinstance(chk, report.SubCheck):
        # R2.16: a text that ends inside a comment or string must not leave the scanner there: the next text - the default of a
        # list option inside cfg_init() included - would be swallowed (and cfg_init() aborts on an unparsable default)
        from . import c08 as _c08s, c17 as _c17s
        chk.rule('R2.16', 'every scan begins in the initial start condition (rule R8.1 of C08)')
        sub8 = report.SubCheck(chk, 'R2.16', 'C08', only=('R8.1',))
        _c08s.run(c, sub8)
        sub8.done('scanner start state')
        chk.rule('R2.17', 'file-name buffers are sized for what is copied into them and terminated inside their bounds (rules R17.4, R17.5, R17.7 of C17): a long ~user name or directory cannot overrun one')
        sub17 = report.SubCheck(chk, 'R2.17', 'C17', only=('R17.4', 'R17.5', 'R17.7'))
        _c17s.run(c, sub17)
        sub17.done('file-name buffers')

    # ---- R2.7: the parse loop never releases the same object twice / keeps a released one ----
    chk.rule('R2.7', 'the parser loop never keeps a pointer it has released for a later iteration (no double free / use after free on input)')
    from . import c07, c08

    class OnlyDangling(c08.chk_proxy):
        def fail(self, rule, key, *a, **kw):
            if rule == 'R7.2':
                return self._chk.fail('R2.7', key, *a, **kw)
            return None            # leaks are C07's business, not memory corruption

        def ok(self, rule, *a, **kw):
            return self._chk.ok('R2.7', *a, **kw)

        def floor(self, *a, **kw):
            return None
    c07.parser_ownership(c, OnlyDangling(chk, {}))
    chk.rule('R2.8', 'replacing or removing a section never releases the search path it only borrows from the root (use after free on the next include)')
    ex28 = sym.Explorer(c.modules, max_visits=2, mod_sets=c.mod_sets, max_paths=200000)
    c07.searchpath_rule(c, c08.chk_proxy(chk, {'R7.3': 'R2.8'}), ex28)


# ----------------------------------------------------------------------------


def rec_signature(c, f, call):
    out = []
    callee = c.func(call.callee_name())
    for i, a in enumerate(call.args):
        pn = callee.param_names.get(callee.params[i].name, str(i)) if callee and i < len(callee.params) else str(i)
        out.append('%s=%s' % (pn, describe_arg(f, a)))
    return ', '.join(out)


def describe_arg(f, a, depth=0):
    if a.kind == 'int':
        return str(a.ival)
    if a.kind == 'null':
        return 'NULL'
    if a.kind != 'reg':
        return a.kind
    if a.name in f.param_names:
        return f.param_names[a.name]
    d = f.defs.get(a.name)
    if d is None:
        return a.name
    if d.op in ('add', 'sub') and depth < 3:
        return '%s%s%s' % (describe_arg(f, d.ops[0], depth + 1), '+' if d.op == 'add' else '-', describe_arg(f, d.ops[1], depth + 1))
    if d.op == 'load' and depth < 4:
        return '*' + describe_arg(f, d.ops[0], depth + 1)
    if d.op == 'getelementptr' and depth < 4:
        sty = d.srcty.strip()
        if sty.startswith('%struct.') and len(d.ops) >= 3 and d.ops[2].kind == 'int':
            return '&%s->%s' % (describe_arg(f, d.ops[0], depth + 1), f.module.field_name(sty, d.ops[2].ival))
        return '&%s[..]' % describe_arg(f, d.ops[0], depth + 1)
    if d.op == 'bitcast' and depth < 4:
        return describe_arg(f, d.ops[0], depth + 1)
    if d.op == 'call':
        return '%s()' % (d.callee_name() or 'indirect')
    if d.op == 'phi':
        return f.var_names.get(a.name, 'phi')
    return d.op


def recursion_bound(c, f, call, callee_name):
    """why this recursive call site is bounded, or None.

    accepted shapes, all read off the IR:
      (a) the context/structure argument is strictly 'smaller': it is loaded from a
          field of the caller's own argument (->next, ->section, ->subopts, values[i]->section)
          or is the result of cfg_setopt() (a freshly created section whose schema is a
          strict sub-tree of the caller's schema);
      (b) a depth parameter is compared against a constant and the comparison's
          failing arm does not reach the call.
    """
    callee = c.func(callee_name)
    if callee is None:
        return None
    if callee is not f:
        # mutual recursion: judge the structural argument of this call the same way
        pass
    for i, a in enumerate(call.args):
        if i >= len(callee.params):
            break
        ty = callee.params[i].ty
        if not ty.endswith('*') or ty == 'i8*':
            continue
        org = pointer_origin(f, a)
        if org and org[0] == 'field-of-param':
            return 'bounded by the data structure: argument %d is %s of the caller\'s own argument' % (i, org[1])
        if org and org[0] == 'call' and org[1] in ('cfg_setopt',):
            return 'bounded by the schema: argument %d is the section freshly created by %s() from opt->subopts' % (i, org[1])
        if org and org[0] == 'call' and org[1] in ('cfg_opt_getnsec', 'cfg_opt_gettsec', 'cfg_getnsec', 'cfg_gettsec', 'cfg_getsec'):
            return 'bounded by the tree: argument %d is a section one level below, as returned by %s()' % (i, org[1])
        if org and org[0] in ('param',):
            continue   # the same object passed on (a context record, the root): another argument may descend
        if org and org[0] == 'field-of-call' and org[2] in ('cfg_setopt', 'cfg_addval', 'cfg_opt_getval'):
            return 'bounded by the schema: argument %d is ->%s of the value created by %s()' % (i, org[1], org[2])
        if org and org[0] == 'field-of-call' and org[2] in c.unknown_funcs and c.func(org[2]) is not None and \
                not any(not x.is_dbg() for x in c.func(org[2]).calls()):
            # a call-free accessor split off the caller: what it returns is reached from its argument
            return 'bounded by the data structure: argument %d is ->%s of what the accessor %s() reads from the caller\'s own argument' % (i, org[1], org[2])
    # (b) depth guard
    for i, a in enumerate(call.args):
        if a.kind != 'reg':
            continue
        d = f.defs.get(a.name)
        if d is not None and d.op == 'add' and d.ops[0].kind == 'reg' and d.ops[0].name in f.param_names \
                and d.ops[1].kind == 'int' and d.ops[1].ival > 0:
            p = d.ops[0].name
            for ins in f.instrs():
                if ins.op == 'icmp' and ins.pred in ('sgt', 'sge', 'slt', 'sle', 'ugt', 'uge', 'ult', 'ule'):
                    names = [o.name for o in ins.ops if o.kind == 'reg']
                    consts = [o.ival for o in ins.ops if o.kind == 'int']
                    if p in names and consts and consts[0] > 0:
                        # the compare must dominate the call and one arm must avoid it
                        br = next((x for x in ins.block.instrs if x.op == 'br' and x.ops and x.ops[0].kind == 'reg'
                                   and x.ops[0].name == ins.res), None)
                        if br is None or not _cfg.instr_dominates(f, ins, call):
                            continue
                        for t in br.targets:
                            if call.block.label not in _cfg.reachable(f, t, avoid=loop_headers(f)):
                                return 'bounded by a constant: %s is compared with %d before the call and the ' \
                                       'failing arm does not reach it' % (f.param_names[p], consts[0])
    return None


def loop_headers(f):
    return set(_cfg.natural_loops(f).keys())


def pointer_origin(f, v, depth=0):
    if v.kind != 'reg' or depth > 8:
        return None
    if v.name in f.param_names and v.name not in f.defs:
        return ('param', f.param_names[v.name])
    d = f.defs.get(v.name)
    if d is None:
        return ('param', v.name)
    if d.op == 'bitcast':
        return pointer_origin(f, d.ops[0], depth + 1)
    if d.op == 'call':
        return ('call', d.callee_name() or 'indirect')
    if d.op == 'phi':
        # loop-carried / merged pointer: any incoming that is not derived from a field is decisive
        outs = [pointer_origin(f, x, depth + 1) for x in d.ops if not (x.kind == 'reg' and x.name == v.name)]
        outs = [o for o in outs if o]
        kinds = set(o[0] for o in outs)
        if kinds == {'field-of-param'}:
            return outs[0]
        if 'param' in kinds:
            return ('param', 'phi')
        return outs[0] if outs else None
    if d.op == 'load':
        a = d.ops[0]
        path = []
        cur = a
        for _ in range(10):
            if cur.kind != 'reg':
                break
            dd = f.defs.get(cur.name)
            if dd is None:
                return ('field-of-param', '->'.join(reversed(path)) or '*') if path else ('param', cur.name)
            if dd.op == 'getelementptr':
                sty = dd.srcty.strip()
                if sty.startswith('%struct.') and len(dd.ops) >= 3 and dd.ops[2].kind == 'int':
                    path.append(f.module.field_name(sty, dd.ops[2].ival))
                else:
                    path.append('[]')
                cur = dd.ops[0]
            elif dd.op == 'bitcast':
                if dd.ops[0].ty.startswith('%union.'):
                    path.append(sym.UNION_VIEW.get(dd.toty, 'value'))
                cur = dd.ops[0]
            elif dd.op == 'load':
                cur = dd.ops[0]
            elif dd.op == 'call':
                return ('field-of-call', '->'.join(reversed(path)), dd.callee_name() or 'indirect')
            elif dd.op == 'phi':
                o = pointer_origin(f, cur, depth + 1)
                if o and o[0] in ('param', 'field-of-param'):
                    return ('field-of-param', '->'.join(reversed(path)))
                if o and o[0] == 'call':
                    return ('field-of-call', '->'.join(reversed(path)), o[1])
                if o and o[0] == 'field-of-call':
                    return ('field-of-call', '->'.join(reversed(path)), o[2])
                return None
            else:
                return None
        return None
    if d.op == 'getelementptr':
        o = pointer_origin(f, d.ops[0], depth + 1)
        if o and o[0] == 'param':
            # address inside the caller's own argument (e.g. &cfg->opts[i]) - same object family
            sty = d.srcty.strip()
            return ('param', o[1])
        return o
    return None


def yylval_nonnull(ap, lex):
    """(bool, reason) - is the value last stored to cfg_yylval on this path provably non-null"""
    y = ap.of('yylval')
    if not y:
        return (False, 'no assignment to cfg_yylval on this path')
    v = y[-1][1]
    upto = ap.effects.index(y[-1])
    return nonnull_value(v, ap, upto, lex)


def nonnull_value(v, ap, upto, lex, depth=0):
    k = v[0]
    if k in ('str', 'g', 'alloca'):
        return (True, 'address of a constant/global')
    if k == 'idx':
        return nonnull_value(v[1], ap, upto, lex, depth + 1)
    if k == 'bin' and v[1] == 'add':
        return nonnull_value(v[2], ap, upto, lex, depth + 1)
    if k == 'c':
        return (v[1] != 0, 'constant %d' % v[1])
    if k == 'ld':
        a = v[1]
        if a == ('g', '@cfg_yytext'):
            return (True, 'yytext (set by the scanner before every action)')
        if a == ('g', '@cfg_qstring'):
            # non-null iff qputc() was certainly called on this path after the last release
            seen = False
            for x in ap.effects[:upto]:
                if x[0] == 'qputc':
                    seen = True
                if x[0] == 'call' and x[1] == 'cfg_scan_fp_end':
                    seen = False
                if x[0] == 'qvar' and x[1] == '@cfg_qstring' and x[2] == sym.C0:
                    seen = False
            if seen:
                return (True, 'scratch buffer after a must-call of qputc() on this path (qputc asserts its allocation)')
            return (False, 'scratch buffer cfg_qstring may still be NULL: no qputc() call on this path')
        return (False, 'loaded from %s' % sym.render(a))
    if k == 'call':
        name = v[1]
        if name == 'trim_whitespace':
            ev = next((x for x in ap.effects if x[0] == 'call' and x[1] == 'trim_whitespace' and x[3].res == v), None)
            if ev is None:
                return (False, 'trim_whitespace() of unknown argument')
            ok = trim_preserves_nonnull(lex)
            if not ok:
                return (False, 'trim_whitespace() may return NULL for a non-null argument')
            r = nonnull_value(ev[2][0], ap, ap.effects.index(ev), lex, depth + 1)
            return (r[0], 'trim_whitespace(x) is x + k for non-null x; x: ' + r[1])
        if name == 'getenv':
            # non-null only if this path assumed so
            for cnd, truth, ins in ap.path.assume:
                if cnd[0] == 'icmp' and v in (cnd[2], cnd[3]) and sym.C0 in (cnd[2], cnd[3]):
                    if (cnd[1] == 'ne') == truth:
                        return (True, 'getenv() result on the branch where it was tested non-null')
            return (False, 'getenv() result not tested against NULL on this path')
        if name == 'strchr':
            for cnd, truth, ins in ap.path.assume:
                if cnd[0] == 'icmp' and v in (cnd[2], cnd[3]) and sym.C0 in (cnd[2], cnd[3]):
                    if (cnd[1] == 'ne') == truth:
                        return (True, 'strchr() result on the branch where it was tested non-null')
            return (False, 'strchr() result not tested')
        return (False, 'result of %s()' % name)
    if k == 'sel':
        a = nonnull_value(v[2], ap, upto, lex, depth + 1)
        b = nonnull_value(v[3], ap, upto, lex, depth + 1)
        return (a[0] and b[0], 'select(%s | %s)' % (a[1], b[1]))
    return (False, 'value of unknown origin: %s' % sym.render(v))


def trim_preserves_nonnull(lex):
    fn = lex.mod.funcs.get('trim_whitespace')
    if fn is None:
        return False
    ex = sym.Explorer([lex.mod], max_visits=2, mod_sets=lex.mod_sets)
    arg = ('p', fn.param_names.get(fn.params[0].name, fn.params[0].name))
    paths = ex.explore(fn, neq={arg: {0}})
    for p in paths:
        if p.end != 'ret':
            continue
        v = p.retval
        base = v
        while base[0] in ('idx', 'bin'):
            base = base[1] if base[0] == 'idx' else base[2]
        if base != arg:
            return False
    return True


def parser_tok_guard(c, chk):
    """the parser looks at cfg_yylval only for tokens whose scanner action sets it: for the error token (0) and for
    end of input nothing that the parser does may depend on it"""
    from .. import parsermodel as pm
    model = pm.ParserModel(c)
    YL = ('g', '@cfg_yylval')

    def reads(v):
        return isinstance(v, tuple) and sym.mentions(v, lambda x: x[0] == 'ld' and x[1] == YL)
    n = 0
    bad = None
    for tok in (pm.TOKENS['ERR'], pm.TOKENS['EOF']):
        for s_ in model.states:
            try:
                trs = model.transitions(s_, tok)
            except sym.AnalysisIncomplete:
                continue
            for tr in trs:
                n += 1
                for e in tr.events:
                    vals = list(e.args or []) if e.kind == 'call' else [e.val, e.addr] if e.kind == 'store' else [e.val] if e.kind == 'ret' else []
                    if any(reads(v) for v in vals if v is not None):
                        bad = bad or (tr, e)
                for cn, t, _ in tr.assume:
                    if reads(cn):
                        bad = bad or (tr, None)
    if bad:
        tr, e = bad
        chk.fail('R2.4', 'parser-reads-yylval-unguarded', c.where(e.ins) if e is not None else c.where(model.fn),
                 'cfg_parse_internal uses cfg_yylval in state %d although the token is %s, for which the scanner does not set it (stale or NULL pointer)'
                 % (tr.state, pm.TOKNAME.get(tr.tok, tr.tok)))
    else:
        chk.ok('R2.4', 'cfg_parse_internal: %d transitions on the error token / end of input' % n,
               'none passes cfg_yylval to a call, stores it or branches on it: only tokens whose action sets it reach its uses')
    chk.floor('R2.4 transitions on tokens without a value', n, 20)


def qputc_guard(c, chk):
    fn = c.lexer.funcs.get('qputc')
    if fn is None:
        raise report.Broken('qputc() not found')
    lex = c.lex
    ex = sym.Explorer([c.lexer], max_visits=2, mod_sets=lex.mod_sets)
    paths = [p for p in ex.explore(fn) if p.end == 'ret']
    IDX = ('g', '@qstring_index')
    LEN = ('g', '@qstring_len')
    BUF = ('g', '@cfg_qstring')
    nchecked = 0
    for p in paths:
        bufvals = [e.val for e in p.events if e.kind == 'store' and e.addr == BUF]
        wr = [e for e in p.events if e.kind == 'store' and e.addr[0] == 'idx'
              and ((e.addr[1][0] == 'ld' and e.addr[1][1] == BUF) or e.addr[1] in bufvals)]
        grow = [e for e in p.events if e.kind == 'call' and e.name in ('realloc', 'reallocarray', 'malloc', 'calloc')]
        # guard polarity on this path
        guard = None
        for cnd, truth, ins in p.assume:
            if cnd[0] == 'icmp' and cnd[2][0] == 'ld' and cnd[2][1] == IDX and cnd[3][0] == 'ld' and cnd[3][1] == LEN:
                guard = (cnd[1], truth)
        for w in wr:
            nchecked += 1
            ix = w.addr[2]
            if not (ix[0] == 'ld' and ix[1] == IDX):
                chk.fail('R2.5', 'qputc:index', c.where(w.ins), 'qputc() writes the scratch buffer at %s, not at qstring_index' % sym.render(ix))
                continue
            if grow:
                # growth path: new length L' = L + K (K > 0) stored to qstring_len, allocation of L' + 1
                ln = [e for e in p.events if e.kind == 'store' and e.addr == LEN]
                g = grow[0]
                size = g.args[1] if g.name == 'realloc' else None
                okk = False
                if ln and size is not None:
                    newlen = ln[-1].val
                    if newlen[0] == 'bin' and newlen[1] == 'add' and newlen[2][0] == 'ld' and newlen[2][1] == LEN \
                            and sym.is_const(newlen[3]) and newlen[3][1] > 0:
                        K = newlen[3][1]
                        if size == ('bin', 'add', newlen[2], ('c', K + 1)) or size == ('bin', 'add', newlen, ('c', 1)):
                            okk = True
                        # memset must stay inside: offset idx, length <= K + 1 (idx <= old len on this path)
                        ms = [e for e in p.events if e.kind == 'call' and e.name.startswith('llvm.memset')]
                        for m_ in ms:
                            n = m_.args[2]
                            if not (sym.is_const(n) and n[1] <= K + 1):
                                okk = False
                if guard not in (('uge', True), ('ult', False)):
                    # idx >= len must hold on the growth path so that idx <= new len
                    okk = okk and guard in (('ugt', True), ('ule', False), ('eq', True))
                if okk:
                    chk.ok('R2.5', 'qputc: growth path', 'qstring_len += K, realloc(len+1), memset within K+1, write at qstring_index', sample=True)
                else:
                    chk.fail('R2.5', 'qputc:growth', c.where(g.ins), 'qputc() growth path does not allocate qstring_len+1 bytes '
                             '(or clears beyond it) before writing at qstring_index',
                             witness=[repr(e) for e in p.events])
            else:
                if guard in (('uge', False), ('ult', True)):
                    chk.ok('R2.5', 'qputc: in-place path', 'write at qstring_index only when qstring_index < qstring_len (allocation is len+1)', sample=True)
                else:
                    chk.fail('R2.5', 'qputc:guard', c.where(w.ins),
                             'qputc() writes at qstring_index without having established qstring_index < qstring_len (guard seen: %r)' % (guard,),
                             witness=[repr(e) for e in p.events])
    chk.floor('R2.5 qputc write paths', nchecked, 2)
    # no other function stores through cfg_qstring except trim_whitespace's terminator
    others = []
    for f in c.lexer.funcs.values():
        if f.name in ('qputc',):
            continue
        for ins in f.instrs():
            if ins.op == 'store':
                from ..summaries import store_key
                if store_key(f, ins) == '@cfg_qstring[]':
                    others.append((f, ins))
    for f, ins in others:
        chk.fail('R2.5', 'rawwrite:%s' % f.name, c.where(ins), '%s() writes into the scratch buffer directly, bypassing qputc()\'s growth guard' % f.name)
    if not others:
        chk.ok('R2.5', 'scanner unit: writers of cfg_qstring[]', 'qputc() is the only function that stores through cfg_qstring')
    # trim_whitespace writes str[len] with len <= its argument; callers pass qstring_index
    tw = c.lexer.funcs.get('trim_whitespace')
    if tw is not None:
        okk = True
        for call in [x for f in c.lexer.funcs.values() for x in f.calls('trim_whitespace')]:
            a = call.args[1]
            d = call.func.defs.get(a.name) if a.kind == 'reg' else None
            # (unsigned)qstring_index
            src = d
            while src is not None and src.op in ('trunc', 'zext', 'sext'):
                src = call.func.defs.get(src.ops[0].name) if src.ops[0].kind == 'reg' else None
            base_ok = False
            if src is not None and src.op == 'load' and src.ops[0].kind == 'global' and src.ops[0].name == '@qstring_index':
                base_ok = True
            if src is not None and src.op in ('add', 'sub') and src.ops[1].kind == 'int':
                s0 = call.func.defs.get(src.ops[0].name) if src.ops[0].kind == 'reg' else None
                k = src.ops[1].ival if src.op == 'add' else -src.ops[1].ival
                if s0 is not None and s0.op == 'load' and s0.ops[0].kind == 'global' and s0.ops[0].name == '@qstring_index' and k <= 0:
                    base_ok = True
            if not base_ok:
                okk = False
                chk.fail('R2.5', 'trim-len:%s' % call.func.name, c.where(call),
                         'trim_whitespace() is called with a length that is not qstring_index (or less): it writes str[len]')
        if okk:
            chk.ok('R2.5', 'trim_whitespace callers', 'length argument is qstring_index (<= qstring_len, allocation len+1)')


def loop_progress(c, chk, reach):
    """every natural loop of the hand-written code on the parse path has a progress step"""
    handwritten = set(c.confuse.funcs) | {'qputc', 'qput', 'qbeg', 'qend', 'qstr', 'trim_whitespace', 'cfg_lexer_include',
                                         'cfg_scan_fp_begin', 'cfg_scan_fp_end'}
    nloops = 0
    for f in c.all_funcs():
        if f.name not in reach or f.name not in handwritten:
            continue
        loops = _cfg.natural_loops(f)
        for h, body in sorted(loops.items()):
            nloops += 1
            why = loop_has_progress(c, f, h, body)
            site = '%s loop@%s' % (f.name, c.where(f, f.blocks[h].first_line()))
            if why:
                chk.ok('R2.6', site, why, sample=(nloops % 6 == 0))
            else:
                chk.fail('R2.6', 'loop:%s:%s' % (f.name, loop_signature(f, h, body)), c.where(f, f.blocks[h].first_line()),
                         'loop in %s() has no recognised progress step (token consumption, induction variable, list advance)' % f.name)
    chk.floor('R2.6 loops on the parse path', nloops, 14)


def reader_loops(c, chk):
    """R2.9: the scanner's reader asks the stream for more and may get nothing.  A loop around such a request repeats a
    request that brought no data only when the failure was a transient one (errno == EINTR observed in that iteration);
    any other reason (a stream that is a directory, a write-only stream, a closed descriptor) persists, and repeating
    the request on it never ends"""
    chk.rule('R2.9', 'a loop around fread() repeats a request that returned no data only after it has seen errno == EINTR in that iteration')
    EINTR = 4
    n = 0
    for f in c.lexer.funcs.values():
        loops = _cfg.natural_loops(f)
        for h, body in sorted(loops.items()):
            calls = [i for b in body for i in f.blocks[b].instrs if i.op == 'call' and i.callee_name() == 'fread']
            if not calls:
                continue
            ex = sym.Explorer(c.modules, max_visits=2, mod_sets=c.mod_sets, max_paths=20000, inline=set())
            bad = None
            for p in ex.explore(f, start=h, stop=[h]):
                if p.end != 'stop':
                    continue
                fr = [e for e in p.events if e.kind == 'call' and e.name == 'fread']
                if not fr:
                    continue
                res = fr[-1].res
                nodata = False
                for cn, t, _ in p.assume:
                    if cn[0] != 'icmp' or not sym.mentions(cn[2], lambda v: v == res) or not sym.is_const(cn[3]):
                        continue
                    k = cn[3][1]
                    if (cn[1], k, t) in (('eq', 0, True), ('ne', 0, False), ('ugt', 0, False), ('ule', 0, True), ('ult', 1, True), ('uge', 1, False),
                                         ('sgt', 0, False), ('sle', 0, True), ('slt', 1, True), ('sge', 1, False)):
                        nodata = True
                if not nodata:
                    continue
                n += 1
                transient = False
                for cn, t, _ in p.assume:
                    if cn[0] == 'icmp' and cn[1] in ('eq', 'ne') and sym.mentions(cn, lambda v: v[0] == 'ld' and v[1] == ('errno',)) \
                            and ('c', EINTR) in (cn[2], cn[3]) and ((cn[1] == 'eq') == t):
                        transient = True
                if not transient:
                    bad = bad or p
            if bad is not None:
                chk.fail('R2.9', 'reader-retry:%s' % f.name, c.where(calls[0]),
                         '%s() repeats an fread() that returned nothing without having seen errno == EINTR (%s): on a stream whose error persists '
                         '(a directory, a write-only stream) the scanner asks again forever and the parse never returns' % (f.name, fp_cond_text(bad)))
            else:
                chk.ok('R2.9', '%s loop@%s' % (f.name, c.where(f, f.blocks[h].first_line())), 'an empty read is retried only under errno == EINTR', sample=True)
    chk.floor('R2.9 retrying iterations of the reader', n, 1)


def slot_width(c, chk):
    """R2.10: the slot cfg_setopt() writes may be the application's own variable (a CFG_SIMPLE_* option): a cfg_bool_t of four
    bytes for a boolean option.  On the paths of a boolean option the slot is therefore written through the boolean member
    only - never as the whole eight-byte union (a structure copy or memcpy into the slot), which would overwrite what
    lies behind the application's variable"""
    from .. import parsermodel as pm
    chk.rule('R2.10', 'on the paths of a boolean option cfg_setopt() writes the value slot through its four-byte member only (the slot may be the application\'s own cfg_bool_t)')
    fn = c.need('cfg_setopt')
    ex = sym.Explorer(c.modules, max_visits=2, mod_sets=c.mod_sets, max_paths=100000)
    n = 0
    bad = None
    for p in ex.explore(fn):
        if p.end != 'ret' or p.retval is None or p.retval == sym.C0:
            continue
        types = set()
        for cn, t, _ in p.assume:
            d = pm.describe_cond(cn)
            neg = d.startswith('not(')
            if neg:
                d = d[4:-1]
            if '->type eq ' in d and (t != neg):
                types.add(d.split(' eq ')[1])
        if 'BOOL' not in types:
            continue
        n += 1
        slot = p.retval
        for e in p.events:
            if e.kind == 'call' and e.name in ('llvm.memcpy.p0i8.p0i8.i64', 'memcpy', 'llvm.memmove.p0i8.p0i8.i64', 'memmove', 'llvm.memset.p0i8.i64', 'memset') \
                    and e.args and e.args[0] == slot and not (sym.is_const(e.args[2]) and e.args[2][1] <= 4):
                bad = bad or (e, 'copies %s bytes into it' % sym.render(e.args[2]))
            if e.kind == 'store' and e.addr[0] == 'fld' and e.addr[1] == slot and e.addr[2] == 'cfg_value_t' and e.addr[3] not in ('boolean',):
                bad = bad or (e, 'writes its member "%s"' % e.addr[3])
            if e.kind == 'store' and e.addr == slot:
                bad = bad or (e, 'writes the whole slot')
    if bad is not None:
        e, what = bad
        chk.fail('R2.10', 'bool-slot-width', c.where(e.ins), 'cfg_setopt() %s on a path of a boolean option: for a CFG_SIMPLE_BOOL option the slot is the application\'s own '
                 'four-byte cfg_bool_t, and the bytes behind it are overwritten' % what)
    elif n:
        chk.ok('R2.10', 'cfg_setopt: %d successful paths of a boolean option' % n, 'the slot is written through the member "boolean" only', sample=True)
    chk.floor('R2.10 successful paths of a boolean option', n, 4)


def table_growth(c, chk, rid):
    """the option table of a free-form (key=value) context grows with the text: every write into an entry of the table on a
    path of cfg_addopt() lies inside what was (re)allocated ON THAT PATH - the table it starts from is the exactly-sized
    private copy of the schema, there is no spare room in it"""
    from .. import bufsize
    chk.rule(rid, 'cfg_addopt() writes only into entries of the option table that the reallocation on the same path has made room for')
    fn = c.need('cfg_addopt')
    ex = sym.Explorer(c.modules, max_visits=2, mod_sets=c.mod_sets, max_paths=20000)
    n = 0
    bad = None
    for p in ex.explore(fn):
        room = None
        for e in p.events:
            if e.kind == 'call' and e.name in ('reallocarray', 'calloc') and len(e.args) >= 2:
                room = bufsize.lin(e.args[-2])
            elif e.kind == 'call' and e.name == 'realloc' and len(e.args) == 2:
                v = e.args[1]
                room = None
                if v[0] == 'bin' and v[1] == 'mul':
                    k, o = (v[2], v[3]) if sym.is_const(v[2]) else (v[3], v[2])
                    if sym.is_const(k) and k[1] >= 64:
                        room = bufsize.lin(o)
            idxs = []
            if e.kind == 'store' and sym.object_of(e.addr)[0] != 'alloca':
                idxs = [e.addr]
            elif e.kind == 'call' and e.name in ('llvm.memset.p0i8.i64', 'memset', 'llvm.memcpy.p0i8.p0i8.i64', 'memcpy') and e.args:
                idxs = [e.args[0]]
            for a in idxs:
                x = a
                ent = None
                while x[0] in ('fld', 'idx'):
                    if x[0] == 'idx' and sym.mentions(x[1], lambda v: (v[0] == 'fld' and len(v) > 3 and v[3] == 'opts') or (v[0] == 'call' and v[1] in ('reallocarray', 'realloc'))):
                        ent = x
                    x = x[1]
                if ent is None:
                    continue
                n += 1
                need = bufsize.lin(ent[2])
                if room is None or need is None or not need.add(bufsize.Lin(1)).le(room):
                    bad = bad or (p, e, ent, room)
    if bad is not None:
        p, e, ent, room = bad
        chk.fail(rid, 'table-write-beyond-room', c.where(e.ins), 'cfg_addopt() writes entry %s of the option table on a path where %s (%s): the table a context starts with is the '
                 'exactly-sized copy of its schema, so the write lands behind the allocation'
                 % (sym.render(ent[2]), 'the table was not enlarged' if room is None else 'the reallocation made room for %r entries only' % room, fp_cond_text(p)))
    elif n:
        chk.ok(rid, 'cfg_addopt: %d writes into table entries' % n, 'each inside the room made by the reallocation on its path', sample=True)
    chk.floor('%s writes into table entries' % rid, n, 2)


def fp_cond_text(p):
    from .. import failpaths as fp
    return fp.cond_text(p, 4)


def must_call_before_return(g, callee, _depth=0):
    dom = _cfg.dominators(g)
    blocks = set(x.block.label for x in g.calls(callee))
    if _depth < 3:
        # a helper of the same unit that itself cannot return without making the call counts like the call
        for x in g.calls():
            n_ = x.callee_name()
            h_ = g.module.funcs.get(n_) if n_ else None
            if h_ is not None and h_ is not g and n_ != callee and must_call_before_return(h_, callee, _depth + 1):
                blocks.add(x.block.label)
    if not blocks:
        return False
    structural = True
    for e in _cfg.exit_blocks(g):
        if e not in dom:
            continue
        if not (dom[e] & blocks):
            structural = False
    if structural:
        return True
    # "rc = CONTINUE; while (rc == CONTINUE) { tok = yylex(); ... }": the first test of the loop condition is decided
    # by the initial value, which only a path-sensitive look sees
    try:
        ex = sym.Explorer([g.module], max_visits=2, max_paths=5000)
        n = 0
        # stop where the call is: only paths that get to a return WITHOUT having passed it are of interest
        for p in ex.explore(g, stop=sorted(blocks)):
            if p.end == 'ret':
                return False
            if p.end == 'stop':
                n += 1
        return n > 0
    except Exception:
        return False


def loop_signature(f, h, body):
    calls = sorted(set(i.callee_name() or 'indirect' for b in body for i in f.blocks[b].instrs if i.op == 'call' and not i.is_dbg()))
    return ','.join(calls)[:80]


def loop_has_progress(c, f, h, body):
    dom = _cfg.dominators(f)
    tails = [b for b in body if h in f.blocks[b].succs]
    # (1) a token is consumed on every cycle
    for b in body:
        for i in f.blocks[b].instrs:
            if i.op == 'call' and i.callee_name() == 'cfg_yylex':
                if all(b in dom[t] for t in tails):
                    return 'every cycle passes the cfg_yylex() call (the scanner consumes at least one byte per token)'
    # (1b) a call to a function that itself must consume a token before returning
    for b in body:
        for i in f.blocks[b].instrs:
            if i.op == 'call' and i.callee_name() and all(b in dom[t] for t in tails):
                g = c.func(i.callee_name())
                if g is not None and must_call_before_return(g, 'cfg_yylex'):
                    return 'every cycle calls %s(), which consumes a token on every path to its return' % g.name
    # (2) header phi advanced by a non-zero constant / pointer step on every back edge
    for ph in f.blocks[h].phis():
        good = True
        seen_back = False
        for v, l in ph.incoming:
            if l not in body:
                continue
            seen_back = True
            if not advances(f, v, ph.res, body, set()):
                good = False
        if good and seen_back:
            return 'induction: %s advances on every back edge' % f.var_names.get(ph.res, ph.res)
    # (3) memory induction (stored counter): a store of x+k to the slot loaded in the header condition
    for b in body:
        for i in f.blocks[b].instrs:
            if i.op == 'store' and i.ops[0].kind == 'reg':
                d = f.defs.get(i.ops[0].name)
                if d is not None and d.op in ('add', 'sub') and d.ops[1].kind == 'int' and d.ops[1].ival != 0:
                    if all(b in dom[t] for t in tails):
                        return 'stored counter advanced by a constant on every cycle'
    # (4) a cursor kept in a stack slot (its address is handed to a helper): on every explored path back to the
    #     header the slot holds its old value plus a non-empty sum of steps
    from .. import loops as _loops
    from .c11 import flatten
    slots = _loops.slot_vars(f)
    if slots:
        ex = sym.Explorer(c.modules, max_visits=2, mod_sets=c.mod_sets, max_paths=20000)
        try:
            paths = [p for p in _loops.iterate(ex, f, h) if p.end == 'stop']
        except sym.AnalysisIncomplete:
            paths = []
        for n in sorted(set(slots.values())):
            if paths and all((lambda t: t is not None and len(t) > 0 and any(not sym.is_const(x) or x[1] > 0 for x in t))(flatten(p.next.get(n, ('p', n)), ('p', n)))
                             for p in paths):
                return 'the cursor %s (kept in a stack slot) is advanced on all %d explored paths back to the loop head' % (n, len(paths))
    return None


def advances(f, v, phi, body, seen):
    """does value v equal phi advanced by a non-zero step (on all merges)"""
    if v.kind != 'reg' or v.name in seen:
        return False
    seen = seen | {v.name}
    d = f.defs.get(v.name)
    if d is None:
        return False
    if d.op in ('add', 'sub'):
        a, b = d.ops
        if a.kind == 'reg' and (a.name == phi or derives(f, a, phi)) and b.kind == 'int' and b.ival != 0:
            return True
        if a.kind == 'reg' and b.kind == 'reg' and (a.name == phi or derives(f, a, phi)):
            return True       # advanced by a run-time length (C11 checks it is non-zero where it matters)
        return False
    if d.op == 'getelementptr':
        a = d.ops[0]
        if a.kind == 'reg' and (a.name == phi or derives(f, a, phi)):
            idx = d.ops[-1]
            if idx.kind == 'int':
                return idx.ival != 0
            return True
        return False
    if d.op == 'phi':
        ins = [x for x in d.ops]
        return all((x.kind == 'reg' and x.name == phi and False) or advances(f, x, phi, body, seen) for x in ins)
    if d.op == 'load':
        # list advance: p = p->next
        a = d.ops[0]
        dd = f.defs.get(a.name) if a.kind == 'reg' else None
        if dd is not None and dd.op == 'getelementptr' and dd.ops[0].kind == 'reg' and dd.ops[0].name == phi:
            return True
        return False
    return False


def derives(f, a, phi, depth=0):
    if depth > 6 or a.kind != 'reg':
        return False
    if a.name == phi:
        return True
    d = f.defs.get(a.name)
    if d is None:
        return False
    if d.op in ('add', 'sub', 'getelementptr', 'bitcast', 'zext', 'sext', 'trunc'):
        return derives(f, d.ops[0], phi, depth + 1)
    if d.op == 'phi':
        return all(derives(f, x, phi, depth + 1) for x in d.ops)
    return False


LOCAL_WRITERS = {'memcpy': 2, 'memmove': 2, 'strncpy': 2, 'memset': 2, 'snprintf': 1, 'vsnprintf': 1, 'fgets': 1, 'strlcpy': 2,
                 'llvm.memcpy.p0i8.p0i8.i64': 2, 'llvm.memmove.p0i8.p0i8.i64': 2, 'llvm.memset.p0i8.i64': 2}
LOCAL_UNBOUNDED = ('strcpy', 'strcat', 'sprintf', 'vsprintf', 'gets')


def local_arrays_in_bounds(c, chk, rid='R2.19', only_funcs=None):
    """a local array of fixed size is written only inside its bounds: element stores at a constant position below the size
    or at a position the path has bounded; block writers (memcpy, snprintf, ...) with start + length <= size, where a
    length of the form "size - used - k" also needs used bounded (the subtraction is unsigned: it wraps)"""
    import re as _re
    from .. import bufsize as bs, failpaths as fp
    chk.rule(rid, 'every write into a local byte array of fixed size lies inside the array: position and length are constants that fit or were bounded on the path (a length "size - used" needs "used" bounded, it wraps otherwise)')
    ex = sym.Explorer(c.modules, max_visits=2, mod_sets=c.mod_sets, max_paths=30000)
    narr = nw = 0
    bad = None

    def size_of(base, f):
        reg = base[1].split('@')[0]
        fn_ = c.func(base[1].split('@')[1]) if '@' in base[1] else f
        d = fn_.defs.get(reg) if fn_ is not None else None
        m = _re.match(r'^\[(\d+) x i8\]$', (d.srcty or '').strip()) if d is not None and d.op == 'alloca' else None
        return int(m.group(1)) if m else None

    def upper(t, p):
        """largest value the path allows for the term (None: unbounded)"""
        ub = None
        for cn, tr, _ in p.assume:
            if cn[0] != 'icmp':
                continue
            for a, b, pred in ((cn[2], cn[3], cn[1]), (cn[3], cn[2], {'ult': 'ugt', 'ule': 'uge', 'ugt': 'ult', 'uge': 'ule', 'slt': 'sgt', 'sle': 'sge', 'sgt': 'slt', 'sge': 'sle'}.get(cn[1], cn[1]))):
                if not sym.is_const(b) or sym.norm(bs.strip(a)) != t:
                    continue
                k = b[1]
                u = None
                if pred in ('ult', 'slt') and tr:
                    u = k - 1
                elif pred in ('ule', 'sle') and tr:
                    u = k
                elif pred in ('ugt', 'sgt') and not tr:
                    u = k
                elif pred in ('uge', 'sge') and not tr:
                    u = k - 1
                elif pred == 'eq' and tr:
                    u = k
                if u is not None:
                    ub = u if ub is None else min(ub, u)
        return ub

    def maxval(l, p):
        tot = l.const
        for t, co in l.terms.items():
            if co > 0:
                u = upper(t, p)
                if u is None:
                    return None
                tot += co * u
        return tot          # (terms with a negative coefficient are at least 0)

    def minval(l, p):
        tot = l.const
        for t, co in l.terms.items():
            if co < 0:
                u = upper(t, p)
                if u is None:
                    return None
                tot += co * u
        return tot

    for m_ in c.modules:
        for f in m_.funcs.values():
            if f.name in c.unknown_funcs or (only_funcs is not None and f.name not in only_funcs):
                continue
            arrs = [i for g in c.deep_funcs(f) for i in g.instrs() if i.op == 'alloca' and _re.match(r'^\[(\d+) x i8\]$', (i.srcty or '').strip())]
            if not arrs:
                continue
            narr += len(arrs)
            for p in ex.explore(f):
                for e in p.events:
                    if e.kind == 'store':
                        ptr, ln, what = e.addr, bs.Lin(1), 'stores'
                    elif e.kind == 'call' and e.name in LOCAL_WRITERS and e.args and len(e.args) > LOCAL_WRITERS[e.name]:
                        ptr, ln, what = e.args[0], bs.lin(e.args[LOCAL_WRITERS[e.name]]), '%s() writes' % e.name.split('.p0')[0]
                    elif e.kind == 'call' and e.name in LOCAL_UNBOUNDED and e.args:
                        ptr, ln, what = e.args[0], None, '%s() writes' % e.name
                        if len(e.args) > 1 and e.name == 'strcpy' and e.args[1][0] == 'str':
                            ln = bs.Lin(len(e.args[1][1]) + 1)
                    else:
                        continue
                    if ptr[0] not in ('idx', 'alloca', 'bin'):
                        continue
                    base, off = bs.split_ptr(ptr)
                    if base[0] != 'alloca':
                        continue
                    N = size_of(base, f)
                    if N is None:
                        continue
                    nw += 1
                    why = None
                    if off is None or ln is None:
                        why = 'at a position or over a length that is not a bounded quantity'
                    else:
                        lo = minval(ln, p)
                        hi = maxval(off.add(ln), p)
                        if lo is None or lo < 0:
                            why = 'over the length %s, which wraps around when what is subtracted exceeds it: nothing on the path bounds that quantity' % ln
                        elif hi is None:
                            why = 'up to position %s, which nothing on the path bounds' % off.add(ln)
                        elif hi > N:
                            why = 'up to position %d' % hi
                    if why and bad is None:
                        bad = (f, p, e, N, what, why)
    if bad is not None:
        f, p, e, N, what, why = bad
        chk.fail(rid, 'local-array-overrun:%s' % f.name, c.where(e.ins), '%s() %s into a local array of %d bytes %s (%s)' % (f.name, what, N, why, fp.cond_text(p, 4)))
    else:
        chk.ok(rid, '%d local byte arrays, %d writes into them' % (narr, nw), 'all inside the arrays' if narr else 'the library keeps no text in arrays of fixed size', sample=True, nontrivial=bool(narr))


def moves_within_strings(c, chk, rid='R2.20'):
    """a block move whose length was measured with strlen() reads no byte behind the terminator of the string it was measured
    on: source position + length <= position measured + strlen + 1 (the copies the library works on are exactly as long as
    their text, the byte after the terminator is not theirs)"""
    from .. import bufsize as bs, failpaths as fp
    chk.rule(rid, 'a memmove()/memcpy() whose length comes from strlen() of the same string ends at its terminator at the latest: source offset + length <= measured offset + strlen + 1')
    ex = sym.Explorer(c.modules, max_visits=2, mod_sets=c.mod_sets, max_paths=30000)
    MOVES = ('memmove', 'memcpy', 'llvm.memmove.p0i8.p0i8.i64', 'llvm.memcpy.p0i8.p0i8.i64')
    n = 0
    bad = None
    for f in c.confuse.funcs.values():
        if f.name in c.unknown_funcs or not any(True for m_ in MOVES for _ in c.deep_calls(f, m_)):
            continue
        for p in ex.explore(f):
            for e in p.events:
                if not (e.kind == 'call' and e.name in MOVES and e.args and len(e.args) > 2):
                    continue
                ln = bs.lin(e.args[2])
                if ln is None:
                    continue
                base, off = bs.split_ptr(e.args[1])
                if off is None:
                    continue
                for t, co in ln.terms.items():
                    if not (t[0] == 'call' and t[1] == 'strlen' and co == 1):
                        continue
                    meas = [e2 for e2 in p.events if e2.kind == 'call' and e2.name == 'strlen' and sym.norm(e2.res) == t and e2.args]
                    if not meas:
                        continue
                    b2, o2 = bs.split_ptr(meas[0].args[0])
                    if o2 is None or sym.norm(b2) != sym.norm(base):
                        continue
                    n += 1
                    end = off.add(ln)
                    limit = o2.add(bs.Lin(1, {t: 1}))
                    if not end.le(limit) and bad is None:
                        bad = (f, p, e, end, limit)
    if bad is not None:
        f, p, e, end, limit = bad
        chk.fail(rid, 'move-past-terminator:%s' % f.name, c.where(e.ins), '%s() moves bytes up to position %s of a string whose terminator is at position %s: it reads behind the terminator, '
                 'one byte past the end of a copy that is exactly as long as its text (%s)' % (f.name, end, limit.add(bs.Lin(-1)), fp.cond_text(p, 4)))
    else:
        # (no floor: a resolver that un-escapes titles without such a move - byte by byte, say - has nothing to bound here)
        chk.ok(rid, '%d moves measured with strlen()' % n, 'each ends at the terminator at the latest' if n else 'no block move is measured with strlen()', sample=True, nontrivial=bool(n))
