"""C03 - string, escape, environment and comment lexing decode as specified.

Both halves of the decoding table are static objects: the DFA (from flex's
tables) says which rule wins for every input shape, the action summary (from
the IR) says what that rule emits.  A reference decoder written from the
property statement (spec below, not from the code) segments every string over a
representative alphabet up to a length bound; the scanner's segmentation
(winning rule, match length, action class) must agree segment by segment.
"""
import itertools

from .. import sym, lexmodel, report

EXPLANATION = (
    'Static comparison of the scanner with a reference decoder written from the property text. For every string over a '
    'representative byte alphabet up to the length bound, in the double-quoted, single-quoted and initial start '
    'conditions, the DFA decoded from flex -Cf tables gives the winning rule and match length of each segment, and the '
    'action summary of that rule (constant propagation over the LLVM IR of cfg_yylex, helpers inlined) gives its effect '
    'class (emit constant k / emit scanned octal / emit 2nd byte / reject / substitute / close ...). Both must equal the '
    'reference segmentation. No scanner code is executed; sscanf and getenv are trusted, their operands and formats are '
    'checked.')

ESC_CONST = {ord('n'): 10, ord('t'): 9, ord('r'): 13, ord('b'): 8, ord('f'): 12, ord('a'): 7, ord('e'): 27, ord('v'): 11}
OCT = b'01234567'
DEC = b'0123456789'
HEX = b'0123456789abcdefABCDEF'


# ---- reference decoder (from the property statement) -------------------------

def ref_dq(s, i):
    """expected (class, length) of the segment of a double-quoted body starting at s[i]"""
    c = s[i]
    n = len(s)
    if c == 0x22:
        return ('close', 1)
    if c == 0x0a:
        return ('const(10)+line1', 1)
    if c == 0x24 and i + 1 < n and s[i + 1] == 0x7b:
        j = s.find(b'}', i + 2)
        if j >= 0:
            nl = s[i:j + 1].count(b'\n')
            return ('env->buffer', j + 1 - i, nl)
        return ('byte0', 1)
    if c != 0x5c:
        return ('byte0', 1)
    if i + 1 >= n:
        return ('lone-backslash', 1)
    d = s[i + 1]
    if d == 0x0a:
        return ('skip+line1', 2)
    if d in DEC:
        j = i + 1
        while j < n and s[j] in DEC:
            j += 1
        run = s[i + 1:j]
        if len(run) <= 3 and all(x in OCT for x in run):
            return ('octal', 1 + len(run))
        # digits beyond an octal prefix: if the maximal decimal run is longer than
        # the longest octal prefix (<=3), the whole run is an invalid escape
        return ('error', 1 + len(run))
    if d == 0x78:
        j = i + 2
        while j < n and j < i + 4 and s[j] in HEX:
            j += 1
        if j > i + 2:
            return ('hex', j - i)
        return ('byte1', 2)
    if d in ESC_CONST:
        return ('const(%d)' % ESC_CONST[d], 2)
    return ('byte1', 2)


def ref_sq(s, i):
    c = s[i]
    n = len(s)
    if c == 0x27:
        return ('close', 1)
    if c == 0x0a:
        return ('const(10)+line1', 1)
    if c == 0x5c:
        if i + 1 >= n:
            return ('lone-backslash', 1)
        d = s[i + 1]
        if d == 0x0a:
            return ('skip+line1', 2)
        if d in (0x27, 0x5c):
            return ('byte1', 2)
        return ('byte0,byte1', 2)
    j = i
    while j < n and s[j] not in (0x27, 0x5c, 0x0a):
        j += 1
    return ('all', j - i)


# which scanner classes implement which reference class
def _base(cls):
    import re
    return re.sub(r'\+line[0-9*]*', '', cls)


def implements(ref, classes):
    cs = set(classes)
    if ref.startswith('env'):
        # newline counting inside ${...} is C06's business (R6.4)
        return set(_base(x) for x in cs) == {ref}
    if ref == 'close':
        return cs == {'return(3,begin0,terminate,buffer)'}
    if ref == 'octal':
        return cs == {'scan(%o,+1)', 'error'}
    if ref == 'hex':
        return cs == {'scan(%x,+2)'}
    if ref == 'all':
        return 'all' in cs and cs <= {'all', 'skip'}
    if ref == 'lone-backslash':
        return cs == {'byte0'}
    return cs == {ref}


def byte_table_width(c, chk, rid='R3.8'):
    """The DFA all scanner rules are decided on is decoded from an 8-bit table set (flex -Cf -8).  That stands for the scanner
    the project builds only if that scanner is 8-bit too: the table it indexes with an input byte (the equivalence-class table,
    or the rows of an uncompressed transition table - `%option full`/`fast`, `-Cf`, `-7`, `%option 7bit` make them 128 wide)
    has 256 entries.  A 7-bit scanner reads past the row for every byte >= 0x80 and lexes it as something else"""
    import re as _re
    chk.rule(rid, 'the scanner generated with the project\'s own flex options is 8-bit: the table indexed by an input byte has 256 entries')
    g = c.lexer.globals
    width = None
    which = None
    if '@yy_ec' in g:
        m = _re.match(r'\[(\d+) x i\d+\]$', g['@yy_ec']['ty'])
        if m:
            width, which = int(m.group(1)), 'yy_ec'
    elif '@yy_nxt' in g:
        m = _re.match(r'\[(\d+) x \[(\d+) x i\d+\]\]$', g['@yy_nxt']['ty'])
        if m:
            width, which = int(m.group(2)), 'yy_nxt rows'
    if width is None:
        raise sym.AnalysisIncomplete('no byte-indexed scanner table (yy_ec / two-dimensional yy_nxt) found in the generated scanner')
    if width >= 256:
        chk.ok(rid, '%s of the generated scanner' % which, '%d entries: one per byte value' % width)
    else:
        chk.fail(rid, 'scanner-7bit', 'src/lexer.l:1', 'the scanner the project generates is a 7-bit scanner: %s has %d entries, so every input byte >= 0x80 (UTF-8, Latin-1) '
                 'indexes past its row and is lexed as some unrelated character class; the decoding of strings, escapes and comments holds for ASCII input only '
                 '(look for `%%option full`, `fast`, `7bit` in lexer.l or -Cf/-CF/-7 in the flex flags without `8bit`)' % (which, width))


def run(c, chk):
    chk.explanation = EXPLANATION
    chk.rule('R3.1', 'double-quoted strings: winning rule, match length and action class equal the reference decoder')
    chk.rule('R3.2', 'single-quoted strings: only \\\' and \\\\ unescape, backslash-newline joins, no substitution, EOF rejected')
    chk.rule('R3.3', '${NAME}/${NAME:-default} selects the substitution rule in unquoted and double-quoted context only')
    chk.rule('R3.4', 'unquoted words are returned verbatim and never contain a special character')
    chk.rule('R3.5', 'comment rules lead only to the comment token (or continue); they never produce a string token')
    chk.rule('R3.6', 'every start condition has a rule for every byte and for end of input')
    chk.trusted = ['flex 2.6.4 tables', 'clang/opt IR', 'sscanf("%o"/"%x") and getenv() semantics',
                   'reference decoder in lcverif/props/c03.py (written from the property statement)']
    chk.assumptions = ['strings longer than the enumeration bound behave like their segments (the scanner is memoryless '
                       'between tokens of one start condition: start-condition changes are checked per rule)']
    lex = c.lex
    dfa = lex.dfa
    K = {r: lexmodel.classify(lex, r) for r in lex.actions}
    thorough = chk.tier == 'thorough'
    chk.analysed = {'dfa_states': dfa.nstates, 'lexer_rules': dfa.num_rules,
                    'action_paths': sum(len(v) for v in lex.actions.values())}

    # ---- R3.7: a copying action appends the matched bytes, not one more ------------------------------------
    copy_counts(c, chk, lex, K)

    # ---- R3.8: the scanner the project builds tells all 256 byte values apart -----------------------------
    byte_table_width(c, chk)

    # ---- R3.6 totality -------------------------------------------------------
    for scname in sorted(dfa.sc, key=lambda n: dfa.sc[n]):
        fr = dfa.firing_rules(scname)
        if dfa.default_rule in fr:
            chk.fail('R3.6', 'default-rule:%s' % scname, 'src/lexer.l:<%s>' % scname,
                     'no rule for input %r in <%s>' % (fr[dfa.default_rule], scname))
        else:
            chk.ok('R3.6', '<%s> bytes' % scname, 'every byte string has a winning user rule')
        ek = lexmodel.classify(lex, None, scname)
        if scname == 'sq_str':
            if ek == ['error']:
                chk.ok('R3.6', '<sq_str> EOF', 'unterminated single-quoted string: diagnostic + return 0')
            else:
                chk.fail('R3.2', 'sq-eof', 'src/lexer.l:%d' % dfa.eof_line.get('sq_str', 0),
                         'end of input inside a single-quoted string is not rejected (action classes %s)' % ek)
        else:
            if all(x == 'pop-include' or x.startswith('return(-1,') for x in ek) and any(x.startswith('return(-1,') for x in ek):
                chk.ok('R3.6', '<%s> EOF' % scname, 'returns EOF / pops an include')
            else:
                chk.fail('R3.6', 'eof:%s' % scname, 'src/lexer.l:%d' % dfa.eof_line.get(scname, 0),
                         'unexpected end-of-input action in <%s>: %s' % (scname, ek))

    # ---- R3.1 / R3.2: exhaustive segmentation ---------------------------------
    alpha_first = [bytes([b]) for b in range(256)]
    rest = [b'0', b'7', b'8', b'9', b'a', b'F', b'g', b'x', b'n', b'"', b"'", b'\\', b'\n', b' ', b'$', b'{', b'}', b':', b'-', b'\x00', b'\xff']
    maxlen = 4 if thorough else 3

    def check_condition(scname, ref, rid, opener):
        neval = 0
        mism = {}
        okc = {}
        # all strings:  '\' + b + tail   and  b + tail,  tail over `rest` up to maxlen-1... then segment
        def strings():
            for L in range(0, maxlen):
                for tail in itertools.product(rest, repeat=L):
                    t = b''.join(tail)
                    for b in alpha_first:
                        yield b'\\' + b + t
                        if L <= maxlen - 2:
                            yield b + t
            yield b'\\'
            # numeric escapes: all digit strings up to length 5, hex up to 4, each followed by a neutral byte or not
            for L in range(1, 6):
                for ds in itertools.product([b'0', b'1', b'3', b'7', b'8', b'9'], repeat=L):
                    d = b''.join(ds)
                    yield b'\\' + d
                    yield b'\\' + d + b'z'
            for L in range(0, 5):
                for hs in itertools.product([b'0', b'9', b'a', b'F', b'g'], repeat=L):
                    h = b''.join(hs)
                    yield b'\\x' + h
                    yield b'\\x' + h + b'"'
        for s in strings():
            i = 0
            n = len(s)
            while i < n:
                exp = ref(s, i)
                rule, ln = dfa.match(scname, s[i:])
                neval += 1
                got = K.get(rule, ['?'])
                if len(got) > 1 or any('?' in g_ for g_ in got):
                    # the action branches on / returns part of the matched text: keep the paths this text can take
                    got = lexmodel.classes_for(lex, rule, s[i:i + ln], sc=scname)
                good = (ln == exp[1]) and implements(exp[0], got)
                if good and exp[0].startswith('env') and len(exp) > 2:
                    pass
                if not good:
                    key = '%s:%s->%s' % (scname, exp[0], ','.join(got) if ln == exp[1] else 'len%d' % ln)
                    if key not in mism or len(s) < len(mism[key][0]):
                        mism[key] = (s, i, exp, rule, ln, got)
                    break
                okc[(exp[0], rule)] = okc.get((exp[0], rule), 0) + 1
                if exp[0] == 'close' or got == ['error']:
                    break
                i += ln
        for (cls, rule), cnt in sorted(okc.items()):
            chk.ok(rid, '<%s> %s' % (scname, cls), '%s implements it in %d enumerated segments' % (lex.rule_name(rule), cnt),
                   sample=(cls in ('octal', 'const(27)', 'byte0,byte1', 'skip+line1')))
        for key, (s, i, exp, rule, ln, got) in sorted(mism.items()):
            chk.fail(rid, key, 'src/lexer.l:%d' % dfa.rule_line.get(rule, 0),
                     'in <%s>, input %r at offset %d: expected %s over %d byte(s), scanner selects %s over %d byte(s) with effect %s'
                     % (scname, s, i, exp[0], exp[1], lex.rule_name(rule), ln, got),
                     witness=['input (after the opening quote): %r' % s, 'reference: %r' % (exp,),
                              'scanner: rule %d, match length %d, action classes %s' % (rule, ln, got)])
        return neval

    n1 = check_condition('dq_str', ref_dq, 'R3.1', b'"')
    n2 = check_condition('sq_str', ref_sq, 'R3.2', b"'")
    chk.extra['segments_evaluated'] = n1 + n2
    chk.extra['max_string_length'] = maxlen + 1

    # octal guard constant
    r_oct = dfa.match('dq_str', b'\\7')[0]
    for ap in lex.actions.get(r_oct, []):
        if lexmodel.classify_path(ap) == 'error':
            if not any(x[1] in ('sscanf', '__isoc99_sscanf', 'strtoul', 'strtol') for x in ap.of('call')):
                continue          # refused for its shape before any value was scanned (a rule shared with the malformed escapes)
            g = [a for a in ap.path.assume if a[0][0] == 'icmp']
            okg = False
            if g:
                cnd, truth, _ = g[-1]
                if cnd[3][0] == 'c' and ((cnd[1] == 'ugt' and cnd[3][1] == 255 and truth) or (cnd[1] == 'uge' and cnd[3][1] == 256 and truth)
                                         or (cnd[1] == 'ule' and cnd[3][1] == 255 and not truth) or (cnd[1] == 'ult' and cnd[3][1] == 256 and not truth)):
                    okg = True
            if okg:
                chk.ok('R3.1', 'octal range guard', 'the rejecting arm is taken exactly when the scanned value exceeds 0xFF', sample=True)
            else:
                chk.fail('R3.1', 'octal-guard', 'src/lexer.l:%d' % dfa.rule_line.get(r_oct, 0),
                         'octal escape: the rejecting arm is not guarded by value > 0xFF (guard: %s)' % (sym.render(g[-1][0]) if g else 'none'))

    # string openers / closers change the start condition as expected
    for opener, sc_to, what in ((b'"', dfa.sc['dq_str'], 'dq_str'), (b"'", dfa.sc['sq_str'], 'sq_str')):
        r, ln = dfa.match('INITIAL', opener + b'x')
        k = K.get(r)
        aps_ = lex.actions[r]
        if k and len(k) > 1:
            # one rule for both quotes: keep the paths this quote takes
            k = lexmodel.classes_for(lex, r, opener)
            aps_ = [ap for ap in lex.actions[r] if lexmodel.consistent_with(ap, opener, lex)]
        if ln == 1 and k == ['begin%d' % sc_to]:
            # must also reset the buffer index
            okidx = all(any(x[0] == 'qvar' and x[1] == '@qstring_index' and x[2] == sym.C0 for x in ap.effects) for ap in aps_)
            if okidx:
                chk.ok('R3.1' if what == 'dq_str' else 'R3.2', 'opening %r' % opener, 'enters <%s> with an empty buffer' % what)
            else:
                chk.fail('R3.1' if what == 'dq_str' else 'R3.2', 'open-noreset:%s' % what, 'src/lexer.l:%d' % dfa.rule_line.get(r, 0),
                         'opening quote does not reset the scratch-buffer index')
        else:
            chk.fail('R3.1' if what == 'dq_str' else 'R3.2', 'open:%s' % what, 'src/lexer.l:%d' % dfa.rule_line.get(r, 0),
                     'opening %r selects %s with effect %s' % (opener, lex.rule_name(r), k))

    # ---- R3.3 substitution ----------------------------------------------------
    body_alpha = [b'A', b':', b'-', b'}', b'\n', b' ', b'{', b'$', b'"', b'\\']
    nshape = 0
    bad = {}
    for L in range(0, 4 if thorough else 3):
        for body in itertools.product(body_alpha, repeat=L):
            bd = b''.join(body)
            if b'}' in bd:
                continue
            s = b'${' + bd + b'}'
            for scname, want in (('INITIAL', 'env->return(3)'), ('dq_str', 'env->buffer')):
                for suffix in (b'', b'x', b' ', b'}'):
                    nshape += 1
                    r, ln = dfa.match(scname, s + suffix)
                    k = K.get(r, ['?'])
                    if len(set(_base(x) for x in k)) > 1:
                        k = lexmodel.classes_for(lex, r, s, sc=scname)       # one action for both contexts that asks YY_START
                    if not (ln == len(s) and set(_base(x) for x in k) == {want}):
                        bad.setdefault(scname, (s + suffix, r, ln, k))
            # never in single quotes
            nshape += 1
            pos = 0
            while pos < len(s):
                r, ln = dfa.match('sq_str', s[pos:])
                if any(x.startswith('env') for x in K.get(r, [])):
                    bad.setdefault('sq_str', (s, r, ln, K.get(r)))
                pos += ln
    for scname, (s, r, ln, k) in bad.items():
        chk.fail('R3.3', 'subst:%s' % scname, 'src/lexer.l:%d' % dfa.rule_line.get(r, 0),
                 'in <%s>, %r: scanner selects %s over %d byte(s) with effect %s' % (scname, s, lex.rule_name(r), ln, k))
    if not bad:
        chk.ok('R3.3', '${...} shapes', '%d shapes: substitution rule wins with the full match in INITIAL and <dq_str>, never fires in <sq_str>' % nshape, sample=True)
    # the substitution actions themselves: terminate at '}', split at ":-", getenv(yytext+2), default, empty
    for scname in ('INITIAL', 'dq_str'):
        r, _ = dfa.match(scname, b'${A}')
        why = subst_action_ok(lex, r, scname)
        if why is True:
            chk.ok('R3.3', 'substitution action in <%s>' % scname, 'getenv(yytext+2) after cutting at "}" and at ":-"; value, default or empty', sample=True)
        else:
            chk.fail('R3.3', 'subst-action:%s' % scname, 'src/lexer.l:%d' % dfa.rule_line.get(r, 0), 'substitution action in <%s>: %s' % (scname, why))
    for r in dfa.firing_rules('sq_str'):
        for ap in lex.actions.get(r, []):
            if ap.of('getenv'):
                chk.fail('R3.3', 'getenv-in-sq', 'src/lexer.l:%d' % dfa.rule_line.get(r, 0), '%s can fire inside single quotes and calls getenv()' % lex.rule_name(r))

    # ---- R3.4 unquoted words --------------------------------------------------
    r_word, ln = dfa.match('INITIAL', b'abc')
    if K.get(r_word) == ['return(3,yytext)'] and ln == 3:
        mods = [x for ap in lex.actions[r_word] for x in ap.effects if x[0] in ('store', 'qputc', 'qvar')]
        if mods:
            chk.fail('R3.4', 'word-modified', 'src/lexer.l:%d' % dfa.rule_line.get(r_word, 0), 'the unquoted-word action modifies memory before returning yytext')
        else:
            chk.ok('R3.4', 'unquoted word action', 'returns CFGT_STR with yytext untouched')
    else:
        chk.fail('R3.4', 'word-rule', 'src/lexer.l:%d' % dfa.rule_line.get(r_word, 0), 'input "abc" selects %s with effect %s' % (lex.rule_name(r_word), K.get(r_word)))
    specials = b' \t\n\r"\'={}(),#'
    # language of the word rule contains no special byte: DFA search with a flag
    st0 = dfa.start('INITIAL')
    seen = {(st0, False)}
    work = [(st0, False, b'')]
    viol = None
    while work and viol is None:
        s_, flag, w = work.pop()
        for b in range(256):
            t = dfa.step(s_, b)
            if t is None:
                continue
            f2 = flag or (b in specials)
            if dfa.accept[t] == r_word and f2:
                viol = w + bytes([b])
                break
            if (t, f2) not in seen:
                seen.add((t, f2))
                work.append((t, f2, w + bytes([b])))
    if viol is None:
        chk.ok('R3.4', 'unquoted word language', 'no string matched by the word rule contains any of %r (%d DFA configurations)' % (specials, len(seen)), sample=True)
    else:
        chk.fail('R3.4', 'word-special', 'src/lexer.l:%d' % dfa.rule_line.get(r_word, 0), 'the unquoted-word rule can match %r, which contains a special character' % viol)
    # every single special character is its own token / skipped
    want = {b'{': 'return(123,yytext)', b'}': 'return(125,yytext)', b'(': 'return(40,yytext)', b')': 'return(41,yytext)',
            b'=': 'return(61,yytext)', b'+=': 'return(43,yytext)', b',': 'return(44,yytext)', b' ': 'skip', b'\t': 'skip',
            b'\n': 'skip+line1'}
    for tok, cls in sorted(want.items()):
        r, ln = dfa.match('INITIAL', tok + b'a')
        got_ = K.get(r)
        if got_ and (len(got_) > 1 or any('?' in g_ for g_ in got_)):
            got_ = lexmodel.classes_for(lex, r, tok)
        if ln == len(tok) and got_ == [cls]:
            chk.ok('R3.4', 'token %r' % tok, cls, nontrivial=False)
        else:
            chk.fail('R3.4', 'punct:%r' % tok, 'src/lexer.l:%d' % dfa.rule_line.get(r, 0), 'input %r selects %s over %d byte(s) with effect %s, expected %s' % (tok, lex.rule_name(r), ln, got_, cls))

    # ---- R3.5 comments ----------------------------------------------------------
    ncomm = 0
    for text in (b'#', b'# c', b'## c', b'//', b'// c', b'/// c', b'#"x"', b"//'x'", b'#${A}'):
        for suf in (b'', b'\nx'):
            r, ln = dfa.match('INITIAL', text + suf)
            ncomm += 1
            k = K.get(r, ['?'])
            if ln == len(text) and all(x.startswith('return(8,begin0,') and 'trimmed-buffer' in x for x in k):
                continue
            # a rule that is active in INITIAL only and changes no start condition leaves the scanner in INITIAL just the same
            only_initial = set(dfa.rule_conditions().get(r, ())) == {'INITIAL'}
            if ln == len(text) and only_initial and all(x.startswith('return(8,') and 'begin' not in x and 'trimmed-buffer' in x for x in k):
                continue
            chk.fail('R3.5', 'comment:%r' % text[:2], 'src/lexer.l:%d' % dfa.rule_line.get(r, 0),
                     'one-line comment %r selects %s over %d byte(s) with effect %s' % (text, lex.rule_name(r), ln, k))
    r, ln = dfa.match('INITIAL', b'/* c */')
    if not (ln == 2 and K.get(r) == ['begin%d' % dfa.sc['comment']]):
        chk.fail('R3.5', 'comment-open', 'src/lexer.l:%d' % dfa.rule_line.get(r, 0), '"/*" selects %s with effect %s' % (lex.rule_name(r), K.get(r)))
    else:
        ncomm += 1
    # inside <comment>: only buffer/skip classes, and the closer returns the comment token
    for r in sorted(dfa.firing_rules('comment')):
        k = K.get(r, ['?'])
        ncomm += 1
        w_ = dfa.firing_rules('comment').get(r, b'')
        kk = lexmodel.classes_for(lex, r, w_) if w_ else k
        literal = set(['all', 'skip', 'all+line1', 'skip+line1'])
        if len(w_) == 1:
            literal |= {'const(%d)' % w_[0], 'const(%d)+line1' % w_[0], 'byte0', 'byte0+line1'}
        fine = all(x in literal for x in kk) or all(x.startswith('return(8,begin0,') for x in kk)
        if not fine:
            chk.fail('R3.5', 'comment-body:%s' % dfa.rule_text.get(r), 'src/lexer.l:%d' % dfa.rule_line.get(r, 0),
                     '%s fires inside a comment with effect %s' % (lex.rule_name(r), k))
    # closing shapes
    for body in (b'*/', b'**/', b' */', b'x*/', b'x */', b'*x*/', b'\n*/', b'/ */'):
        pos = 0
        closed = False
        steps = 0
        while pos < len(body) and steps < 10:
            r, ln = dfa.match('comment', body[pos:])
            steps += 1
            if any(x.startswith('return(8') for x in K.get(r, [])):
                closed = (pos + ln == len(body))
                break
            pos += ln
        ncomm += 1
        if not closed:
            chk.fail('R3.5', 'comment-close:%r' % body, 'src/lexer.l:<comment>', 'comment body %r is not closed exactly at its "*/"' % body)
    badc = c_comment_extent(lex, K)
    if badc:
        chk.fail('R3.5', 'comment-extent', 'src/lexer.l', 'the C comment %r is not read as one comment ending at its first "*/": %s' % badc)
    chk.ok('R3.5', 'comment forms', '%d comment shapes/rules: only the comment token (8) is ever returned, with the trimmed buffer' % ncomm, sample=True)
    # no rule in any condition returns a STR token from comment text: rules returning 3
    str_rules = sorted(r for r in lex.actions if any(x.startswith('return(3') or x.startswith('env->return(3') for x in K.get(r, [])))
    conds = dfa.rule_conditions()
    for r in str_rules:
        if 'comment' in conds.get(r, []):
            chk.fail('R3.5', 'str-from-comment:%s' % dfa.rule_text.get(r), 'src/lexer.l:%d' % dfa.rule_line.get(r, 0), '%s returns a string token inside a comment' % lex.rule_name(r))
    chk.floor('R3.x string-token rules', len(str_rules), 4)
    chk.floor('R3.1 segments evaluated', n1, 10000)
    chk.floor('R3.2 segments evaluated', n2, 10000)


def copy_counts(c, chk, lex, K):
    """R3.7: an action that copies the matched text byte by byte and counts with the match length copies exactly that many
    bytes.  On every explored path the tests on yyleng pin the length down (the loop was left after n rounds); the number
    of text bytes appended on that path must be that length - one more is the terminating NUL of yytext, which cuts the
    string value short at that point"""
    chk.rule('R3.7', 'an action that copies the matched text under a count derived from the match length appends exactly that many bytes (never the terminator of the text)')
    YYLENG = ('g', '@cfg_yyleng')
    n = 0
    for r in sorted(lex.actions):
        bad = None
        for ap in lex.actions[r]:
            if ap.path.end not in ('stop', 'ret'):
                continue
            cons = [(cn, t) for cn, t, _ in ap.path.assume if cn[0] == 'icmp' and sym.mentions(cn, lambda v: v[0] == 'ld' and v[1] == YYLENG)]
            if not cons:
                continue

            def val(v, L):
                if sym.is_const(v):
                    return v[1]
                if v[0] == 'ld' and v[1] == YYLENG:
                    return L
                if v[0] == 'bin' and v[1] in ('sext', 'zext', 'trunc'):
                    return val(v[2], L)
                if v[0] == 'bin' and len(v) == 4 and v[1] in ('add', 'sub'):
                    a, b = val(v[2], L), val(v[3], L)
                    return None if a is None or b is None else (a + b if v[1] == 'add' else a - b)
                return None
            sols = []
            for L in range(0, 12):
                ok = True
                for cn, t in cons:
                    a, b = val(cn[2], L), val(cn[3], L)
                    if a is None or b is None:
                        ok = None
                        break
                    r_ = {'eq': a == b, 'ne': a != b, 'slt': a < b, 'sle': a <= b, 'sgt': a > b, 'sge': a >= b, 'ult': a < b, 'ule': a <= b, 'ugt': a > b, 'uge': a >= b}.get(cn[1])
                    if r_ is None:
                        ok = None
                        break
                    if r_ != t:
                        ok = False
                        break
                if ok is None:
                    sols = None
                    break
                if ok:
                    sols.append(L)
            if not sols or len(sols) != 1:
                continue
            n += 1
            copied = [x for x in ap.of('qputc') if sym.mentions(x[1], lambda v: v == ('g', '@cfg_yytext'))]
            if len(copied) > sols[0]:
                bad = bad or (ap, sols[0], len(copied))
        if bad is not None:
            ap, L, q = bad
            chk.fail('R3.7', 'copies-terminator:%s' % lex.dfa.rule_text.get(r), 'src/lexer.l:%d' % lex.dfa.rule_line.get(r, 0),
                     '%s: on a path whose tests fix the match length at %d the action appends %d bytes of the text: the last one is the NUL behind the match - everything '
                     'appended to the string after this run is cut off' % (lex.rule_name(r), L, q))
    if n:
        chk.ok('R3.7', '%d counted copy paths' % n, 'bytes appended <= match length', nontrivial=False)
    else:
        chk.ok('R3.7', 'copying actions', 'none counts with the match length (they stop at the terminator of the text)', nontrivial=False)


def subst_action_ok(lex, r, scname):
    aps = lex.actions.get(r, [])
    if not aps:
        return 'no action'
    aps = [ap for ap in aps if lexmodel.consistent_with(ap, b'', lex, lex.dfa.sc.get(scname))]
    if not aps:
        return 'no action path for this start condition'
    searched = False
    handscan = False
    for ap in aps:
        g = ap.of('getenv')
        if len(g) != 1:
            return 'expected exactly one getenv() per path'
        if not lexmodel._yytext_plus(g[0][1], 2):
            return 'getenv() is not called on yytext+2 (the name after "${")'
        # the '}' is cut: a store of 0 into yytext[strlen-1]
        cut = [x for x in ap.effects if x[0] == 'store' and x[3] == sym.C0]
        if not cut:
            return 'the closing "}" is not cut off before getenv()'
        if ap.effects.index(cut[0]) > ap.effects.index(g[0]):
            return 'the closing "}" is cut after getenv()'
        sc = [x for x in ap.of('call') if x[1] == 'strchr']
        byhand = any(cn[0] == 'icmp' and cn[1] in ('eq', 'ne') and ('c', ord(':')) in (cn[2], cn[3]) and sym.mentions(cn, lambda x: x == ('g', '@cfg_yytext'))
                     for cn, t, _ in ap.path.assume)       # a hand-written scan of the text for the colon
        if any(x[2][1] == ('c', ord(':')) for x in sc) or byhand:
            searched = True
        if byhand and not sc:
            handscan = True
    if not searched:
        return 'no search for ":" (the ":-default" form)'
    for ap in []:
        pass
    # the default is used exactly when getenv() returned NULL; the value exactly when it did not
    for ap in aps:
        g = ap.of('getenv')[0][2]
        gres = g.res
        nf = {}
        for cn, t, _ in ap.path.assume:
            if cn[0] == 'icmp' and cn[1] in ('eq', 'ne') and sym.C0 in (cn[2], cn[3]):
                v = cn[2] if cn[3] == sym.C0 else cn[3]
                nf[v] = ((cn[1] == 'eq') == t)
        src = None
        y = ap.yylval()
        vals = [x[1] for x in ap.of('qputc')] + ([y] if (y is not None and ap.returns) else [])
        for v in vals:
            if sym.mentions(v, lambda x: x == gres):
                src = 'value'
            elif sym.mentions(v, lambda x: (x[0] == 'call' and x[1] == 'strchr') or x == ('g', '@cfg_yytext')):
                src = src or 'default'        # a place inside the matched text
        if src == 'default' and nf.get(gres) is not True:
            return 'the ":-default" text is used on a path where getenv() did not return NULL (a variable that is set, e.g. to the empty string, must win)'
        if src == 'value' and nf.get(gres) is not False:
            return 'the environment value is used without testing it against NULL'
        if src is None and nf.get(gres) is False:
            # variable set: nothing emitted only if it is empty (the copy loop ran zero times) - the path must have looked at *var
            if not any(sym.mentions(cn, lambda x: x[0] == 'ld' and x[1] == gres) for cn, t, _ in ap.path.assume):
                return 'a set variable yields nothing without its value having been examined'
    classes = set(lexmodel.classify_path(a) for a in aps)
    if scname == 'INITIAL':
        # three outcomes: value, default (pointer after ":-"), empty string
        vals = set()
        for ap in aps:
            y = ap.yylval()
            if y is None:
                return 'a path returns without a token value'
            if y[0] == 'call' and y[1] == 'getenv':
                vals.add('value')
            elif y[0] == 'idx' and y[1][0] == 'call' and y[1][1] == 'strchr' and y[2] == ('c', 2):
                vals.add('default')
            elif y[0] == 'str' and y[1] == '':
                vals.add('empty')
            elif y[0] == 'idx' and y[1] == ('str', '') :
                vals.add('empty')
            elif sym.mentions(y, lambda x: x == ('g', '@cfg_yytext')):
                vals.add('default')       # a place inside the matched text (found by a hand-written scan)
            else:
                return 'unexpected token value %s' % sym.render(y)
        if vals != {'value', 'default', 'empty'} and not (handscan and vals == {'value', 'empty'}):
            # (a hand-written scan finds the colon only after more iterations than the exploration bound unrolls)
            return 'token value outcomes are %s, expected value/default/empty' % sorted(vals)
    return True


def c_comment_extent(lex, K, maxlen=3):
    """(text, what happens) for the first C comment "/*" body "*/" (body over a small alphabet, without "*/") that the
    scanner does not read as exactly one comment token ending at the first "*/" after the opening "/*"; None if all do"""
    import itertools
    dfa = lex.dfa
    csc = dfa.sc['comment']
    for n in range(0, maxlen + 1):
        for tup in itertools.product(b'*/a \n', repeat=n):
            body = bytes(tup)
            # the first "*/" that ends the comment: the opening star does not count twice ("/*/" is still open)
            whole = b'/*' + body + b'*/'
            end = whole.find(b'*/', 2)
            want = end + 2
            text = whole + b' x'
            r, ln = dfa.match('INITIAL', text)
            k = K.get(r, [])
            if len(k) > 1:
                k = lexmodel.classes_for(lex, r, text[:ln])
            if not (k == ['begin%d' % csc]):
                return (whole, 'it opens with %s (%s)' % (lex.rule_name(r), k))
            pos = ln
            steps = 0
            closed = None
            while pos < len(text) and steps < 40:
                r, ln = dfa.match('comment', text[pos:])
                steps += 1
                kk = K.get(r, [])
                if any(x.startswith('return(8') for x in kk):
                    closed = pos + ln
                    break
                if ln <= 0:
                    break
                pos += ln
            if closed != want:
                return (whole, 'the comment token is returned after %s byte(s) instead of %d' % (closed if closed is not None else 'no', want))
    return None
