"""C04 - text-to-number/boolean conversion is exact or rejected (structural)."""
from .. import cfg as _cfg, sym, parsermodel as pm, failpaths as fp, report

EXPLANATION = (
    'Static analysis of the conversion call sites (found by callee: strtol, strtod, cfg_parse_boolean) in the LLVM IR '
    'of confuse.c. On every residual path through a site: errno is stored 0 after the last call that precedes the '
    'conversion; the end pointer is compared with the start pointer (no digits), *endptr with 0 (trailing garbage) and '
    'errno with ERANGE, each rejecting arm emitting a diagnostic and returning failure; the value slot is written only '
    'on the path on which all tests passed; the constants reaching the radix argument, keyed by the guards on the '
    'first two characters, equal the reference table (0x->16, 0b->2, other leading 0->8, otherwise 10); the boolean '
    'word table and its result codes equal the reference. strtol/strtod themselves are trusted; numeric results are '
    'not computed.')

ERANGE = 34
RADIX_REF = {'0x': 16, '0b': 2, '0': 8, 'other': 10}
BOOL_REF = {'true': 1, 'yes': 1, 'on': 1, 'false': 0, 'no': 0, 'off': 0}


def run(c, chk):
    chk.explanation = EXPLANATION
    chk.rule('R4.1', 'errno is cleared after the last call before strtol/strtod (the range test does not see a stale ERANGE)')
    chk.rule('R4.2', 'a numeral without digits is rejected (end pointer compared with start pointer)')
    chk.rule('R4.3', 'trailing garbage is rejected (*endptr compared with 0)')
    chk.rule('R4.4', 'out-of-range values are rejected (errno compared with ERANGE after the call)')
    chk.rule('R4.5', 'the value slot is written only after every test passed; every rejecting arm reports and fails')
    chk.rule('R4.6', 'radix constants per prefix guard equal the reference table')
    chk.rule('R4.7', 'boolean words and result codes equal the reference table; an unknown word is a reported failure')
    chk.trusted = ['strtol/strtod (C library)', 'clang/opt IR']
    refusal_stops_parse(c, chk)
    if not isinstance(chk, report.SubCheck):
        # R4.9: a value token can only be refused if it is handed to the conversion at all: the parser's transitions for
        # declared options are those of the language (no flag combination diverts the value tokens past the store)
        from . import c01, c08
        chk.rule('R4.9', 'every value token written for a declared option reaches the store (the parser table equals the reference automaton, rule R1.1 of C01)')
        c01.grammar(c, c08.chk_proxy(chk, {'R1.1': 'R4.9'}), pm.ParserModel(c))
    bulk_converts_all(c, chk)
    verdict_is_the_conversions(c, chk)
    if not isinstance(chk, report.SubCheck):
        # R4.11: "the whole token": what reaches the conversion is the token as the language defines it (no blanks trimmed off a
        # quoted token, no bytes dropped by the scanner)
        from . import c03
        chk.rule('R4.11', 'the token text handed to the conversion is the decoded token of the language (the rules of C03): nothing is trimmed or dropped on the way')
        sub = report.SubCheck(chk, 'R4.11', 'C03')
        c03.run(c, sub)
        sub.done('token decoding')
    chk.assumptions = ['strtol\'s own grammar (leading blanks, "+") and inf/nan for floats are not decided']
    fn = c.need('cfg_setopt')
    ex = sym.Explorer(c.modules, max_visits=2, mod_sets=c.mod_sets, max_paths=100000)
    paths = [p for p in ex.explore(fn) if p.end == 'ret']
    # relatives of strtol() with the same result type on this target (LP64: long long, intmax_t and long are one 64-bit type, the
    # IR has a single i64): same conversion, same ERANGE protocol - the rules below apply to them unchanged.  (A range test made
    # on the wide result against LONG_MIN/LONG_MAX decides nothing here; only the ERANGE test does.)
    SAME_TYPE = {'strtoll': 'strtol', 'strtoq': 'strtol', 'strtoimax': 'strtol', '__isoc23_strtol': 'strtol', '__isoc23_strtoll': 'strtol'}
    for p in paths:
        for e in p.events:
            if e.kind == 'call' and e.name in SAME_TYPE:
                e.name = SAME_TYPE[e.name]
    sites = {'strtol': [], 'strtod': []}
    for p in paths:
        for name in sites:
            if p.calls(name):
                sites[name].append(p)
    chk.analysed = {'paths_through_strtol': len(sites['strtol']), 'paths_through_strtod': len(sites['strtod'])}
    nsites = len(set(id(e.ins) for p in paths for e in p.events if e.kind == 'call' and e.name in sites))     # (also reached through a table of built-in converters)
    chk.floor('R4.x conversion call sites', nsites, 2)
    # a helper split off cfg_setopt() or off the path resolver belongs to that function (its calls are on the explored paths)
    from . import c11 as _c11
    try:
        resolver = set(c.owners(_c11.step_loop(c, c.need('cfg_getopt_secidx'))[0].name))     # the path resolver converts an index qualifier, not a value
    except report.Broken:
        resolver = None
    others = [(f.name, n) for f in c.confuse.funcs.values() for n in ('strtol', 'strtod', 'atoi', 'atol', 'atof', 'strtoul')
              for _ in f.calls(n) if not (c.owners(f.name) <= ({'cfg_setopt', 'cfg_getopt_secidx'} | (resolver or set())))]
    if others and resolver is None:
        raise report.Broken('a conversion outside cfg_setopt() cannot be attributed: the path resolver (which converts an index qualifier) was not found')
    for fname, n in others:
        chk.fail('R4.5', 'stray-conversion:%s:%s' % (fname, n), c.where(c.func(fname)), '%s() converts text with %s() outside the checked conversion arm' % (fname, n))

    for name, kind in (('strtol', 'integer'), ('strtod', 'floating point')):
        ps = sites[name]
        if not ps:
            # the conversion was replaced by a relative that does not yield "exactly that number" in the option's type
            WRONG = {'strtod': {'strtold': 'the numeral is rounded to long double first and then narrowed to the option\'s double: rounded twice, a token just above '
                                           'the midpoint of two doubles yields the lower one, and the range test is no longer strtod()\'s',
                                'strtof': 'the numeral is rounded to float: only 24 bits of it reach the option\'s double',
                                'atof': 'atof() reports neither trailing garbage nor a value out of range'},
                     'strtol': {'atoi': 'atoi() reports neither trailing garbage nor a value out of range', 'atol': 'atol() reports neither trailing garbage nor a value out of range',
                                'strtoul': 'strtoul() accepts a minus sign and wraps the value', 'strtoull': 'strtoull() accepts a minus sign and wraps the value'}}[name]
            hit = None
            for p in paths:
                for e in p.events:
                    if e.kind == 'call' and e.name in WRONG:
                        hit = hit or e
            if hit is not None:
                chk.rule('R4.13', 'the conversion yields the number in the option\'s own type: text is converted by strtol() for a long and by strtod() for a double, not through a wider, narrower or unchecked relative')
                chk.fail('R4.13', 'conversion-family:%s' % hit.name, c.where(hit.ins), 'cfg_setopt() converts %s values with %s(): %s' % (kind, hit.name, WRONG[hit.name]))
                continue
            raise report.Broken('cfg_setopt() no longer converts %s values with %s(): the conversion site moved, the rule instances must be re-anchored' % (kind, name))
        r41 = r42 = r43 = r44 = r45 = True
        w = {}
        nacc = 0
        for p in ps:
            ev = p.events
            ci = next(i for i, e in enumerate(ev) if e.kind == 'call' and e.name == name)
            call = ev[ci]
            start = call.args[0]
            endp = call.args[1]
            # R4.1: last event before the call among {calls, errno stores} must be errno := 0
            prev = [e for e in ev[:ci] if e.kind == 'call' or (e.kind == 'store' and e.addr == ('errno',))]
            ok1 = bool(prev) and prev[-1].kind == 'store' and prev[-1].val == sym.C0
            if not ok1 and any(sym.mentions(cn_, lambda v: v[0] == 'ld' and v[1] == ('errno',)) for cn_, _t, _i in p.assume):     # (errno that is never looked at needs no clearing)
                r41 = False
                w.setdefault('R4.1', p)
            # tests made on this path after the call
            tests = {'nodigits': None, 'garbage': None, 'range': None}
            tainted_range = False
            # the outcome must not depend on what errno held when the function was entered
            for k2_, (cn2, t2, _i2) in enumerate(p.assume):
                if k2_ >= call.seq and sym.mentions(cn2, lambda v: v[0] == 'ld' and v[1] == ('errno',) and len(v) > 2 and v[2] == (0, 0)):
                    r41 = False
                    w.setdefault('R4.1', p)
            errno_writes = [e.seq for e in ev[ci + 1:] if e.kind == 'store' and e.addr == ('errno',)]
            for k_, (cn, t, ins) in enumerate(p.assume):
                if cn[0] != 'icmp':
                    continue
                a, b = cn[2], cn[3]
                ra, rb = sym.norm(a), sym.norm(b)
                endv = sym.norm(('ld', endp))
                if (ra == endv and rb == sym.norm(start)) or (rb == endv and ra == sym.norm(start)):
                    tests['nodigits'] = ((cn[1] == 'eq') == t)       # True: no digits consumed
                if ra[0] == 'ld' and ra[1] == endv and sym.is_const(b) and b[1] == 0:
                    tests['garbage'] = ((cn[1] == 'ne') == t)        # True: garbage
                if ra == ('ld', ('errno',)) and sym.is_const(b) and b[1] == ERANGE:
                    if any(w_ <= k_ for w_ in errno_writes) and a != ('ld', ('errno',)) and len(a) > 2 and a[2] == (0, 0):
                        continue          # errno was overwritten after the call: this test looks at a restored, older value
                    if any(w_ <= k_ for w_ in errno_writes):
                        tainted_range = True
                        continue
                    tests['range'] = ((cn[1] == 'eq') == t)
            stored = [e for e in ev[ci + 1:] if e.kind == 'store' and e.addr[0] == 'fld' and e.addr[2] in ('cfg_value_t', 'cfg_simple_t')]
            accepted = p.retval != sym.C0
            if accepted:
                nacc += 1
                if tests['nodigits'] is not False:
                    r42 = False
                    w.setdefault('R4.2', p)
                if tests['garbage'] is not False:
                    r43 = False
                    w.setdefault('R4.3', p)
                if tests['range'] is not False:
                    r44 = False
                    w.setdefault('R4.4', p)
                # stored value is the call result
                v = stored[-1].val if stored else None
                if v != call.res:
                    r45 = False
                    w.setdefault('R4.5', p)
            else:
                # rejected: nothing stored, diagnostic emitted (unless the failure is a later allocation etc.)
                rejecting = any(x is True for x in tests.values())
                if rejecting:
                    if stored or not p.calls('cfg_error'):
                        r45 = False
                        w.setdefault('R4.5', p)
        def rep(rule, ok, key, good, badmsg):
            if ok:
                chk.ok(rule, '%s: %d paths (%d accepting)' % (name, len(ps), nacc), good, sample=True)
            else:
                p = w.get(rule)
                call = p.calls(name)[0]
                chk.fail(rule, key + ':' + name, c.where(call.ins), 'cfg_setopt(), %s conversion: %s' % (kind, badmsg),
                         witness=['path condition: ' + fp.cond_text(p, 6)] + [repr(e) for e in p.events[-6:]])
        rep('R4.1', r41, 'stale-errno', 'errno := 0 is the last effect before the call on every path',
            'errno is not cleared before %s(): a stale ERANGE left by earlier code makes a valid number "out of range"' % name)
        rep('R4.2', r42, 'no-digits', 'accepting paths assume endptr != start',
            'an empty numeral (no digits consumed, e.g. "", "0x", "0b") is accepted as 0: the end pointer is never compared with the start of the digits')
        rep('R4.3', r43, 'trailing-garbage', 'accepting paths assume *endptr == 0', 'trailing characters after the numeral are not rejected')
        rep('R4.4', r44, 'range', 'accepting paths assume errno != ERANGE', 'a value outside the representable range is not rejected (errno is not compared with ERANGE)')
        rep('R4.5', r45, 'store-order', 'the slot receives the call result only on the all-tests-passed path; rejecting arms report and store nothing',
            'the value slot is written (or no diagnostic is emitted) on a rejecting path')

    radix_table(c, chk, sites['strtol'])
    boolean_table(c, chk, paths)


def refusal_stops_parse(c, chk):
    """R4.8: a value token that the conversion refuses makes the parse fail - in every parser state that stores values"""
    from .. import parsermodel as pm
    chk.rule('R4.8', 'in every parser state that stores a value a refused value (cfg_setopt() returned NULL) ends the parse with an error')
    model = pm.ParserModel(c)
    n = 0
    for s_ in model.states:
        for tr in model.transitions(s_, pm.TOKENS['STR']):
            so = tr.calls('cfg_setopt')
            if not so:
                continue
            res = so[0].res
            refused = any((lambda na: na is not None and na[0] == res and na[1] is True)(fp.is_null_assumption(cn, t)) for cn, t, _ in tr.assume)
            if not refused:
                continue
            n += 1
            if not (tr.kind == 'ret' and tr.ret == 1):
                chk.fail('R4.8', 'refusal-ignored:state%d' % s_, c.where(so[0].ins), 'parser state %d goes on (%s) after cfg_setopt() refused the value: an invalid number is reported '
                         'but the text is accepted, the option keeps its old value' % (s_, tr.outcome()), witness=[tr.describe()])
                return
    if n:
        chk.ok('R4.8', 'parser: %d refusing transitions' % n, 'each returns STATE_ERROR', sample=True)
    chk.floor('R4.8 refusing transitions', n, 2)


def radix_table(c, chk, ps):
    got = {}
    for p in ps:
        call = p.calls('strtol')[0]
        base = call.args[2]
        if not sym.is_const(base):
            chk.fail('R4.6', 'radix-nonconst', c.where(call.ins), 'the radix passed to strtol() is not a constant on some path (%s)' % sym.render(base))
            return
        # guards on value[0] / value[1]
        g0 = g1 = None
        other1 = False
        for cn, t, ins in p.assume:
            if cn[0] == 'icmp' and sym.is_const(cn[3]):
                r = sym.render(cn[2])
                if r in ('*value',):
                    if cn[3][1] == ord('0'):
                        g0 = ((cn[1] == 'eq') == t)
                if r in ('value[1]',):
                    if (cn[1] == 'eq') == t:
                        g1 = chr(cn[3][1])
            if cn[0] == 'switch-default' and sym.render(cn[1]) == 'value[1]':
                other1 = True
        for k, v in p.known.items():
            if sym.render(k) == 'value[1]':
                g1 = chr(v)
            if sym.render(k) == '*value' and v == ord('0'):
                g0 = True
        if g0 is True and g1 in ('x', 'b'):
            key = '0' + g1
        elif g0 is True:
            key = '0'
        elif g0 is False:
            key = 'other'
        else:
            key = '?'
        off = call.args[0]
        got.setdefault(key, set()).add((base[1], sym.render(off)))
    bad = []
    for key, want in RADIX_REF.items():
        vals = got.get(key)
        if not vals:
            bad.append((key, 'no path for this prefix class'))
            continue
        bases = set(b for b, _ in vals)
        if bases != {want}:
            bad.append((key, 'radix %s' % sorted(bases)))
        offs = set(o for _, o in vals)
        # where the digits may start: strtol(base 16) accepts its own "0x"; base 2 does not know "0b";
        # a leading 0 is itself an octal digit
        wantoff = {'0x': {'&value[2]', 'value'}, '0b': {'&value[2]'}, '0': {'&value[1]', 'value'}, 'other': {'value'}}[key]
        if not offs <= wantoff:
            bad.append((key, 'digits start at %s' % sorted(offs), 'digits-start'))
    if '?' in got:
        bad.append(('?', 'a path reaches strtol() without testing the first character'))
    for ent in bad:
        key, why = ent[0], ent[1]
        kind_ = ent[2] if len(ent) > 2 else 'radix'
        desc = {'0x': 'prefix "0x"', '0b': 'prefix "0b"', '0': 'other leading "0"', 'other': 'no "0" prefix (signed decimal)', '?': 'unclassified'}[key]
        chk.fail('R4.6', '%s:%s' % (kind_, key), c.where(ps[0].calls('strtol')[0].ins) if ps else 'src/confuse.c',
                 'radix selection for %s: expected radix %s, implementation: %s' % (desc, RADIX_REF.get(key, '-'), why)
                 + (' - radix 0 lets strtol() re-detect prefixes, so "-0x10" and "-010" are accepted as hexadecimal/octal' if key == 'other' and 'radix [0]' in why else ''))
    for key, want in RADIX_REF.items():
        if not any(e_[0] == key for e_ in bad):
            chk.ok('R4.6', 'prefix class %s' % key, 'radix %d, digits start at %s' % (want, sorted(o for _, o in got.get(key, []))), sample=True)


def boolean_table(c, chk, setopt_paths):
    fn = c.need('cfg_parse_boolean')
    ex = sym.Explorer(c.modules, max_visits=2, mod_sets=c.mod_sets)
    table = {}
    fallthrough = None
    for p in ex.explore(fn):
        if p.end != 'ret':
            continue
        matched = None
        for cn, t, ins in p.assume:
            if cn[0] == 'icmp':
                for side in (cn[2], cn[3]):
                    if side[0] == 'call' and side[1] in ('strcasecmp', 'strcmp'):
                        ev = next(e for e in p.events if e.kind == 'call' and e.res == side)
                        word = next((a[1] for a in ev.args if a[0] == 'str'), None)
                        if ((cn[1] == 'eq') == t) and word is not None:
                            matched = (word, ev.name)
        if matched:
            table.setdefault(matched[0], set()).add((p.retval[1] if sym.is_const(p.retval) else None, matched[1]))
        elif not any(sym.render(cn) in ('(s ne 0)',) and not t for cn, t, _ in p.assume) and not any(pm.describe_cond(cn) == 's' and not t for cn, t, _ in p.assume):
            fallthrough = p.retval
    if not table:
        # no literal comparisons: a lookup in a constant table?
        table, fallthrough2 = table_lookup(c, fn, ex)
        if fallthrough2 is not None:
            fallthrough = fallthrough2
    bad = []
    for wd, val in BOOL_REF.items():
        got = table.get(wd)
        if not got:
            bad.append('"%s" is not recognised' % wd)
        elif set(v for v, _ in got) != {val}:
            bad.append('"%s" yields %s' % (wd, sorted(v for v, _ in got)))
        elif any(fnm != 'strcasecmp' for _, fnm in got):
            bad.append('"%s" is compared case-sensitively' % wd)
    for wd in table:
        if wd not in BOOL_REF:
            bad.append('extra word "%s" is accepted' % wd)
    if fallthrough != ('c', -1):
        bad.append('an unknown word yields %s instead of CFG_FAIL' % (sym.render(fallthrough) if fallthrough else '?'))
    if bad:
        chk.fail('R4.7', 'boolean-table', c.where(fn), 'cfg_parse_boolean(): ' + '; '.join(bad))
    else:
        chk.ok('R4.7', 'cfg_parse_boolean', '%s, any other word -> CFG_FAIL, case-insensitive' % {k: v for k, v in sorted(BOOL_REF.items())}, sample=True)
    # cfg_setopt turns CFG_FAIL into diagnostic + failure, stores only the converted value
    okb = True
    n = 0
    for p in setopt_paths:
        cb = p.calls('cfg_parse_boolean')
        if not cb:
            continue
        n += 1
        res = cb[0].res
        failed = any(cn[0] == 'icmp' and res in (cn[2], cn[3]) and ('c', -1) in (cn[2], cn[3]) and ((cn[1] == 'eq') == t) for cn, t, _ in p.assume)
        if failed and (p.retval != sym.C0 or not p.calls('cfg_error')):
            okb = False
        if not failed and p.retval != sym.C0:
            st = [e for e in p.events if e.kind == 'store' and e.addr[0] == 'fld' and e.addr[2] == 'cfg_value_t']
            if not st or st[-1].val != res:
                okb = False
    if okb and n:
        chk.ok('R4.7', 'cfg_setopt boolean arm', '%d paths: CFG_FAIL -> cfg_error + NULL; otherwise the converted value is stored' % n)
    else:
        chk.fail('R4.7', 'boolean-arm', c.where(c.need('cfg_setopt')), 'cfg_setopt() does not turn an unrecognised boolean word into a reported failure / stores something else than the converted value')


def table_lookup(c, fn, ex):
    """cfg_parse_boolean() as a loop over a constant table {word, value}: ({word: {(value, comparison)}}, fall-through value).
    One loop iteration is explored with a symbolic index; the iteration must compare the argument itself with the word
    of entry i and return the value of the same entry; the loop must visit every entry (0 .. length-1, step 1)."""
    import re
    from .. import loops as _loops
    mod = fn.module
    out = {}
    for h in sorted(_cfg.natural_loops(fn)):
        hit = None
        full = False
        for p in _loops.iterate(ex, fn, h):
            if p.end == 'ret' and hit is None:
                for cn, t, _ in p.assume:
                    if cn[0] != 'icmp':
                        continue
                    for side in (cn[2], cn[3]):
                        if side[0] == 'call' and side[1] in ('strcasecmp', 'strcmp') and ((cn[1] == 'eq') == t):
                            ev = next(e for e in p.events if e.kind == 'call' and e.res == side)
                            if ('p', 's') not in ev.args:
                                continue          # the comparison must look at the whole argument, not at a copy
                            w = next((a for a in ev.args if a[0] == 'ld' and a[1][0] == 'fld' and a[1][1][0] == 'idx' and a[1][1][1][0] == 'g'), None)
                            rv = p.retval
                            while rv is not None and rv[0] == 'bin' and rv[1] in ('sext', 'zext', 'trunc'):
                                rv = rv[2]
                            if w is not None and rv is not None and rv[0] == 'ld' and rv[1][0] == 'fld' and rv[1][1] == w[1][1]:
                                hit = (w[1][1][1][1], w[1][3], rv[1][3], ev.name, w[1][1][2])
            elif p.end == 'stop' and hit is not None:
                idx = hit[4]
                nm = idx[1] if idx[0] == 'p' else None
                # the index advances by one and the loop is left only when it reaches the table length
                if nm and p.next.get(nm) == ('bin', 'add', idx, ('c', 1)):
                    full = True
        if hit is None or not full:
            continue
        gname, wf, vf, cmpname, idx = hit
        g = mod.globals.get(gname)
        if g is None or not g.get('const') or not g.get('init'):
            continue
        mlen = re.match(r'^\[(\d+) x ', g['ty'] or '')
        entries = re.findall(r'\{\s*i8\*\s+getelementptr[^@]*(@[\w.]+)[^}]*?,\s*i\d+\s+(-?\d+)\s*\}', g['init'])
        if not mlen or len(entries) != int(mlen.group(1)):
            continue
        # loop bound == number of entries
        bound_ok = any(ins.op == 'icmp' and ins.ops[1].kind == 'int' and ins.ops[1].ival == len(entries) for ins in fn.instrs())
        if not bound_ok:
            continue
        for sname, val in entries:
            wd = mod.strings.get(sname)
            if wd is not None:
                out.setdefault(wd, set()).add((int(val), cmpname))
    # the value returned when the loop is left without a match
    fall = None
    for h in sorted(_cfg.natural_loops(fn)):
        for p in _loops.iterate(ex, fn, h):
            if p.end == 'ret' and sym.is_const(p.retval) and not any(
                    cn[0] == 'icmp' and any(sd[0] == 'call' and sd[1] in ('strcasecmp', 'strcmp') for sd in (cn[2], cn[3])) and ((cn[1] == 'eq') == t)
                    for cn, t, _ in p.assume):
                if fall is None or p.retval != ('c', -1):
                    fall = p.retval
    return out, fall


def bulk_converts_all(c, chk):
    """R4.10: "a bulk set containing an unconvertible element at any position" is refused only if every element is handed to
    the conversion: the token loop of cfg_opt_setmulti() starts with the first token and takes them one by one"""
    chk.rule('R4.10', 'the bulk setter hands every token of the vector to the conversion, beginning with the first (none is skipped as "overwritten anyway")')
    fn = c.need('cfg_opt_setmulti')
    ex = sym.Explorer(c.modules, max_visits=3, mod_sets=c.mod_sets, max_paths=100000)
    n = 0
    bad = None
    for p in ex.explore(fn):
        calls = [e for e in p.events if e.kind == 'call' and not e.inlined and e.name == 'cfg_setopt']
        if not calls:
            continue
        n += 1
        want = 0
        for e in calls:
            a = e.args[2] if len(e.args) > 2 else None
            idx = None
            if a is not None and a[0] == 'ld':
                if a[1] == ('p', 'values'):
                    idx = 0
                elif a[1][0] == 'idx' and a[1][1] == ('p', 'values') and sym.is_const(a[1][2]):
                    idx = a[1][2][1]
            if idx != want:
                bad = bad or (p, e, want, a)
                break
            want += 1
    if bad is not None:
        p, e, want, a = bad
        chk.fail('R4.10', 'bulk-skips-token', c.where(e.ins), 'cfg_opt_setmulti() converts %s where token %d of the vector is due (%s): tokens that are never handed to the '
                 'conversion cannot be refused, a vector with an invalid token in front is accepted' % (sym.render(a) if a else '?', want, fp.cond_text(p, 4)))
    elif n:
        chk.ok('R4.10', 'cfg_opt_setmulti: %d paths through the token loop' % n, 'tokens 0, 1, 2, ... in order', sample=True)
    chk.floor('R4.10 paths through the token loop', n, 2)
    # the by-name entry hands the bulk setter the vector and the count it was given (or takes the tokens one by one itself)
    fn2 = c.need('cfg_setmulti')
    n2 = 0
    bad2 = None
    for p in ex.explore(fn2):
        for e in p.events:
            if e.kind != 'call' or e.inlined:
                continue
            if e.name == 'cfg_opt_setmulti' and len(e.args) > 3:
                n2 += 1
                if e.args[2] != ('p', 'nvalues') or e.args[3] != ('p', 'values'):
                    bad2 = bad2 or (p, e, 'hands the bulk setter (%s, %s) instead of the count and the vector it was given' % (sym.render(e.args[2]), sym.render(e.args[3])))
        direct = [e for e in p.events if e.kind == 'call' and not e.inlined and e.name == 'cfg_setopt']
        want = 0
        for e in direct:
            n2 += 1
            a = e.args[2] if len(e.args) > 2 else None
            idx = None
            if a is not None and a[0] == 'ld':
                if a[1] == ('p', 'values'):
                    idx = 0
                elif a[1][0] == 'idx' and a[1][1] == ('p', 'values') and sym.is_const(a[1][2]):
                    idx = a[1][2][1]
            if idx != want:
                bad2 = bad2 or (p, e, 'converts %s where token %d of the vector is due' % (sym.render(a) if a else '?', want))
                break
            want += 1
    if bad2 is not None:
        p, e, why = bad2
        chk.fail('R4.10', 'bulk-by-name-skips-token', c.where(e.ins), 'cfg_setmulti() %s (%s): tokens that are never handed to the conversion cannot be refused, a vector with an '
                 'invalid token in front is accepted' % (why, fp.cond_text(p, 4)))
    elif n2:
        chk.ok('R4.10', 'cfg_setmulti: %d storing calls' % n2, 'the whole vector goes to the bulk setter', sample=True)
    chk.floor('R4.10 storing calls of the by-name bulk setter', n2, 1)


def verdict_is_the_conversions(c, chk):
    """R4.12: whether a token is a numeral is decided by the conversion (strtol/strtod with the radix of the prefix): the store
    refuses a non-NULL token of a number option only after it has been handed to the conversion.  A test of its own in
    front of the conversion (a digit table, a length limit) refuses numerals the conversion takes - upper-case hex digits,
    say - or lets through what it rejects"""
    chk.rule('R4.12', 'a non-NULL token of a number option is refused only after it was handed to strtol()/strtod() (no private pre-validation decides)')
    fn = c.need('cfg_setopt')
    ex = sym.Explorer(c.modules, max_visits=2, mod_sets=c.mod_sets, max_paths=100000)
    n = 0
    bad = None
    for p in ex.explore(fn):
        if p.end != 'ret' or p.retval != sym.C0:
            continue
        facts = set(('' if t else '!') + pm.describe_cond(cn) for cn, t, _ in p.assume)
        kind = 'INT' if 'opt->type eq INT' in facts else 'FLOAT' if 'opt->type eq FLOAT' in facts else None
        if kind is None or 'opt->parsecb' in facts:
            continue
        if '!value' in facts or 'not(value)' in facts:
            continue
        errs = [e for e in p.events if e.kind == 'call' and e.name == 'cfg_error']
        if not errs:
            continue
        n += 1
        conv = [e for e in p.events if e.kind == 'call' and e.name in ('strtol', 'strtod', 'strtoul', 'strtoll')]
        if not conv or p.events.index(conv[0]) > p.events.index(errs[0]):
            bad = bad or (p, errs[0], kind)
    if bad is not None:
        p, e, kind = bad
        chk.fail('R4.12', 'refused-unconverted:%s' % kind, c.where(e.ins), 'cfg_setopt() refuses a token of a%s option with a diagnostic before it has been handed to the conversion (%s): '
                 'what is a numeral is then decided by that test, not by the conversion - e.g. a digit table without the upper-case hex digits refuses "0xFF"'
                 % ('n integer' if kind == 'INT' else ' float', fp.cond_text(p, 4)))
    elif n:
        chk.ok('R4.12', 'cfg_setopt: %d diagnosed refusals of number tokens' % n, 'each after the conversion call', sample=True)
    chk.floor('R4.12 diagnosed refusals of number tokens', n, 4)
