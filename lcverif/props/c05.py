"""C05 - printed configuration parses back to the same configuration (writer/reader agreement only)."""
import re

from .. import sym, lexmodel, parsermodel as pm, report

EXPLANATION = (
    'Static writer/reader agreement, a necessary condition of the round trip (the round trip itself quantifies over '
    'values and is not decided). Reader side, from the flex DFA and the action summaries: the set of bytes that open a '
    'non-literal construct inside a double-quoted string (a first byte b such that some string starting with b is '
    'consumed by a rule that does not simply emit the bytes it matched). Writer side, from the LLVM IR of the value '
    'printer: the set of bytes it compares against and writes with a backslash in front; the escaped form must decode '
    'to the byte itself according to the reader. Obligation: reader-special is a subset of writer-escaped. Every print '
    'format that places a %s between double quotes must receive a string that went through the escaping writer; the '
    'annotation writer must not emit the reader\'s comment terminator inside the comment body.')


def run(c, chk):
    chk.explanation = EXPLANATION
    chk.rule('R5.1', 'every byte the reader treats specially inside "..." is escaped by the value printer, and the escape decodes to that byte')
    chk.rule('R5.2', 'no print format places an unescaped %s between double quotes')
    chk.rule('R5.3', 'the annotation writer cannot emit the comment terminator inside the comment body')
    chk.trusted = ['flex tables', 'clang/opt IR']
    chk.assumptions = ['equality of re-parsed values, list lengths and float precision are not decided']
    lex = c.lex
    dfa = lex.dfa
    K = {r: lexmodel.classify(lex, r) for r in lex.actions}
    literal = {'byte0', 'all', 'skip'}

    def is_literal(r):
        ks = set(re.sub(r'\+line[0-9*]*', '', k) for k in K.get(r, ['?']))
        if len(ks) > 1:
            # the action branches on the matched text: literal iff every firing text yields exactly its own bytes
            w_ = dfa.firing_rules('dq_str').get(r)
            if w_ is not None and len(w_) == 1:
                ks = set(re.sub(r'\+line[0-9*]*', '', k) for k in lexmodel.classes_for(lex, r, w_))
        if ks <= literal:
            return True
        if ks == {'const(10)'} and dfa.match('dq_str', b'\n')[0] == r:
            return True
        return False
    special = dfa.first_bytes('dq_str', lambda r: not is_literal(r))
    special.pop(0, None)        # a NUL byte cannot occur in a C string handed to the printer
    chk.analysed = {'reader_special_bytes': sorted(chr(b) if 32 <= b < 127 else '\\x%02x' % b for b in special)}

    # writer side: every function that writes a lone double quote is a quoting writer
    writers = []
    for f in c.confuse.funcs.values():
        if any(c.string_arg(call, 1) == '"' for call in f.calls('fprintf')):
            writers.append(f)
    if not writers:
        raise report.Broken('no function writes a lone double quote: the quoting writer was not found')
    ex = sym.Explorer(c.modules, max_visits=2, mod_sets=c.mod_sets, max_paths=20000)
    escaped = None
    reported = set()
    fn = writers[0]
    for wf in writers:
        esc = {}
        raw_c = quoted = False
        for p in ex.explore(wf):
            if p.end != 'ret':
                continue
            fps = [e for e in p.events if e.kind == 'call' and e.name == 'fprintf']
            texts = [e.args[1][1] if e.args[1][0] == 'str' else None for e in fps]
            if '"' not in texts:
                continue
            if texts.count('"') >= 2 or (texts and texts[0] == '"'):
                quoted = True
            for k_, (cn, t, ins) in enumerate(p.assume):
                if cn[0] == 'icmp' and cn[1] in ('eq', 'ne') and sym.is_const(cn[3]) and ((cn[1] == 'eq') == t):
                    byte = cn[3][1] & 0xff
                    nxt = [e for e in fps if e.seq > k_]
                    if nxt and nxt[0].args[1][0] == 'str' and len(nxt[0].args) == 2:
                        s_ = nxt[0].args[1][1]
                        if len(s_) == 2 and s_[0] == '\\':
                            esc[byte] = s_
            if any(t == '%c' for t in texts):
                raw_c = True
            # every piece written between the quotes must be a form the reader decodes independently of what follows
            for e in fps:
                t = e.args[1][1] if e.args[1][0] == 'str' else None
                if t in ('"', '%c') or (t is not None and len(t) == 2 and t[0] == '\\' and '%' not in t):
                    continue
                if t == '\\%03o':
                    continue          # fixed-width octal: the reader's 1-3 digit rule takes exactly these three digits
                key = 'writer-escape-form:%s:%s' % (wf.name, t)
                if key not in reported:
                    reported.add(key)
                    chk.fail('R5.1', key, c.where(e.ins), '%s() writes %r inside the quotes: a variable-length or unknown escape form - what the reader decodes '
                             'depends on the characters that follow (e.g. an unpadded octal escape swallows a following digit)' % (wf.name, t))
        if not quoted or not raw_c:
            raise report.Broken('quoting writer %s() was not recognised (quotes=%s, %%c=%s)' % (wf.name, quoted, raw_c))
        if escaped is None:
            escaped = esc
        else:
            # several quoting writers: the weakest one counts
            escaped = {b: v for b, v in escaped.items() if b in esc}
    chk.analysed['quoting_writers'] = [w.name for w in writers]
    chk.analysed['writer_escaped_bytes'] = sorted(chr(b) for b in escaped)
    for b in sorted(special):
        r, w = special[b]
        ch = chr(b) if 32 <= b < 127 else '\\x%02x' % b
        if b in escaped:
            # escape decodes to the byte
            rr, ln = dfa.match('dq_str', escaped[b].encode('latin-1') + b'x')
            if ln == 2 and lexmodel.classes_for(lex, rr, escaped[b].encode('latin-1')) == ['byte1'] and escaped[b][1] == chr(b):
                chk.ok('R5.1', 'byte %r' % ch, 'reader: opens %s (e.g. %r); writer: emits %r, which the reader decodes with %s to the byte itself'
                       % (lex.rule_name(r), w, escaped[b], lex.rule_name(rr)), sample=True)
            else:
                chk.fail('R5.1', 'escape-decodes-wrong:%s' % ch, c.where(fn), 'the printer writes %r for the byte %r but the reader decodes that with %s (%s)'
                         % (escaped[b], ch, lex.rule_name(rr), K.get(rr)))
        else:
            chk.fail('R5.1', 'unescaped-special:%s' % ch, c.where(fn),
                     'inside "...", a string starting with %r is consumed by %s (e.g. %r), but the value printer writes %r unescaped: the printed text does not read back as the same string'
                     % (ch, lex.rule_name(r), w, ch), witness=['reader-special bytes: %s' % sorted(special), 'writer-escaped bytes: %s' % sorted(escaped)])
    for b in sorted(escaped):
        if b not in special:
            rr, ln = dfa.match('dq_str', escaped[b].encode('latin-1') + b'x')
            if not (ln == 2 and lexmodel.classes_for(lex, rr, escaped[b].encode('latin-1')) == ['byte1']):
                chk.fail('R5.1', 'needless-escape-wrong:%s' % chr(b), c.where(fn), 'the printer escapes %r as %r, which the reader does not decode back to that byte' % (chr(b), escaped[b]))
    chk.floor('R5.1 reader-special bytes', len(special), 2)

    # ---- R5.2 ---------------------------------------------------------------------------------
    nfmt = 0
    for f in c.confuse.funcs.values():
        for call in f.calls('fprintf'):
            s_ = c.string_arg(call, 1)
            if not s_:
                continue
            for m in re.finditer(r'"[^"%]*%s[^"]*"', s_):
                nfmt += 1
                # which argument feeds this %s
                k = s_[:m.start() + m.group(0).index('%s')].count('%')
                chk.fail('R5.2', 'raw-quoted:%s' % f.name, c.where(call),
                         '%s() writes %r with an unescaped %%s between double quotes (argument %d): a value containing \'"\', \'\\\\\' or \'${\' does not read back'
                         % (f.name, s_, k + 1))
    # positive evidence: titles go through the escaping writer
    opf = c.need('cfg_opt_print_pff_indent')
    tcalls = [x for x in opf.calls() if x.callee_name() in ('cfg_title',)]
    if nfmt == 0:
        chk.ok('R5.2', 'print formats', 'no format places %s between double quotes; quoted data goes through the escaping writer', sample=True)
    # the helper that prints a quoted string must be the same escaping loop: every fprintf("\"") pair encloses only escaped output
    chk.floor('R5.2 print functions scanned', len([f for f in c.confuse.funcs.values() if any(True for _ in f.calls('fprintf'))]), 4)

    # ---- R5.4: what is printed for a list reads back as that list ------------------------------
    chk.rule('R5.4', 'a list option is never written commented out (an empty list must read back as empty, not as its default)')
    from . import c19
    ins = c19.list_commented_out(c)
    if ins is not None:
        chk.fail('R5.4', 'list-commented', c.where(ins), 'a list option can be written as "# name = {...}": the reader takes that line for a comment and the list gets its declared default back')
    else:
        chk.ok('R5.4', 'list layout', 'no path of the per-option printer writes the comment marker for a list option')

    # ---- R5.3 ---------------------------------------------------------------------------------
    cw = None
    for call in opf.calls('fprintf'):
        s_ = c.string_arg(call, 1)
        if s_ and '/*' in s_ and '%s' in s_ and '*/' in s_:
            cw = call
    if cw is None:
        chk.ok('R5.3', 'annotation writer', 'annotations are not written inside /* */ by a raw %s', nontrivial=False)
    else:
        # can the reader's terminator occur in a stored annotation?  yes: one-line comments and the API accept any text
        chk.fail('R5.3', 'annotation-terminator', c.where(cw),
                 'annotations are written as "/* %s */" without neutralising "*/" in the text: an annotation read from "# a */ b" (or set through the API) '
                 'closes the comment early when the printed file is read back')
