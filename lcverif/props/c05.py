"""C05 - printed configuration parses back to the same configuration (writer/reader agreement only)."""
import re

from .. import outmodel, loops as _loops, cfg as _cfg, sym, lexmodel, parsermodel as pm, report, failpaths as fp_

EXPLANATION = (
    'Static writer/reader agreement, a necessary condition of the round trip (the round trip itself quantifies over '
    'values and is not decided). Reader side, from the flex DFA and the action summaries: the set of bytes that open a '
    'non-literal construct inside a double-quoted string (a first byte b such that some string starting with b is '
    'consumed by a rule that does not simply emit the bytes it matched). Writer side, from the LLVM IR of the value '
    'printer: the set of bytes it compares against and writes with a backslash in front; the escaped form must decode '
    'to the byte itself according to the reader. Obligation: reader-special is a subset of writer-escaped. Every print '
    'format that places a %s between double quotes must receive a string that went through the escaping writer; the '
    'annotation writer must not emit the reader\'s comment terminator inside the comment body.')


PRINT_CALLS = ('cfg_indent', 'cfg_print_quoted', 'cfg_print_pff_indent', 'cfg_opt_print_pff_indent', 'cfg_opt_nprint_var', 'indirect:')


def _shown_absent(p, val, b):
    """the path has shown that the string `val` does not contain the byte b: strchr(val, b) == NULL, strpbrk(val, set) == NULL with b in
    set, or the byte at strcspn(val, set) is the terminator with b in set"""
    for e in p.events:
        if e.kind != 'call' or not e.args or sym.norm(outmodel._strip(e.args[0])) != val:
            continue
        if e.name in ('strchr', 'memchr') and len(e.args) > 1 and sym.is_const(e.args[1]) and (e.args[1][1] & 0xff) == b:
            if any((lambda na: na is not None and na[0] == e.res and na[1] is True)(fp_.is_null_assumption(cn, t)) for cn, t, _ in p.assume):
                return True
        if e.name == 'strpbrk' and len(e.args) > 1 and e.args[1][0] == 'str' and chr(b) in e.args[1][1]:
            if any((lambda na: na is not None and na[0] == e.res and na[1] is True)(fp_.is_null_assumption(cn, t)) for cn, t, _ in p.assume):
                return True
        if e.name == 'strcspn' and len(e.args) > 1 and e.args[1][0] == 'str' and chr(b) in e.args[1][1]:
            for cn, t, _ in p.assume:
                if cn[0] == 'icmp' and cn[1] in ('eq', 'ne') and sym.C0 in (cn[2], cn[3]) and ((cn[1] == 'eq') == t) and \
                        sym.mentions(cn, lambda v: v[0] == 'ld' and sym.mentions(v, lambda w: w == e.res)):
                    return True
    return False


def run(c, chk):
    chk.explanation = EXPLANATION
    chk.rule('R5.1', 'every byte the reader treats specially inside "..." is escaped by the value printer, and the escape decodes to that byte')
    chk.rule('R5.2', 'no print format places an unescaped %s between double quotes, nor between single quotes unless the value was shown free of the bytes the reader decodes there')
    chk.rule('R5.3', 'the annotation writer cannot emit the comment terminator inside the comment body')
    chk.trusted = ['flex tables', 'clang/opt IR']
    chk.assumptions = ['equality of re-parsed values, list lengths and float precision are not decided']
    lex = c.lex
    dfa = lex.dfa
    K = {r: lexmodel.classify(lex, r) for r in lex.actions}
    literal = {'byte0', 'all', 'skip'}

    def is_literal(r):
        ks = set(re.sub(r'\+line[0-9*]*', '', k) for k in K.get(r, ['?']))
        if len(ks) > 1:
            # the action branches on the matched text: literal iff every firing text yields exactly its own bytes
            w_ = dfa.firing_rules('dq_str').get(r)
            if w_ is not None and len(w_) == 1:
                ks = set(re.sub(r'\+line[0-9*]*', '', k) for k in lexmodel.classes_for(lex, r, w_))
        if ks <= literal:
            return True
        if ks == {'const(10)'} and dfa.match('dq_str', b'\n')[0] == r:
            return True
        return False
    special = dfa.first_bytes('dq_str', lambda r: not is_literal(r))
    special.pop(0, None)        # a NUL byte cannot occur in a C string handed to the printer
    chk.analysed = {'reader_special_bytes': sorted(chr(b) if 32 <= b < 127 else '\\x%02x' % b for b in special)}

    # writer side: every function that writes a lone double quote is a quoting writer
    writers = []
    for f in c.confuse.funcs.values():
        if f.name in c.unknown_funcs:
            continue
        if any(lit == '"' for g in c.deep_funcs(f) for _, lit in outmodel.static_literals(c, g)):
            writers.append(f)
    if not writers:
        raise report.Broken('no function writes a lone double quote: the quoting writer was not found')
    ex = sym.Explorer(c.modules, max_visits=2, mod_sets=c.mod_sets, max_paths=20000)
    escaped = None
    reported = set()
    fn = writers[0]
    for wf in writers:
        # (a) whatever the function writes is enclosed in double quotes
        quoted = False
        for p in ex.explore(wf):
            if p.end != 'ret':
                continue
            text, _ = outmodel.render(outmodel.tokens(p.events))
            if not text:
                continue
            if len(text) >= 2 and text[0] == '"' and text[-1] == '"':
                quoted = True
            else:
                quoted = False
                break
        # (b) one iteration of the copying loop: what is written for which byte
        esc = {}
        raw_c = False
        for h in sorted(_cfg.natural_loops(wf)):
            for p in _loops.iterate(ex, wf, h):
                if p.end != 'stop':
                    continue
                toks = outmodel.tokens(p.events)
                if not toks:
                    continue
                spec = {}
                for cn, t, ins in p.assume:
                    if cn[0] == 'icmp' and cn[1] in ('eq', 'ne') and sym.is_const(cn[3]) and ((cn[1] == 'eq') == t):
                        x = outmodel._strip(cn[2])
                        if x[0] == 'ld':
                            spec[sym.norm(x)] = cn[3][1] & 0xff
                # membership in a constant set: strchr("...", byte) found something (the loop guard excludes the terminator)
                member = {}
                for e in p.events:
                    if e.kind == 'call' and e.name in ('strchr', 'memchr') and len(e.args) > 1 and e.args[0][0] == 'str':
                        x = outmodel._strip(e.args[1])
                        if x[0] == 'ld' and any(fp_.is_null_assumption(cn, t) and fp_.is_null_assumption(cn, t)[0] == e.res and not fp_.is_null_assumption(cn, t)[1]
                                                for cn, t, _ in p.assume):
                            member[sym.norm(x)] = e.args[0][1]
                # span idiom: n = strcspn(str, SET); fwrite(str, 1, n); then "\\%c" of str[n] - the stretch holds no byte of SET
                # (strcspn), the byte behind it is one of SET or the terminator (which the guard excludes)
                spans = [e for e in p.events if e.kind == 'call' and e.name == 'strcspn' and len(e.args) > 1 and e.args[1][0] == 'str']
                if spans:
                    rest = []
                    for t in toks:
                        ev = t[-1]
                        sp = next((e for e in spans if ev is not None and getattr(ev, 'kind', None) == 'call'), None)
                        if t[0] == 'arg' and ev is not None and ev.name == 'fwrite' and any(sym.norm(ev.args[0]) == sym.norm(e.args[0]) and outmodel._strip(ev.args[2]) == e.res
                                                                                          and ev.args[1] == ('c', 1) for e in spans):
                            raw_c = True
                            continue
                        rest.append(t)
                    if len(rest) == 2 and rest[0][0] == 'lit' and rest[0][1] == '\\' and rest[1][0] == 'arg' and rest[1][1] == '%c':
                        v_ = outmodel._strip(rest[1][2])
                        for e in spans:
                            if v_[0] == 'ld' and sym.norm(v_[1]) == sym.norm(('idx', e.args[0], e.res)):
                                for ch_ in e.args[1][1]:
                                    esc[ord(ch_)] = '\\' + ch_
                                rest = []
                                break
                    if not rest:
                        continue
                    toks = rest if len(rest) != len(toks) else toks
                byte = None
                form = ''
                setform = None
                for t in toks:
                    if t[0] == 'arg' and t[1] == '%c' and sym.norm(outmodel._strip(t[2])) in member and form == '\\' and len(toks) == len([x for x in toks if x[0] in ('lit', 'arg')]):
                        setform = member[sym.norm(outmodel._strip(t[2]))]
                    if t[0] == 'lit':
                        form += t[1]
                        continue
                    v = sym.norm(outmodel._strip(t[2])) if t[0] == 'arg' else None
                    if t[0] == 'arg' and v is not None and v[0] == 'ld':
                        if t[1] == '%c':
                            form += chr(spec[v]) if v in spec else '\x01'
                        else:
                            form += '\x01' + t[1]
                        if v in spec:
                            byte = spec[v]
                    else:
                        form += '\x02'
                if byte is None and len(spec) == 1 and '\x01' not in form and '\x02' not in form:
                    byte = list(spec.values())[0]
                if setform is not None and form == '\\\x01':
                    for ch_ in setform:
                        esc[ord(ch_)] = '\\' + ch_
                    continue
                if form == '\x01' or (byte is not None and form == chr(byte)):
                    raw_c = raw_c or byte is None
                    continue
                if byte is not None and len(form) == 2 and form[0] == '\\':
                    esc[byte] = form
                    continue
                if form == '\\\x01%03o':
                    continue          # fixed-width octal: the reader's 1-3 digit rule takes exactly these three digits
                shown = form.replace('\x01', '<byte>').replace('\x02', '<?>')
                key = 'writer-escape-form:%s:%s' % (wf.name, shown)
                if key not in reported:
                    reported.add(key)
                    chk.fail('R5.1', key, c.where(toks[0][-1].ins), '%s() writes %r inside the quotes: a variable-length or unknown escape form - what the reader decodes '
                             'depends on the characters that follow (e.g. an unpadded octal escape swallows a following digit)' % (wf.name, shown))
        if not quoted or not raw_c:
            raise report.Broken('quoting writer %s() was not recognised (quotes=%s, plain bytes copied=%s)' % (wf.name, quoted, raw_c))
        if escaped is None:
            escaped = esc
        else:
            # several quoting writers: the weakest one counts
            escaped = {b: v for b, v in escaped.items() if b in esc}
    chk.analysed['quoting_writers'] = [w.name for w in writers]
    chk.analysed['writer_escaped_bytes'] = sorted(chr(b) for b in escaped)
    for b in sorted(special):
        r, w = special[b]
        ch = chr(b) if 32 <= b < 127 else '\\x%02x' % b
        if b in escaped:
            # escape decodes to the byte
            rr, ln = dfa.match('dq_str', escaped[b].encode('latin-1') + b'x')
            if ln == 2 and lexmodel.classes_for(lex, rr, escaped[b].encode('latin-1')) == ['byte1'] and escaped[b][1] == chr(b):
                chk.ok('R5.1', 'byte %r' % ch, 'reader: opens %s (e.g. %r); writer: emits %r, which the reader decodes with %s to the byte itself'
                       % (lex.rule_name(r), w, escaped[b], lex.rule_name(rr)), sample=True)
            else:
                chk.fail('R5.1', 'escape-decodes-wrong:%s' % ch, c.where(fn), 'the printer writes %r for the byte %r but the reader decodes that with %s (%s)'
                         % (escaped[b], ch, lex.rule_name(rr), K.get(rr)))
        else:
            chk.fail('R5.1', 'unescaped-special:%s' % ch, c.where(fn),
                     'inside "...", a string starting with %r is consumed by %s (e.g. %r), but the value printer writes %r unescaped: the printed text does not read back as the same string'
                     % (ch, lex.rule_name(r), w, ch), witness=['reader-special bytes: %s' % sorted(special), 'writer-escaped bytes: %s' % sorted(escaped)])
    for b in sorted(escaped):
        if b not in special:
            rr, ln = dfa.match('dq_str', escaped[b].encode('latin-1') + b'x')
            if not (ln == 2 and lexmodel.classes_for(lex, rr, escaped[b].encode('latin-1')) == ['byte1']):
                chk.fail('R5.1', 'needless-escape-wrong:%s' % chr(b), c.where(fn), 'the printer escapes %r as %r, which the reader does not decode back to that byte' % (chr(b), escaped[b]))
    chk.floor('R5.1 reader-special bytes', len(special), 2)

    # ---- R5.2 ---------------------------------------------------------------------------------
    Ksq = {r: lexmodel.classify(lex, r) for r in lex.actions}

    def is_literal_sq(r):
        ks = set(re.sub(r'\+line[0-9*]*', '', k) for k in Ksq.get(r, ['?']))
        return ks <= literal or ks == {'const(10)'}
    special_sq = dfa.first_bytes('sq_str', lambda r: not is_literal_sq(r))
    special_sq.pop(0, None)
    chk.analysed['reader_special_bytes_single_quoted'] = sorted(chr(b) if 32 <= b < 127 else '\\x%02x' % b for b in special_sq)
    nfmt = 0
    nprinters = 0
    ex2 = sym.Explorer(c.modules, max_visits=2, mod_sets=c.mod_sets, max_paths=200000)
    for f in c.confuse.funcs.values():
        if c.is_helper(f.name) or not any(outmodel.writes_anything(g) for g in c.deep_funcs(f)):
            continue
        nprinters += 1
        hit = None
        hit_sq = None
        for p in ex2.explore(f):
            if p.end != 'ret':
                continue
            toks = outmodel.tokens(p.events, calls=PRINT_CALLS)
            # a stretch written with fwrite(str, 1, strcspn(str, SET)) holds no byte of SET: where SET covers the reader's
            # special bytes it is plain text, not a raw %s
            spans = {e.res: e for e in p.events if e.kind == 'call' and e.name == 'strcspn' and len(e.args) > 1 and e.args[1][0] == 'str'}
            toks = [t for t in toks if not (t[0] == 'arg' and t[-1] is not None and t[-1].name == 'fwrite' and outmodel._strip(t[-1].args[2]) in spans and
                                            sym.norm(spans[outmodel._strip(t[-1].args[2])].args[0]) == sym.norm(t[-1].args[0]) and
                                            all(chr(b) in spans[outmodel._strip(t[-1].args[2])].args[1][1] for b in special))]
            text, index = outmodel.render(toks)
            m = re.search(r'"[^"\x00]*%s[^"\x00]*"', text)
            if m:
                k = index[m.start() + m.group(0).index('%s')]
                hit = (toks[k], m.group(0))
                break
        # the same between single quotes: '...' is raw for every byte except the ones the reader decodes there (from the DFA:
        # the backslash and the quote).  A path may write a value so only when it has shown that the value holds none of them
        for p in ex2.explore(f):
            if p.end != 'ret' or hit_sq is not None:
                continue
            toks = outmodel.tokens(p.events, calls=PRINT_CALLS)
            text, index = outmodel.render(toks)
            for m in re.finditer(r"'[^'\x00]*%s[^'\x00]*'", text):
                t = toks[index[m.start() + m.group(0).index('%s')]]
                val = sym.norm(outmodel._strip(t[2]))
                missing = [b for b in sorted(special_sq) if not _shown_absent(p, val, b)]
                if missing:
                    hit_sq = (t, m.group(0), missing)
                    break
        if hit_sq:
            nfmt += 1
            t, frag, missing = hit_sq
            chk.fail('R5.2', 'raw-single-quoted:%s' % f.name, c.where(t[-1].ins),
                     '%s() writes %s as a raw %%s between single quotes (%r) on a path that has not shown the value to be free of %s: inside \'...\' the reader '
                     'decodes these (a doubled backslash reads back as one, backslash-newline disappears, a quote ends the string)'
                     % (f.name, sym.render(t[2]), frag, ', '.join(repr(chr(b)) for b in missing)))
        if hit:
            nfmt += 1
            t, frag = hit
            chk.fail('R5.2', 'raw-quoted:%s' % f.name, c.where(t[-1].ins),
                     '%s() writes %s as a raw %%s between double quotes (%r): a value containing \'"\', \'\\\\\' or \'${\' does not read back'
                     % (f.name, sym.render(t[2]), frag))
    # positive evidence: titles go through the escaping writer
    opf = c.need('cfg_opt_print_pff_indent')
    if nfmt == 0:
        chk.ok('R5.2', 'print paths of %d functions' % nprinters, 'no path writes a raw %s between double quotes; quoted data goes through the escaping writer', sample=True)
    chk.floor('R5.2 print functions scanned', nprinters, 4)

    # ---- R5.4: what is printed for a list reads back as that list ------------------------------
    chk.rule('R5.4', 'a list option is never written commented out (an empty list must read back as empty, not as its default)')
    from . import c19
    ins = c19.list_commented_out(c)
    if ins is not None:
        chk.fail('R5.4', 'list-commented', c.where(ins), 'a list option can be written as "# name = {...}": the reader takes that line for a comment and the list gets its declared default back')
    else:
        chk.ok('R5.4', 'list layout', 'no path of the per-option printer writes the comment marker for a list option')

    # ---- R5.5: the empty list the printer writes ("name = {}") reads back as an empty list ----------------
    chk.rule('R5.5', 'the reader recognises "name = {}" as empty wherever it stands: its element counter restarts at every list assignment and counts every element')
    from . import c01
    c01.element_counter(c, chk, pm.ParserModel(c), None, 'R5.5')

    # ---- R5.13 / R5.14: what is printed is what a fresh parse of the print gives back only if the tree holds what its text said:
    # a section stored again gets its defaults like the first one; a refused setter call does not unset a scalar (an unset scalar is
    # printed as a comment line and reads back as the default)
    if not isinstance(chk, report.SubCheck):
        from . import c01 as _c01s, c08 as _c08s, c10 as _c10s
        _c01s.section_store(c, _c08s.chk_proxy(chk, {'R1.11': 'R5.13'}), sym.Explorer(c.modules, max_visits=2, mod_sets=c.mod_sets, max_paths=60000))
        chk.rule('R5.14', 'the slot accessor and the indexed setters refuse before they touch the option (rule R10.1 of C10): a refused call does not leave a scalar without its value')
        _c10s.analyse(c, _c08s.chk_proxy(chk, {'R10.1': 'R5.14', 'R10.2': 'R5.14'}), 'R10.1', 'R10.2',
                      funcs=('cfg_opt_getval', 'cfg_opt_setnint', 'cfg_opt_setnfloat', 'cfg_opt_setnbool', 'cfg_opt_setnstr'))

    # ---- R5.6: an annotation reaches a fixed point: it is printed as "/* text */" and read back trimmed ----
    from . import c15
    c15.trailing_trim(c, chk, 'R5.6')

    # ---- R5.7: what the printer writes for a number ("%ld", "%f", true/false) is what the reader converts exactly ----
    from . import c04
    chk.rule('R5.7', 'the reader converts the printer\'s number and boolean texts exactly or refuses them (the rules of C04)')
    sub = report.SubCheck(chk, 'R5.7', 'C04')
    c04.run(c, sub)
    sub.done('value conversion')

    # ---- R5.12: print/parse reaches a fixed point: a comment line replaces the pending annotation, it is never added to it
    if not isinstance(chk, report.SubCheck):
        from . import c15 as _c15x
        chk.rule('R5.12', 'a comment token has no effect other than replacing the pending annotation (rule R15.1 of C15): the "# name=value" line of an unset option does not grow the next annotation')
        sub15 = report.SubCheck(chk, 'R5.12', 'C15', only=('R15.1',))
        _c15x.run(c, sub15)
        sub15.done('comment tokens')
    # ---- R5.15: an option is written commented out only when it has no value (rule R19.5 of C19): a value that is written as
    # "# name=value" reads back as the declared default
    if not isinstance(chk, report.SubCheck):
        from . import c19 as _c19x
        chk.rule('R5.15', 'a scalar that has a value is never written as a comment line (rule R19.5 of C19): the reader would restore the declared default in its place')
        sub19 = report.SubCheck(chk, 'R5.15', 'C19', only=('R19.5',))
        _c19x.run(c, sub19)
        sub19.done('commented-out options')
    if not isinstance(chk, report.SubCheck):
        from . import c03 as _c03x
        chk.rule('R5.11', 'strings are decoded by the reference table (the rules of C03): every byte the printer writes raw between quotes reads back as itself')
        sub3 = report.SubCheck(chk, 'R5.11', 'C03')
        _c03x.run(c, sub3)
        sub3.done('string decoding')
    # ---- R5.10: the printed text is read from the scanner's initial state
    if not isinstance(chk, report.SubCheck):
        from . import c08 as _c08x
        chk.rule('R5.10', 'every scan begins in the initial start condition (rule R8.1 of C08): the printed text is not read as the continuation of an earlier comment or string')
        sub8 = report.SubCheck(chk, 'R5.10', 'C08', only=('R8.1',))
        _c08x.run(c, sub8)
        sub8.done('scanner start state')

    # ---- R5.9: a section header carries a title exactly when the reader demands one ----------------------
    section_headers(c, chk, ex2)

    # ---- R5.8: the text of a printed number is one word for the reader --------------------------------
    number_formats(c, chk, ex2)

    # ---- R5.3 ---------------------------------------------------------------------------------
    cw = None
    for p in ex2.explore(opf):
        if p.end != 'ret':
            continue
        toks = outmodel.tokens(p.events, calls=PRINT_CALLS)
        text, index = outmodel.render(toks)
        m = re.search(r'/\*[^\x00]*?(%s)[^\x00]*?\*/', text)
        if m:
            t = toks[index[m.start(1)]]
            if sym.mentions(t[2], lambda v: v[0] == 'fld' and v[3] == 'comment'):
                cw = t[-1].ins
                break
    if cw is None:
        chk.ok('R5.3', 'annotation writer', 'annotations are not written inside /* */ by a raw %s', nontrivial=False)
    else:
        # can the reader's terminator occur in a stored annotation?  yes: one-line comments and the API accept any text
        chk.fail('R5.3', 'annotation-terminator', c.where(cw),
                 'annotations are written as "/* %s */" without neutralising "*/" in the text: an annotation read from "# a */ b" (or set through the API) '
                 'closes the comment early when the printed file is read back')


CONV = re.compile(r'^%([-+ #0]*)(\d+|\*)?(?:\.(\d+|\*))?(hh|h|ll|l|L|z|j|t|q)?([diouxXeEfFgGaAcsp])$')


def conversion_alphabet(spec):
    """(first characters, all characters) a printf conversion of a number can produce; None when it is not a numeric conversion"""
    m = CONV.match(spec)
    if not m:
        return None
    flags, conv = m.group(1), m.group(5)
    digits = '0123456789'
    if conv in 'di':
        first, rest = '-' + digits, digits
    elif conv == 'u':
        first, rest = digits, digits
    elif conv in 'fF':
        first, rest = '-' + digits + ('in' if conv == 'f' else 'IN'), digits + '.' + ('infa' if conv == 'f' else 'INFA')
    elif conv in 'eEgG':
        e = 'e' if conv in 'eg' else 'E'
        first, rest = '-' + digits + ('in' if conv in 'eg' else 'IN'), digits + '.+-' + e + ('infa' if conv in 'eg' else 'INFA')
    elif conv in 'xX':
        first = rest = digits + ('abcdef' if conv == 'x' else 'ABCDEF') + ('xX' if '#' in flags else '')
    elif conv == 'o':
        first = rest = '01234567'
    elif conv in 'aA':
        first, rest = '-0', digits + 'abcdefABCDEF.xXpP+-'
    else:
        return None
    if '+' in flags:
        first += '+'
    if ' ' in flags:
        first += ' '
    if m.group(2) and '0' not in flags and '-' not in flags:
        first += ' '          # padded with blanks on the left
    if m.group(2) and '-' in flags:
        rest += ' '
    return first, rest, conv, flags


def number_formats(c, chk, ex):
    """R5.8: a number is written bare (no quotes).  Whatever characters its printf conversion can produce must therefore stay
    inside ONE unquoted word of the scanner, and an integer must be written in a radix the reader selects by prefix"""
    chk.rule('R5.8', 'every character a number\'s print conversion can produce continues one unquoted word of the scanner; integers are written in a radix the reader recognises')
    lex = c.lex
    dfa = lex.dfa
    word, ln = dfa.match('INITIAL', b'a1 ')
    if word is None or ln != 2:
        raise report.Broken('the unquoted-word rule of the scanner was not found')
    n = 0
    seen = set()
    for f in c.confuse.funcs.values():
        if c.is_helper(f.name) or not any(outmodel.writes_anything(g) for g in c.deep_funcs(f)):
            continue
        for p in ex.explore(f):
            if p.end != 'ret':
                continue
            for t in outmodel.tokens(p.events, calls=PRINT_CALLS):
                if t[0] != 'arg' or not sym.mentions(t[2], lambda v: (v[0] == 'fld' and v[3] in ('number', 'fpnumber')) or
                                                     (v[0] == 'call' and re.match(r'^cfg_(opt_)?getn?(int|float)$', v[1]))):
                    continue
                if (f.name, t[1]) in seen:
                    continue
                seen.add((f.name, t[1]))
                al = conversion_alphabet(t[1])
                if al is None:
                    continue
                n += 1
                first, rest, conv, flags = al
                badc = [ch for ch in sorted(set(rest)) if dfa.match('INITIAL', b'1' + ch.encode() + b'1 ') != (word, 3)]
                badf = [ch for ch in sorted(set(first)) if dfa.match('INITIAL', ch.encode() + b'1 ') != (word, 2)]
                where = c.where(t[-1].ins)
                if badc or badf:
                    chk.fail('R5.8', 'number-not-one-word:%s:%s' % (f.name, t[1]), where,
                             '%s() writes a number with "%s", which can produce %s: the scanner does not keep %s inside an unquoted word '
                             '(e.g. an exponent is written "1e+15", and "+" ends the word), so the printed value does not read back'
                             % (f.name, t[1], ', '.join(repr(x) for x in (badc + badf)), 'that character' if len(badc + badf) == 1 else 'those characters'))
                elif conv in 'xXo' and '#' not in flags or conv in 'u':
                    chk.fail('R5.8', 'number-radix:%s:%s' % (f.name, t[1]), where, '%s() writes an integer with "%s": the reader picks the radix from the prefix (0x, 0, none) '
                             'and a signed decimal otherwise, so the text reads back as a different number' % (f.name, t[1]))
                else:
                    chk.ok('R5.8', '%s: "%s"' % (f.name, t[1]), 'all of %r continue an unquoted word' % ''.join(sorted(set(first + rest))), sample=True)
    chk.floor('R5.8 numeric print conversions', n, 2)


def section_headers(c, chk, ex):
    """R5.9: after the name of a section option the reader demands a title iff the option carries CFGF_TITLE (whether or not
    an instance happens to have one).  The writer must take the same decision from the same flag: a header with a title
    for an option without the flag, or without one for an option with it, is a syntax error when read back"""
    chk.rule('R5.9', 'the section header is written with a title exactly on the paths where the option carries CFGF_TITLE (the reader\'s criterion)')
    # reader side: the parser decides by the flag
    model = pm.ParserModel(c)
    reader = False
    for tr in model.transitions(0, pm.TOKENS['STR']):
        if any(pm.describe_cond(cn).endswith('->flags has TITLE') for cn, t, _ in tr.assume):
            reader = True
    if not reader:
        raise report.Broken('the parser no longer decides by CFGF_TITLE whether a title follows a section name')
    n = 0
    bad = None
    for f in c.confuse.funcs.values():
        if c.is_helper(f.name) or not any(outmodel.writes_anything(g) for g in c.deep_funcs(f)):
            continue
        for p in ex.explore(f):
            if p.end != 'ret':
                continue
            toks = outmodel.tokens(p.events, calls=PRINT_CALLS)
            text, index = outmodel.render(toks)
            hs = list(re.finditer(r'%s (\x00cfg_print_quoted\x00 ?|"?%s"? )?\{\n', text))
            if not hs:
                continue
            for m in hs:
                n += 1
                # the decision in force where this header is written (the flag word is read again after every nested print)
                k_ = index[m.end() - 1]
                upto = toks[k_ + 1][-1].seq if k_ + 1 < len(toks) else len(p.assume)       # whatever is written next: the title decision lies before it
                flag = None
                for cn, t, _ in p.assume[:upto]:
                    d = pm.describe_cond(cn)
                    if d == 'opt->flags has TITLE':
                        flag = t
                    elif d == 'not(opt->flags has TITLE)':
                        flag = not t
                titled = m.group(1) is not None
                if flag is None or titled != flag:
                    bad = bad or (f, toks[index[m.start()]], titled, flag)
    if bad is not None:
        f, t, titled, flag = bad
        chk.fail('R5.9', 'header-title-criterion:%s' % f.name, c.where(t[-1].ins),
                 '%s() writes a section header %s a title on a path where %s: the reader demands a title exactly when the option carries CFGF_TITLE, '
                 'so e.g. a titled single section (whose instance has no title of its own) is printed as "name {" and rejected when read back'
                 % (f.name, 'with' if titled else 'without', 'CFGF_TITLE was not consulted' if flag is None else 'the option %s CFGF_TITLE' % ('has' if flag else 'lacks')))
    elif n:
        chk.ok('R5.9', 'section headers on %d print paths' % n, 'title written iff opt->flags has CFGF_TITLE', sample=True)
    chk.floor('R5.9 section headers on print paths', n, 2)
