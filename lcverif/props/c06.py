"""C06 - rejected input is always reported, with the right file and line."""
import json
import os

from .. import sym, lexmodel, parsermodel as pm, failpaths as fp, report, cfg as _cfg

EXPLANATION = (
    'Static analysis: (1) every residual path of the extracted parser table that ends in the error return, every failing '
    'return path of cfg_setopt, of the name resolver, of call_function, cfg_include and cfg_lexer_include, and every '
    'scanner action path returning 0 is classified from the data source of its branch conditions: it must carry a '
    'cfg_error() call, or be an allocation failure, a user-callback veto, a NULL-argument guard, or the failure of a '
    'callee that is itself covered; anything else is a silent rejection. (2) No diagnostic may lie on an accepting '
    'path (including diagnostics emitted inside a summarised callee). (3) For every scanner rule the number of '
    'cfg->line increments on every action path must equal the number of newlines the rule can match, computed from '
    'the DFA with a saturating newline counter. (4) The include push and pop sites must save/restore the same position '
    'fields and the parent<->section hand-over of the line number must exist in both directions.')

ACCEPTED = ('diagnosed', 'alloc', 'veto', 'cb-out', 'nullarg', 'callee', 'io')


def load_allow():
    p = os.path.join(report.VERIF, 'spec', 'silent_failures.allow.json')
    with open(p) as fh:
        return json.load(fh)


def run(c, chk):
    chk.explanation = EXPLANATION
    chk.rule('R6.1', 'every failing exit of the parser and of its failing callees is diagnosed (or is an allocation failure / callback veto / NULL-argument guard)')
    chk.rule('R6.2', 'every scanner action that returns 0 and every failing return of the include function reports first')
    chk.rule('R6.3', 'no diagnostic is emitted on an accepting path')
    chk.rule('R6.4', 'per scanner rule: line increments on every action path == newlines the rule can match')
    chk.rule('R6.5', 'include push/pop save and restore the same position fields; section line hand-over in both directions')
    chk.trusted = ['flex tables', 'clang/opt IR', 'spec/silent_failures.allow.json (reviewed reasons)']
    chk.assumptions = ['message texts and the exact reported line for a given text are not computed; the line-count '
                       'invariant per rule is what makes them right', 'user callbacks report their own vetoes (documented contract)']
    allow = load_allow()
    model = pm.ParserModel(c)
    lex = c.lex
    dfa = lex.dfa
    fa = fp.FailAnalysis(c, alloc_only={'cfg_addval', 'cfg_dupopt_array', 'cfg_addopt'},
                         diagnosing={'cfg_setopt', 'cfg_parse_internal', 'call_function', 'cfg_getopt', 'cfg_lexer_include',
                                     'cfg_getopt_secidx', 'cfg_searchpath', 'cfg_tilde_expand'})
    chk.analysed = {'parser_states': len(model.states), 'lexer_rules': dfa.num_rules}

    ALIAS = {'cfg_getopt': 'cfg_getopt_secidx'}       # the by-name lookup the parser uses, when it is a function of its own

    def allowed(fn, cond):
        for a in allow:
            if a['function'] in (fn, ALIAS.get(fn)) and a['condition'] == cond:
                return a
        return None

    # ---- state invariant: opt is non-null on entry to every state but "expecting a name" -------
    nonnull = model.opt_nonnull_states()
    chk.analysed['states_with_nonnull_opt'] = sorted(nonnull)

    # ---- R6.1 parser -----------------------------------------------------------------------------
    nerr = 0
    silent_seen = set()
    for s, tok, trs in model.table():
        for tr in trs:
            if not (tr.kind == 'ret' and tr.ret == 1):
                continue
            if s in nonnull and tr.assumes('opt', False):
                continue            # infeasible: opt is non-null in this state
            nerr += 1
            if tok == pm.TOKENS['ERR']:
                continue            # scanner error: R6.2
            cls, det = fa.classify(model.fn, tr.path)
            site = 'state %d x %s: %s' % (s, pm.TOKNAME.get(tok, tok), ' && '.join(x for x in tr.cond() if x not in ('comment', '!comment', 'opttitle', '!opttitle'))[-90:])
            if cls in ACCEPTED:
                continue
            key = 'parser:state%d:%s:%s' % (s, pm.TOKNAME.get(tok, tok), fp.cond_key(tr.path))
            if key in silent_seen:
                continue
            silent_seen.add(key)
            chk.fail('R6.1', key, c.where(tr.path.last_ins), 'the parser rejects the input in state %d on token %s without any diagnostic (%s)'
                     % (s, pm.TOKNAME.get(tok, tok), fp.cond_text(tr.path)), witness=[tr.describe()])
    chk.ok('R6.1', 'cfg_parse_internal: %d failing residual paths' % nerr,
           'each carries cfg_error() or is an allocation failure / callback veto / failure of a covered callee' if not silent_seen else 'see violations',
           sample=True)
    chk.floor('R6.1 failing residual paths of the parser', nerr, 100)

    # callees
    def judge(fname, is_failure, filt=None, **kw):
        fn = c.need(fname)
        summ = fa.summary(fn, is_failure, **kw)
        n = 0
        seen = set()
        for p, cls, det in summ.paths:
            if filt and not filt(p):
                continue
            n += 1
            if cls in ACCEPTED:
                continue
            ck = fp.cond_key(p)
            if (fname, ck) in seen:
                continue
            seen.add((fname, ck))
            a = allowed(fname, ck)
            if a:
                chk.ok('R6.1', '%s: %s' % (fname, ck), 'allowed: ' + a['reason'], nontrivial=False)
                continue
            chk.fail('R6.1', 'callee:%s:%s' % (fname, ck), c.where(p.last_ins),
                     '%s() fails without a diagnostic when %s' % (fname, fp.cond_text(p)),
                     witness=['events: ' + '; '.join(repr(e) for e in p.events[-6:])])
        chk.ok('R6.1', '%s: %d failing paths' % (fname, n), 'classes: %s' % dict(summ.classes), sample=True)
        return n

    def flag_off(p):
        t = [('' if tr else '!') + pm.describe_cond(cn) for cn, tr, _ in p.assume]
        return 'cfg->flags has IGNORE_UNKNOWN' not in t

    n1 = judge('cfg_setopt', lambda v: v == sym.C0)
    gfn = c.need('cfg_getopt_secidx')
    if any(True for _ in c.need('cfg_getopt').calls('cfg_getopt_secidx')):
        n2 = judge('cfg_getopt_secidx', lambda v: v == sym.C0, filt=flag_off, env={gfn.params[2].name: sym.C0})
    else:
        # the lookup the parser calls is a function of its own (it shares the section walk with the index variant)
        n2 = judge('cfg_getopt', lambda v: v == sym.C0, filt=flag_off)
    # ... and the "not found" that is the NULL of the leaf lookup handed on (not a constant): the parser gives up on it without a word
    # of its own ("cfg_getopt() reports all but the empty name"), so the lookup must have reported - unless the context the parser is
    # reading is itself a free-form one, where the parser goes on to create the key
    nn = 0
    if any(True for _ in c.need('cfg_getopt').calls('cfg_getopt_secidx')):
        lookup_paths = fa.paths(gfn, env={gfn.params[2].name: sym.C0})
    else:
        lookup_paths = fa.paths(c.need('cfg_getopt'))
    for p in lookup_paths:
        if p.end != 'ret' or p.retval is None or p.retval == sym.C0 or not flag_off(p):
            continue
        handed = any((lambda na: na is not None and na[1] and na[0] == p.retval)(fp.is_null_assumption(cn, t)) for cn, t, _ in p.assume)
        if not handed:
            continue
        nn += 1
        if p.calls('cfg_error'):
            continue
        conds = [('' if t else '!') + pm.describe_cond(cn) for cn, t, _ in p.assume]
        if 'cfg->flags has KEYSTRVAL' in conds:
            continue
        # (identity of the finding: which flag test made the lookup keep quiet)
        quiet_for_keyval = any(x.endswith('->flags has KEYSTRVAL') and not x.startswith('!') and not x.startswith('cfg->flags') for x in conds)
        why_quiet = ['KEYSTRVAL-of-a-section-reached-by-path'] if quiet_for_keyval else [fp.cond_key(p)]
        chk.fail('R6.1', 'resolver-silent-not-found:%s' % '+'.join(why_quiet), c.where(p.last_ins) if p.last_ins is not None else c.where(gfn),
                 'cfg_getopt_secidx() returns "not found" without a diagnostic although the context the parser reads is not a free-form one (%s): the parser then rejects the '
                 'text in silence - e.g. "kv|newkey" = 1 where kv is a CFGF_KEYSTRVAL section reached by path' % fp.cond_text(p, 5))
    chk.floor('R6.1 not-found paths of the resolver', nn, 2)
    n3 = judge('call_function', lambda v: v != sym.C0)
    n4 = judge('cfg_include', lambda v: v != sym.C0)
    chk.floor('R6.1 failing paths of cfg_setopt', n1, 50)
    chk.floor('R6.1 failing paths of the resolver', n2, 10)

    # ---- R6.2 -------------------------------------------------------------------------------------
    nz = 0
    for r in sorted(lex.actions):
        for ap in lex.actions[r]:
            if ap.returns and ap.retval == sym.C0:
                nz += 1
                if ap.of('error'):
                    chk.ok('R6.2', '%s returns 0' % lex.rule_name(r), 'after cfg_error(%r)' % ap.of('error')[0][1], sample=True)
                else:
                    chk.fail('R6.2', 'lexer-silent:%s' % dfa.rule_text.get(r), 'src/lexer.l:%d' % dfa.rule_line.get(r, 0),
                             '%s makes the parse fail (returns 0) without a diagnostic' % lex.rule_name(r), witness=[ap.describe()])
    for scn, aps in lex.eof_actions.items():
        for ap in aps:
            if ap.returns and ap.retval == sym.C0:
                nz += 1
                if ap.of('error'):
                    chk.ok('R6.2', '<%s><<EOF>> returns 0' % scn, 'after cfg_error(%r)' % ap.of('error')[0][1])
                else:
                    chk.fail('R6.2', 'lexer-silent-eof:%s' % scn, 'src/lexer.l:%d' % dfa.eof_line.get(scn, 0),
                             'end of input in <%s> makes the parse fail without a diagnostic' % scn)
    chk.floor('R6.2 scanner paths returning 0', nz, 3)
    n5 = judge('cfg_lexer_include', lambda v: v != sym.C0)
    chk.floor('R6.2 failing returns of cfg_lexer_include', n5, 4)

    # ---- R6.3 -------------------------------------------------------------------------------------
    nacc = 0
    reported_rd = set()
    for s, tok, trs in model.table():
        for tr in trs:
            if tr.kind == 'ret' and tr.ret == 1:
                continue
            nacc += 1
            if tr.errors():
                chk.fail('R6.3', 'diag-on-accept:state%d:%s' % (s, pm.TOKNAME.get(tok, tok)), c.where(tr.calls('cfg_error')[0].ins),
                         'state %d on token %s emits %r but goes on parsing' % (s, pm.TOKNAME.get(tok, tok), tr.errors()), witness=[tr.describe()])
            # a not-found name resolution may report by itself: is there a diagnosing not-found path of the
            # resolver whose flag assumptions are consistent with this accepting path?
            if tr.calls('cfg_getopt') and any(pm.NOTFOUND.match(x) for x in tr.cond()):
                mine = flag_facts(tr.cond())
                for rp in resolver_diag_paths(c, fa):
                    theirs = flag_facts([('' if t else '!') + pm.describe_cond(cn) for cn, t, _ in rp.assume])
                    if all(mine.get(k, v) == v for k, v in theirs.items()):
                        e = tr.calls('cfg_getopt')[0]
                        msg = rp.calls('cfg_error')[0]
                        fmt = msg.args[1][1] if msg.args[1][0] == 'str' else '?'
                        simple = not any('strndup' == x.name for x in rp.events if x.kind == 'call')
                        # (the flag that makes the parser accept is part of the identity: a report under
                        # ignore-unknown is another defect than one in a free-form section)
                        on = '+'.join(sorted(k.split(' has ')[1] for k, v in mine.items() if v)) or 'none'
                        k_ = 'resolver-diag-on-accept:state%d:%s:%s' % (s, 'simple' if simple else 'path', on)
                        if k_ in reported_rd:
                            continue
                        reported_rd.add(k_)
                        chk.fail('R6.3', k_, c.where(e.ins),
                                 'state %d accepts a name that cfg_getopt() did not find (%s), but cfg_getopt() has already reported %r%s'
                                 % (s, ' && '.join(x for x in tr.cond() if 'flags' in x and 'opt->' not in x), fmt,
                                    '' if simple else ' (name containing a path separator)'), witness=[tr.describe()])
    sfn = c.need('cfg_setopt')
    bad = [p for p in fa.paths(sfn) if p.retval != sym.C0 and p.calls('cfg_error')]
    if bad:
        chk.fail('R6.3', 'setopt-diag-on-success', c.where(bad[0].calls('cfg_error')[0].ins), 'cfg_setopt() emits a diagnostic on a path that returns success')
    for r in sorted(lex.actions):
        for ap in lex.actions[r]:
            if ap.of('error') and not (ap.returns and ap.retval == sym.C0):
                chk.fail('R6.3', 'lexer-diag-on-accept:%s' % dfa.rule_text.get(r), 'src/lexer.l:%d' % dfa.rule_line.get(r, 0),
                         '%s emits a diagnostic but the scan continues' % lex.rule_name(r), witness=[ap.describe()])
    chk.ok('R6.3', '%d accepting residual paths of the parser, cfg_setopt success paths, scanner actions' % nacc,
           'no cfg_error() on any of them' , sample=True)

    # ---- R6.4 -------------------------------------------------------------------------------------
    nrules = 0
    conds = dfa.rule_conditions()
    for r in sorted(lex.actions):
        if r == dfa.default_rule:
            continue
        counts = set()
        for scn in conds.get(r, []):
            counts |= dfa.newline_counts(scn).get(r, set())
        if not counts:
            continue
        nrules += 1
        bad = None
        badap = None
        if counts <= {0, 1} and len(counts) == 1:
            want = list(counts)[0]
            for ap in lex.actions[r]:
                n, loop = ap.line_incs()
                if n != want or loop:
                    bad = 'the rule matches exactly %d newline(s) but this action path adds %s to cfg->line' % (
                        want, ('%d' % n if n is not None else 'an unknown amount') + (' (in a loop)' if loop else ''))
                    badap = ap
                    break
        else:
            # the match can span 0, 1 or more newlines: the action has to count them:
            # every increment sits in a loop under a compare of a byte of the matched text with '\n',
            # and at least one path has it
            have = False
            for ap in lex.actions[r]:
                tot, _lp = ap.line_incs()
                nl = newline_hits(ap)
                if tot is None:
                    bad = 'the rule can match %s newlines but an action path adds an amount to cfg->line that is not a count of newlines' % sorted(counts)
                    badap = ap
                elif tot != nl:
                    # per-newline increments in the loop, or a counter added once after it: either way the total on a
                    # path equals the number of bytes of the text found to be a newline on that path
                    bad = 'the rule can match %s newlines but an action path adds %d to cfg->line after having found %d newline(s) in the text' % (sorted(counts), tot, nl)
                    badap = ap
                elif tot:
                    have = True
            if not have and not bad:
                bad = 'the rule can match %s newlines but the action does not count them' % sorted(counts)
                badap = lex.actions[r][0]
            # the count must run over the whole match: the text must not have been cut (a NUL stored at a searched
            # position) before the counting loop has seen it
            if not bad:
                for ap in lex.actions[r]:
                    cut = truncated_before_count(ap)
                    if cut is not None:
                        bad = ('the action stores a NUL into the matched text at %s before it counts the newlines: newlines after that '
                               'position (e.g. in the default part of ${NAME:-default}) are not added to cfg->line' % sym.render(cut.addr))
                        badap = ap
                        break
        if bad:
            chk.fail('R6.4', 'line:%s' % dfa.rule_text.get(r), 'src/lexer.l:%d' % dfa.rule_line.get(r, 0),
                     '%s: %s' % (lex.rule_name(r), bad), witness=['path: ' + badap.describe()])
        else:
            chk.ok('R6.4', lex.rule_name(r), 'newline counts %s == line increments on all %d action path(s)' % (sorted(counts), len(lex.actions[r])),
                   sample=(counts != {0}))
    chk.floor('R6.4 scanner rules', nrules, 28)

    # ---- R6.5 -------------------------------------------------------------------------------------
    include_position(c, chk, lex)
    section_handover(c, chk, model)
    error_always_delivered(c, chk)
    whole_source_scanned(c, chk)
    if not isinstance(chk, report.SubCheck):
        # R6.8: "includes nested too deeply" is a rejection like any other: it is reported (with the position of the include()
        # line) on every path that would otherwise push one level too many (rule R13.2 of C13: every push is behind the depth test)
        from . import c13 as _c13d
        chk.rule('R6.8', 'an include nested too deeply is refused with its diagnostic before anything is pushed (rule R13.2 of C13): the depth test dominates every write into the include stack')
        sub13 = report.SubCheck(chk, 'R6.8', 'C13', only=('R13.2',))
        _c13d.run(c, sub13)
        sub13.done('include depth')
    # parse bracket: cfg_parse_fp sets line = 1 before the first token and maps STATE_ERROR to the parse-error code
    pfn = c.need('cfg_parse_fp')
    ex = sym.Explorer(c.modules, max_visits=2, mod_sets=c.mod_sets)
    okb = True
    for p in ex.explore(pfn):
        if p.end != 'ret':
            continue
        calls = p.calls('cfg_parse_internal')
        if not calls:
            continue
        st = [e for e in p.stores('line') if e.val == sym.C1]
        if not st or p.events.index(st[0]) > p.events.index(calls[0]):
            okb = False
            chk.fail('R6.5', 'bracket-line', c.where(pfn), 'cfg_parse_fp() does not reset cfg->line to 1 before parsing')
            break
        res = calls[0].res
        fails = any(cn[0] == 'icmp' and res in (cn[2], cn[3]) and ('c', 1) in (cn[2], cn[3]) and ((cn[1] == 'eq') == t) for cn, t, _ in p.assume)
        if fails and p.retval != ('c', 1):
            okb = False
            chk.fail('R6.5', 'bracket-code', c.where(pfn), 'cfg_parse_fp() does not return CFG_PARSE_ERROR when the parser failed')
            break
    if okb:
        chk.ok('R6.5', 'cfg_parse_fp', 'line := 1 before the first token; STATE_ERROR -> CFG_PARSE_ERROR')


_RDP = {}


def resolver_diag_paths(c, fa):
    if 'p' not in _RDP:
        fn = c.need('cfg_getopt_secidx')
        ps = fa.paths(fn, env={fn.params[2].name: sym.C0})
        def returns_null(p):
            if p.retval == sym.C0:
                return True
            for cn, t, _ in p.assume:
                na = fp.is_null_assumption(cn, t)
                if na and na[1] and na[0] == p.retval:
                    return True      # the NULL result of the leaf lookup handed on
            return False
        _RDP['p'] = [p for p in ps if returns_null(p) and p.calls('cfg_error')]
    return _RDP['p']


def flag_facts(conds):
    """{('cfg', FLAG): bool} from condition strings like 'cfg->flags has KEYSTRVAL'"""
    out = {}
    for x in conds:
        neg = x.startswith('!')
        y = x[1:] if neg else x
        if y.startswith('not(') and y.endswith(')'):
            y = y[4:-1]
            neg = not neg
        if y.startswith('cfg->flags has '):
            out[y] = not neg
    return out


def newline_hits(ap):
    """number of assumptions on this path saying that a byte reached from the matched text is a newline"""
    n = 0
    for cn, t, _ in ap.path.assume:
        if cn[0] == 'icmp' and cn[1] in ('eq', 'ne') and ('c', 10) in (cn[2], cn[3]) and ((cn[1] == 'eq') == t):
            other = cn[2] if cn[3] == ('c', 10) else cn[3]
            if sym.mentions(other, lambda v: v == ('g', '@cfg_yytext')):
                n += 1
    # a search for the next newline that found one: strchr(<place in the text>, '\\n') != NULL
    from .. import failpaths as _fp
    for e in ap.events:
        if e.kind == 'call' and e.name in ('strchr', 'memchr') and len(e.args) > 1 and e.args[1] == ('c', 10) and sym.mentions(e.args[0], lambda v: v == ('g', '@cfg_yytext')):
            if any((lambda na: na is not None and na[0] == e.res and na[1] is False)(_fp.is_null_assumption(cn, t)) for cn, t, _ in ap.path.assume):
                n += 1
    return n


def newline_guard(ap):
    """some assumption on this path says a byte reached from yytext equals '\\n'"""
    for cn, t, _ in ap.path.assume:
        if cn[0] == 'icmp' and cn[1] in ('eq', 'ne') and ('c', 10) in (cn[2], cn[3]) and ((cn[1] == 'eq') == t):
            other = cn[2] if cn[3] == ('c', 10) else cn[3]
            if sym.mentions(other, lambda v: v == ('g', '@cfg_yytext')):
                return True
    return False


def include_position(c, chk, lex):
    fn = c.lexer.funcs.get('cfg_lexer_include')
    if fn is None:
        raise report.Broken('cfg_lexer_include() not found')
    ex = sym.Explorer([c.lexer], max_visits=2, mod_sets=lex.mod_sets)
    pushed = None
    for p in ex.explore(fn):
        if p.end == 'ret' and p.retval == sym.C0:
            saved = set()
            stale = None
            for e in p.events:
                if e.kind == 'store' and e.addr[0] == 'fld' and sym.root_of(e.addr) == ('g', '@cfg_include_stack'):
                    saved.add(e.addr[3])
                    # what is saved must be the position of the including source: the value cfg->line / cfg->filename
                    # had on entry, not something this function has already overwritten
                    if e.addr[3] in ('f1', 'f2', 'filename', 'line'):
                        v = e.val
                        want = 'filename' if e.addr[3] in ('f1', 'filename') else 'line'
                        entry = v[0] == 'ld' and v[1][0] == 'fld' and v[1][3] == want and sym.root_of(v[1]) == ('p', 'cfg') and len(v) > 2 and v[2][0] == 0
                        if not entry:
                            stale = (want, v)
            line1 = any(e.field == 'line' and e.val == sym.C1 and sym.root_of(e.addr) == ('p', 'cfg') for e in p.events if e.kind == 'store')
            newname = any(e.field == 'filename' and sym.root_of(e.addr) == ('p', 'cfg') for e in p.events if e.kind == 'store')
            pushed = (saved, line1, newname, p, stale)
    # every diagnostic of the include function names the position of the include() call: it is issued before the
    # context's position is switched to the included file
    for p2 in ex.explore(fn):
        if p2.end != 'ret':
            continue
        sw = [i for i, e in enumerate(p2.events) if e.kind == 'store' and e.addr[0] == 'fld' and e.addr[3] in ('filename', 'line') and sym.root_of(e.addr) == ('p', 'cfg')]
        er = [i for i, e in enumerate(p2.events) if e.kind == 'call' and e.name == 'cfg_error']
        if sw and er and er[-1] > sw[0]:
            chk.fail('R6.5', 'include-diag-after-switch', c.where(p2.events[er[-1]].ins),
                     'cfg_lexer_include() reports an error after it has switched cfg->filename / cfg->line to the included file: the diagnostic names '
                     'line 1 of the file that could not be read instead of the place of the include() call')
            return
    if pushed is None:
        raise report.Broken('cfg_lexer_include() has no success path')
    saved, line1, newname, p, stale = pushed
    # pop side: the EOF action path that pops
    restored = set()
    popfields = set()
    for scn, aps in lex.eof_actions.items():
        for ap in aps:
            if any(x[0] == 'call' and x[1] == 'cfg_scan_fp_end' for x in ap.effects):
                for e in ap.events:
                    if e.kind == 'store' and sym.root_of(e.addr) == ('p', 'cfg') and e.addr[0] == 'fld':
                        restored.add(e.addr[3])
                        # value must come from the include stack slot, same field
                        v = e.val
                        if v[0] == 'ld' and v[1][0] == 'fld' and sym.root_of(v[1]) == ('g', '@cfg_include_stack'):
                            popfields.add(v[1][3])
    names = {'f0': 'fp', 'f1': 'filename', 'f2': 'line'}
    sv = set(names.get(x, x) for x in saved)
    pf = set(names.get(x, x) for x in popfields)
    if stale:
        chk.fail('R6.5', 'include-push-stale:%s' % stale[0], c.where(fn), 'include push saves %s as the %s of the suspended source instead of the value it had when include() was called: '
                 'after the included file ends the including file continues at the wrong position' % (sym.render(stale[1]), stale[0]))
    elif not ({'filename', 'line'} <= sv):
        chk.fail('R6.5', 'include-push', c.where(fn), 'include push saves %s of the suspended source, expected filename and line' % sorted(sv))
    elif not line1 or not newname:
        chk.fail('R6.5', 'include-push-reset', c.where(fn), 'include push does not restart the position (cfg->line = 1, cfg->filename = included file)')
    elif not ({'filename', 'line'} <= pf and {'filename', 'line'} <= restored):
        chk.fail('R6.5', 'include-pop', 'src/lexer.l:%d' % lex.dfa.eof_line.get('INITIAL', 0),
                 'include pop restores %s from the saved slot, expected filename and line' % sorted(pf))
    else:
        chk.ok('R6.5', 'include push/pop', 'push saves {fp, filename, line} and restarts at line 1; pop restores filename and line from the same slot', sample=True)


INSPECTORS = {'strlen', 'strspn', 'strcspn', 'strchr', 'strrchr', 'memchr', 'strpbrk', 'strcmp', 'strncmp', 'strcasecmp', 'strncasecmp', 'strstr', 'strnlen', 'isspace'}
STREAM_READERS = {'fgetc', 'getc', 'fread', 'fgets', 'fscanf', 'fseek', 'fseeko', 'ungetc', 'getline', 'getdelim', 'rewind', 'fsetpos', 'lseek', 'read'}


def _prefix_without_newline(p, src, moved):
    """the text between src and moved was shown to hold no newline: a span over a byte set without '\\n', or a constant number of
    bytes each of which was compared equal to something else (a byte-order mark, a signature)"""
    if moved[0] != 'idx' or moved[1] != src:
        return False
    off = moved[2]
    while off[0] == 'bin' and off[1] in ('sext', 'zext', 'trunc'):
        off = off[2]
    if off[0] == 'call' and off[1] == 'strspn':
        for e in p.events:
            if e.kind == 'call' and e.res == off and len(e.args) > 1 and e.args[0] == src and e.args[1][0] == 'str':
                return '\n' not in e.args[1][1]
        return False
    if sym.is_const(off) and 0 < off[1] <= 8:
        for i in range(off[1]):
            place = sym.norm(('ld', ('idx', src, ('c', i)))) if i else None
            ok = False
            for cn, t, _ in p.assume:
                if cn[0] == 'icmp' and cn[1] in ('eq', 'ne') and ((cn[1] == 'eq') == t):
                    k = cn[3] if sym.is_const(cn[3]) else (cn[2] if sym.is_const(cn[2]) else None)
                    other = cn[2] if k is cn[3] else cn[3]
                    if k is None or (k[1] & 0xff) == 10:
                        continue
                    o = other
                    while o[0] == 'bin' and o[1] in ('sext', 'zext', 'trunc'):
                        o = o[2]
                    if o[0] == 'ld' and (sym.norm(o[1]) == sym.norm(('idx', src, ('c', i))) or (i == 0 and o[1] == src)):
                        ok = True
            if not ok:
                return False
        return True
    return False


def whole_source_scanned(c, chk, rid='R6.7'):
    """R6.7: line numbers count the newlines the *scanner* sees (R6.4).  They are the lines of the caller's text only if the scanner
    sees that text from its first byte: the buffer entry point hands on the pointer it was given, not one moved past some
    prefix, and no entry point reads from the stream before the scanner does"""
    chk.rule(rid, 'the scanner sees the source from its first byte: the buffer entry point passes its argument on unmoved, and nothing reads from a stream ahead of the scanner')
    ex = sym.Explorer(c.modules, max_visits=2, mod_sets=c.mod_sets, max_paths=20000)
    n = 0
    bad = None
    fn = c.need('cfg_parse_buf')
    src = None
    for prm in fn.params:
        nm = fn.param_names.get(prm.name, prm.name)
        if prm.ty.endswith('*') and prm.ty.startswith('i8'):
            src = ('p', nm)
    if src is None:
        raise report.Broken('cfg_parse_buf() has no text parameter')
    for p in ex.explore(fn):
        if p.end != 'ret':
            continue
        handed = False
        for e in p.events:
            if e.kind != 'call' or e.name in INSPECTORS:
                continue
            for a in e.args:
                a_ = a
                while a_[0] == 'bin' and a_[1] in ('bitcast', 'sext', 'zext', 'trunc'):
                    a_ = a_[2]
                if a_ == src:
                    handed = True
                elif a_[0] in ('idx', 'bin', 'gep') and sym.mentions(a_, lambda v: v == src) and not sym.mentions(a_, lambda v: v[0] == 'ld'):
                    if not _prefix_without_newline(p, src, a_):
                        bad = bad or (p, e, a_)
        if handed:
            n += 1
    if bad is not None:
        p, e, a_ = bad
        chk.fail(rid, 'source-prefix-skipped', c.where(e.ins), 'cfg_parse_buf() hands %s() the text moved on by %s instead of the text it was given: what lies before that point never reaches '
                 'the scanner, so the newlines in it are not counted and every diagnostic names a line that is too small' % (e.name, sym.render(a_)))
    else:
        chk.ok(rid, 'cfg_parse_buf: %d paths that hand the text on' % n, 'each passes the argument itself')
    chk.floor('%s paths of cfg_parse_buf that hand the text on' % rid, n, 1)
    # stream entry points: nothing consumes input ahead of the scanner
    nr = 0
    for f in c.confuse.funcs.values():
        for call in f.calls():
            if call.callee_name() in STREAM_READERS:
                nr += 1
                chk.fail(rid, 'stream-read-ahead:%s:%s' % (f.name, call.callee_name()), c.where(call), '%s() reads from a stream with %s(): input consumed outside the scanner is not counted in the '
                         'line numbers of later diagnostics' % (f.name, call.callee_name()))
    if nr == 0:
        chk.ok(rid, 'confuse.c', 'no function reads from or repositions a stream (the scanner is the only reader)')


def error_always_delivered(c, chk):
    """R6.6: "has delivered at least one diagnostic to the error function": R6.1 shows that every failing exit calls cfg_error();
    this rule shows that cfg_error() delivers - on every path it hands the message to the installed function or writes it
    to the standard error stream.  No path (a "same message as last time" filter, a verbosity switch) drops it"""
    chk.rule('R6.6', 'cfg_error() delivers every message: each of its paths calls the installed error function or writes the message to stderr')
    fn = c.need('cfg_error')
    ex = sym.Explorer(c.modules, max_visits=2, mod_sets=c.mod_sets, max_paths=20000)
    n = 0
    bad = None
    for p in ex.explore(fn):
        if p.end != 'ret':
            continue
        n += 1
        delivered = any(e.kind == 'call' and (e.name == 'indirect:errfunc' or e.name in ('vfprintf', 'fprintf', 'fputs', 'vfprintf_unlocked')) for e in p.events)
        if not delivered:
            bad = bad or p
    if bad is not None:
        chk.fail('R6.6', 'message-dropped', c.where(bad.last_ins) if bad.last_ins is not None else c.where(fn),
                 'cfg_error() can return without having delivered the message (%s): a parse that is rejected on that path returns the error code but the application '
                 'never hears why' % fp.cond_text(bad, 4))
    elif n:
        chk.ok('R6.6', 'cfg_error: %d paths' % n, 'each calls cfg->errfunc or writes to stderr', sample=True)
    chk.floor('R6.6 paths of cfg_error', n, 2)


def section_handover(c, model_chk, model):
    chk = model_chk
    LB = pm.TOKENS['{']
    found = False
    for s in model.states:
        for tr in model.transitions(s, LB):
            rec = tr.calls('cfg_parse_internal')
            if not rec or tr.kind != 'next':
                continue
            found = True
            ev = tr.events
            ri = ev.index(rec[0])
            down = [e for e in ev[:ri] if e.kind == 'store' and e.field == 'line' and sym.render(e.val) == 'cfg->line']
            up = [e for e in ev[ri:] if e.kind == 'store' and e.field == 'line' and sym.root_of(e.addr) == ('p', 'cfg')]
            named = [e for e in ev[:ri] if e.kind == 'store' and e.field == 'filename' and sym.root_of(e.addr)[0] == 'call'
                     and e.val[0] == 'call' and e.val[1] == 'strdup']
            has_name_path = any(tr2.kind == 'next' and [e for e in tr2.events if e.kind == 'store' and e.field == 'filename' and e.val[0] == 'call']
                                for tr2 in model.transitions(s, LB) if tr2.calls('cfg_parse_internal'))
            if not has_name_path:
                chk.fail('R6.5', 'section-filename', c.where(rec[0].ins),
                         'the section context is not given the current file name before its body is parsed: a section created at initialisation reports errors without a file name')
                return
            # every entry into a section body (also a second one, from another file) hands over the CURRENT name
            stale = None
            for tr2 in model.transitions(s, LB):
                if tr2.kind != 'next' or not tr2.calls('cfg_parse_internal'):
                    continue
                r2 = tr2.events.index(tr2.calls('cfg_parse_internal')[0])
                # (every entry on which the parent was not shown to have no name: also one that never asks)
                no_name = any(cn[0] == 'icmp' and cn[3] == sym.C0 and sym.norm(cn[2]) == ('ld', ('fld', ('p', 'cfg'), 'cfg_t', 'filename')) and ((cn[1] == 'eq') == t)
                              for cn, t, _ in tr2.assume)
                if no_name:
                    continue
                dups = [e for e in tr2.events[:r2] if e.kind == 'call' and e.name == 'strdup' and sym.norm(e.args[0]) == ('ld', ('fld', ('p', 'cfg'), 'cfg_t', 'filename'))]
                failed = any(fp.is_null_assumption(cn, t) and fp.is_null_assumption(cn, t)[1] and any(fp.is_null_assumption(cn, t)[0] == d.res for d in dups)
                             for cn, t, _ in tr2.assume)
                stored = any(e.kind == 'store' and e.field == 'filename' and any(e.val == d.res for d in dups) for e in tr2.events[:r2])
                if not stored and not failed:
                    stale = tr2
            if stale is not None:
                chk.fail('R6.5', 'section-filename-stale', c.where(rec[0].ins),
                         'a section body can be entered without the section taking the name of the file being read now (%s): a section opened again from '
                         'another file reports its errors under the first file\'s name' % ' && '.join(stale.cond()[-3:]))
                return
            # whatever can report in the parent's name after the body was read (the section's validation callback, a
            # diagnostic of the parser itself) must find the parent at the line where the section ends
            late = None
            for tr2 in model.transitions(s, LB):
                r2 = tr2.calls('cfg_parse_internal')
                if not r2:
                    continue
                i2 = tr2.events.index(r2[0])
                ups = [k for k, e in enumerate(tr2.events) if k > i2 and e.kind == 'store' and e.field == 'line' and sym.root_of(e.addr) == ('p', 'cfg')]
                for k, e in enumerate(tr2.events):
                    if k > i2 and e.kind == 'call' and (e.name.startswith('indirect:') or e.name == 'cfg_error') and e.args and e.args[0] == ('p', 'cfg') \
                            and not any(u < k for u in ups):
                        late = late or e
            # the section reports through the error function of the context it is read in (an application's function is
            # installed on the root after cfg_init() has created the sections: each entry hands it down one level)
            herr = [e for e in ev[:ri] if e.kind == 'store' and e.field == 'errfunc' and sym.render(e.val) == 'cfg->errfunc' and sym.root_of(e.addr) != ('p', 'cfg')]
            if not herr:
                chk.fail('R6.5', 'section-errfunc', c.where(rec[0].ins), 'the section context is not given the error function of its parent before its body is parsed: a diagnostic '
                         'issued inside a section that existed before the function was installed never reaches it')
                return
            if not down:
                chk.fail('R6.5', 'section-line-down', c.where(rec[0].ins), 'the section context does not inherit the current line before its body is parsed')
            elif late is not None:
                chk.fail('R6.5', 'section-line-late', c.where(late.ins), 'after a section body was read, %s is called with the parent context before the parent has taken over '
                         'the line number: a diagnostic issued there names the line of the opening brace instead of the line the section ends on'
                         % (late.name.replace('indirect:', 'the callback ') + '()'))
            elif not up:
                chk.fail('R6.5', 'section-line-up', c.where(rec[0].ins), 'the parent does not take over the line number after the section body was parsed')
            else:
                chk.ok('R6.5', 'section body (state %d)' % s, 'file name and line handed to the section before the recursive parse; line taken back after it')
            return
    if not found:
        raise report.Broken('no recursive section parse found in the extracted table')


def truncated_before_count(ap):
    """the store event that cuts the matched text short before the newline-counting loop starts, or None"""
    evs = ap.path.events
    first = next((i for i, e in enumerate(evs) if e.kind == 'store' and e.field == 'line' and e.in_loop), None)
    if first is None:
        return None
    ytext = sym.norm(('ld', lexmodel.YYTEXT))

    def in_text(v, depth=0):
        if depth > 6:
            return False
        if sym.mentions(sym.norm(v), lambda x: x == ytext):
            return True
        r = sym.root_of(v)
        if r[0] == 'call' and r[1] in ('strchr', 'strrchr', 'strstr', 'memchr', 'strpbrk'):
            ev = next((e for e in evs if e.kind == 'call' and e.res == r), None)
            return ev is not None and in_text(ev.args[0], depth + 1)
        if v[0] in ('idx', 'fld') and v[1][0] == 'p':
            return False
        return False
    for e in evs[:first]:
        if e.kind == 'store' and e.val == sym.C0 and e.addr[0] in ('idx', 'call') and in_text(e.addr):
            # the closing delimiter (last byte, index strlen-1) may go: it is not a newline
            if e.addr[0] == 'idx' and sym.mentions(e.addr[2], lambda x: x[0] == 'call' and x[1] == 'strlen') and sym.root_of(e.addr[1]) == ('g', lexmodel.YYTEXT[1]) :
                continue
            if e.addr[0] == 'idx' and sym.mentions(e.addr[2], lambda x: x[0] == 'call' and x[1] == 'strlen'):
                continue
            return e
    return None
