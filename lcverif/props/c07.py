"""C07 - everything acquired is released exactly once on every path.

Per-function, all-paths ownership analysis.  Allocation-failure paths are
C18's (same engine); here every other path of every hand-written function is
analysed, the parser loop through its extracted transition table.
"""
from .. import sym, ownership as ow, parsermodel as pm, report, cfg as _cfg

EXPLANATION = (
    'Static ownership analysis over the LLVM IR: every residual path (loops unrolled once) of every hand-written '
    'function of confuse.c and lexer.l is enumerated by path-sensitive constant propagation; every object acquired on '
    'a path (malloc/calloc/strdup/strndup/realloc/fopen/fmemopen and the library\'s own fresh-returning functions) '
    'must be released, returned or stored into memory that outlives the call; a pointer released out of a struct field '
    'must be overwritten (or its container released) before the function returns; a second release is reported. The '
    'parser loop is analysed per (state, token) through the extracted transition table with its loop-carried owners '
    '(pending comment, pending title, the function-call argument vector) as typestate. Further rules: every release of '
    'a sub-section clears the shared search-path pointer first; a by-value copy of an option record must not leave an '
    'owner field live in both copies; user pointers go through the release callback; the include stack is closed at '
    'the pop site and unwound by the parse bracket on its failing exit.')

T = pm.TOKENS
HANDWRITTEN_LEXER = ('qputc', 'qput', 'qbeg', 'qend', 'qstr', 'trim_whitespace', 'cfg_lexer_include', 'cfg_scan_fp_begin', 'cfg_scan_fp_end')
ALLOC_FAIL_CALLS = set(ow.ALLOCATORS) | set(ow.FRESH_RETURNING) | {'cfg_addval', 'cfg_addopt'}


def is_alloc_failure_path(path):
    for v, isnull in ow.null_facts(path).items():
        if isnull and v[0] == 'call' and v[1] in ALLOC_FAIL_CALLS:
            return True
    return False


def run(c, chk, alloc_failure=False):
    chk.explanation = EXPLANATION
    chk.rule('R7.1', 'no leak: every object acquired on a path is released, returned or stored into memory that outlives the call')
    chk.rule('R7.2', 'no dangling owner / double release: a released pointer does not stay in a field, nothing is released twice')
    chk.rule('R7.3', 'every release of a sub-section is preceded by clearing its shared search-path pointer')
    chk.rule('R7.4', 'a by-value copy of an option record does not leave an owner field live in both copies when one is released')
    chk.rule('R7.5', 'a user pointer value is handed to the release callback exactly once before its slot is overwritten or freed')
    chk.rule('R7.6', 'include files are closed where they are popped, and the parse bracket unwinds the include stack on its failing exit')
    chk.trusted = ['clang/opt IR', 'allocator / releaser tables in lcverif/ownership.py (filled from the repository)']
    chk.assumptions = ['loops are unrolled once; exactly-once across sequences of API calls is not decided; '
                       'allocation-failure paths are judged by C18 with the same engine']
    ex = sym.Explorer(c.modules, max_visits=2, mod_sets=c.mod_sets, max_paths=200000)
    funcs = [f for f in c.confuse.funcs.values()] + [c.lexer.funcs[n] for n in HANDWRITTEN_LEXER if n in c.lexer.funcs]
    npaths = 0
    nfun = 0
    for f in sorted(funcs, key=lambda x: x.name):
        if f.name == 'cfg_parse_internal' or f.name in c.unknown_funcs:
            continue      # helpers introduced later are analysed as part of their callers
        nfun += 1
        paths = [p for p in ex.explore(f) if p.end == 'ret']
        seen = set()
        nall = 0
        for p in paths:
            if is_alloc_failure_path(p):
                continue
            nall += 1
            for fd in ow.analyse_path(p, f.name):
                report_finding(c, chk, f, fd, seen, p)
            for e, fld in overwrite_findings(p):
                key = 'overwrite:%s:%s' % (f.name, fld)
                if key not in seen:
                    seen.add(key)
                    from ..failpaths import cond_text
                    chk.fail('R7.1', key, c.where(e.ins), '%s(): overwrites the owner field %s (%s) without releasing, saving or testing its old value'
                             % (f.name, fld, sym.render(e.addr)), witness=['path condition: ' + cond_text(p, 6)] + [repr(x) for x in p.events[-8:]])
        npaths += nall
        allocs = sum(1 for x in f.calls() if (x.callee_name() in ow.ALLOCATORS or x.callee_name() in ow.FRESH_RETURNING or x.callee_name() in ow.SHALLOW_RELEASERS or x.callee_name() in ow.DEEP_RELEASERS))
        if not seen and allocs:
            chk.ok('R7.1', '%s: %d paths' % (f.name, nall), '%d acquire/release call sites; every acquired object discharged on every path' % allocs,
                   sample=(f.name in ('cfg_setopt', 'cfg_dupopt_array', 'cfg_getopt_secidx', 'parse_title')))
    chk.analysed = {'functions': nfun + 1, 'paths': npaths}
    chk.floor('R7.1 functions analysed', nfun, 90)
    chk.floor('R7.1 paths analysed', npaths, 1200)

    lexer_actions_ownership(c, chk)
    parser_ownership(c, chk)
    searchpath_rule(c, chk, ex)
    aggregate_copy_rule(c, chk, ex)
    freecb_rule(c, chk, ex)
    include_rule(c, chk, ex)
    realloc_to_nothing(c, chk, ex)
    lent_strings(c, chk, ex)
    table_pointers_not_kept(c, chk)
    if not isinstance(chk, report.SubCheck) and not alloc_failure:
        from . import c09 as _c09, c08 as _c08, c16 as _c16
        # R7.8: "never uses it after release": a setter that may be handed the option's own current string copies it first
        _c09.copy_before_release(c, _c08.chk_proxy(chk, {'R9.6': 'R7.8'}), ex)
        # R7.9: "freeing the context releases every byte": what the duplicator creates per option is what the release function frees
        chk.rule('R7.9', 'every pointer member the schema duplicator creates is released by the release function of the option table (rule R16.1 of C16)')
        sub = report.SubCheck(chk, 'R7.9', 'C16', only=('R16.1',))
        _c16.run(c, sub)
        sub.done('duplicated = released members')


OWNER_FIELDS = {('cfg_t', 'name'), ('cfg_t', 'title'), ('cfg_t', 'filename'), ('cfg_t', 'comment'), ('cfg_t', 'opts'),
                ('cfg_opt_t', 'name'), ('cfg_opt_t', 'comment'), ('cfg_opt_t', 'values'), ('cfg_opt_t', 'subopts'),
                ('cfg_defvalue_t', 'parsed'), ('cfg_defvalue_t', 'string'), ('cfg_value_t', 'string'), ('cfg_value_t', 'section'),
                ('cfg_searchpath_t', 'dir'), ('cfg_searchpath_t', 'next')}
FRESH = ('calloc', 'malloc', 'realloc', 'reallocarray', 'strdup', 'strndup')


def overwrite_findings(path):
    """stores that overwrite an owner field of a pre-existing object without releasing, saving or
    null-testing the old value  ->  [(event, field description)]"""
    out = []
    nf = {sym.norm(v): isnull for v, isnull in ow.null_facts(path).items()}
    evs = path.events
    # user pointers (CFGT_PTR) share the slot with strings; their release goes through freecb (R7.5)
    is_ptr = any(t and pm.describe_cond(cn).endswith('->type eq PTR') for cn, t, _ in path.assume)
    for i, e in enumerate(evs):
        if e.kind != 'store' or e.addr[0] != 'fld' or (e.addr[2], e.addr[3]) not in OWNER_FIELDS:
            continue
        root = sym.root_of(e.addr)
        if root[0] == 'alloca' or (root[0] == 'call' and root[1] in FRESH):
            continue
        if root[0] == 'call' and root[1] in ('cfg_addval',):
            continue          # a freshly appended, zeroed slot
        if is_ptr and e.addr[3] == 'string':
            continue
        old = sym.norm(('ld', e.addr))
        if nf.get(old) is True:
            continue
        # the object was filled wholesale from another one just before (struct assignment): its pointer
        # members are borrowed copies at this point, replacing them releases nothing
        if any(x.kind == 'call' and x.name.startswith('llvm.memcpy') and x.args and sym.norm(sym.root_of(x.args[0])) == sym.norm(sym.root_of(e.addr)) for x in evs[:i]):
            continue
        if e.val == sym.C0 or sym.norm(e.val) == old:
            # clearing: fine if the old value was released / saved, checked below; a plain clear of a
            # borrowed pointer is also fine
            pass
        ok = False
        for j, e2 in enumerate(evs):
            if e2.kind == 'call':
                if e2.name in ow.SHALLOW_RELEASERS or e2.name in ow.DEEP_RELEASERS or e2.name in ('realloc', 'reallocarray'):
                    if e2.args and sym.norm(e2.args[0]) == old:
                        ok = True
                if e2.name in ow.CONTENT_RELEASERS:
                    k, flds = ow.CONTENT_RELEASERS[e2.name]
                    # reads the field when called: only a call before the overwrite releases the old value
                    if j < i and k < len(e2.args) and e.addr[3] in flds and sym.norm(e2.args[k]) == sym.norm(e.addr[1]):
                        ok = True
                if e2.name.startswith('llvm.memcpy') and j < i and len(e2.args) > 1 and sym.norm(e2.args[1]) == sym.norm(e.addr[1]):
                    # the whole record was saved by value before - unless that member of the copy was cleared since
                    dst = e2.args[0]
                    dropped = any(x.kind == 'store' and x.addr[0] == 'fld' and x.addr[1] == dst and x.addr[3] == e.addr[3] and x.val == sym.C0
                                  for x in evs[j + 1:i])
                    if not dropped:
                        ok = True
            elif e2.kind == 'store' and j != i and sym.norm(e2.val) == old:
                ok = True          # old value saved somewhere else
            elif e2.kind == 'ret' and e2.val is not None and sym.norm(e2.val) == old:
                ok = True
        if e.val == sym.C0 and not ok:
            # clearing without release is a leak only if something owned was there; accept when the
            # function releases the container's content elsewhere on this path (cfg_free_value style)
            ok = any(x.kind == 'call' and (x.name in ow.SHALLOW_RELEASERS or x.name in ow.DEEP_RELEASERS) for x in evs[:i])
        if not ok:
            out.append((e, '%s.%s' % (e.addr[2], e.addr[3])))
    return out


def report_finding(c, chk, f, fd, seen, path, rule=None):
    import re
    det = re.sub(r'#\d+', '', fd.detail)
    rule = rule or {'leak': 'R7.1', 'dangling': 'R7.2', 'double-release': 'R7.2', 'use-after-release': 'R7.2'}[fd.kind]
    callee = fd.ev.name if fd.ev is not None and fd.ev.kind == 'call' else '?'
    key = '%s:%s:%s:%s' % (fd.kind, f.name, callee, re.sub(r'#\d+', '', sym.render(fd.val)))
    if key in seen:
        return
    seen.add(key)
    from ..failpaths import cond_text
    chk.fail(rule, key, c.where(fd.ev.ins) if fd.ev is not None else c.where(f), '%s(): %s' % (f.name, det),
             witness=['path condition: ' + cond_text(path, 6)] + [repr(e) for e in path.events[-8:]])


def lexer_actions_ownership(c, chk):
    lex = c.lex
    seen = set()
    n = 0
    items = [(lex.rule_name(r), aps) for r, aps in sorted(lex.actions.items()) if r != lex.dfa.default_rule]
    items += [('<%s><<EOF>>' % scn, aps) for scn, aps in sorted(lex.eof_actions.items())]
    for name, aps in items:
        for ap in aps:
            n += 1
            for fd in ow.analyse_path(ap.path, 'cfg_yylex'):
                report_finding(c, chk, lex.fn, fd, seen, ap.path)
            for e, fld in overwrite_findings(ap.path):
                key = 'overwrite:cfg_yylex:%s:%s' % (name.split(' ')[-1], fld)
                if key not in seen:
                    seen.add(key)
                    chk.fail('R7.1', key, c.where(e.ins), 'scanner action %s overwrites the owner field %s without releasing or saving its old value' % (name, fld),
                             witness=[ap.describe()])
    if not seen:
        chk.ok('R7.1', 'scanner actions: %d action paths' % n, 'nothing acquired is dropped; owner fields are released or saved before being overwritten', sample=True)
    chk.floor('R7.1 scanner action paths', n, 60)


# ---- the parser loop --------------------------------------------------------------------

def maybe_nonnull_states(model, var):
    table = [(s, tok, trs) for s, tok, trs in model.table()]
    mn = set()
    changed = True
    while changed:
        changed = False
        for s, tok, trs in table:
            for tr in trs:
                if tr.kind != 'next' or tr.next_state is None:
                    continue
                v = tr.next.get(var)
                if v is None or v == ('p', var):
                    src = s in mn and not tr.assumes(var, False)
                    nn = src
                elif v == sym.C0:
                    nn = False
                else:
                    nn = True
                if nn and tr.next_state not in mn:
                    mn.add(tr.next_state)
                    changed = True
    return mn


def parser_ownership(c, chk):
    model = pm.ParserModel(c)
    fn = model.fn
    owners = ('comment', 'opttitle')
    mn = {v: maybe_nonnull_states(model, v) for v in owners}
    # local aggregates that can own memory: allocas passed to cfg_addval / cfg_setopt
    # typestate of the argument vector: states in which it may be non-empty
    dirty = set()
    table = [(s, tok, trs) for s, tok, trs in model.table()]

    def adds(tr):
        return [e for e in tr.events if e.kind == 'call' and e.name in ow.CONTENT_ADDERS and e.args[ow.CONTENT_ADDERS[e.name]][0] == 'alloca']

    def rels(tr):
        out = []
        for e in tr.events:
            if e.kind == 'call' and e.name in ow.CONTENT_RELEASERS:
                k = ow.CONTENT_RELEASERS[e.name][0]
                if k < len(e.args) and e.args[k][0] == 'alloca':
                    out.append(e)
        return out
    changed = True
    while changed:
        changed = False
        for s, tok, trs in table:
            for tr in trs:
                if tr.kind != 'next' or tr.next_state is None:
                    continue
                d = (s in dirty or bool(adds(tr))) and not rels(tr)
                if d and tr.next_state not in dirty:
                    dirty.add(tr.next_state)
                    changed = True
    seen = set()
    npaths = 0
    nret = 0
    for s, tok, trs in table:
        for tr in trs:
            if is_alloc_failure_path(tr.path) and False:
                continue
            npaths += 1
            carried = [v for k, v in tr.next.items() if k in owners]
            # objects attached to the argument vector escape the iteration with it
            fds = ow.analyse_path(tr.path, fn.name, carried=carried)
            for fd in fds:
                if fd.kind == 'leak' and tr.kind == 'next' and fd.val[0] == 'alloca':
                    continue          # the vector lives on into the next iteration (typestate below)
                if fd.kind == 'leak' and tr.kind == 'next' and 'only stored in the local' in fd.detail:
                    continue
                if is_alloc_failure_path(tr.path):
                    continue
                report_finding(c, chk, fn, fd, seen, tr.path)
            # a value slot handed back by the store is not read any more once a call was made that can release the option's values
            # (the handling of a deprecated option that is to be dropped): use after release
            stores_ = [e for e in tr.events if e.kind == 'call' and e.name == 'cfg_setopt' and e.res is not None]
            for so_ in stores_:
                k0 = tr.events.index(so_)
                rel = None
                for k1, e in enumerate(tr.events[k0 + 1:], k0 + 1):
                    if rel is None and e.kind == 'call' and not e.inlined and c.func(e.name) is not None and e.name != 'cfg_setopt' and any(a == ('p', 'opt') for a in e.args) \
                            and 'cfg_free_value' in _cfg.transitive(c.callgraph, [e.name]):
                        rel = e
                    elif rel is not None and e.kind in ('store', 'call') and not getattr(e, 'inlined', False):
                        used = [v_ for v_ in ([e.val] if e.kind == 'store' else list(e.args or ()))
                                if sym.mentions(v_, lambda v: v[0] == 'ld' and sym.mentions(v[1], lambda w: w == so_.res))]
                        if not used:
                            continue
                        key = 'use-after-release:cfg_parse_internal:state%d' % s
                        if key not in seen:
                            seen.add(key)
                            chk.fail('R7.2', key, c.where(e.ins), 'cfg_parse_internal(), state %d: the value slot returned by cfg_setopt() is read (%s) after %s() was called on the option, '
                                     'which releases the option\'s values when it is deprecated and to be dropped' % (s, sym.render(used[0]), rel.name), witness=[tr.describe()])
                        break
            # loop-carried owners
            for var in owners:
                old = ('p', var)
                freed = any(e.kind == 'call' and e.name == 'free' and e.args and e.args[0] == old for e in tr.events)
                known_null = tr.assumes(var, False)
                may = s in mn[var]
                dropped = tr.kind == 'ret' or (tr.next.get(var) not in (None, old))
                handed = any(e.kind == 'call' and e.name in ('cfg_opt_setcomment',) and old in e.args for e in tr.events) and False
                if dropped and may and not freed and not known_null:
                    key = 'leak:cfg_parse_internal:%s:state%d:%s' % (var, s, 'return' if tr.kind == 'ret' else 'overwrite')
                    if key not in seen:
                        seen.add(key)
                        chk.fail('R7.1', key, c.where(tr.path.last_ins) if tr.path.last_ins is not None else c.where(fn),
                                 'cfg_parse_internal(): the pending %s can be non-NULL in state %d and is %s without being released'
                                 % (var, s, 'dropped by this return' if tr.kind == 'ret' else 'overwritten'), witness=[tr.describe()])
                if freed and tr.kind == 'next' and tr.next.get(var) == old:
                    key = 'dangling:cfg_parse_internal:%s:state%d' % (var, s)
                    if key not in seen:
                        seen.add(key)
                        chk.fail('R7.2', key, c.where(fn), 'cfg_parse_internal(): the pending %s is released in state %d but kept for the next iteration' % (var, s),
                                 witness=[tr.describe()])
            # argument vector
            if tr.kind == 'ret':
                nret += 1
                if (s in dirty or adds(tr)) and not rels(tr):
                    key = 'leak:cfg_parse_internal:funcopt:%s' % ('error-exit' if tr.ret == 1 else 'return%s' % tr.ret)
                    if key not in seen:
                        seen.add(key)
                        chk.fail('R7.1', key, c.where(tr.path.last_ins) if tr.path.last_ins is not None else c.where(fn),
                                 'cfg_parse_internal(): leaves with %s while the argument vector of an unfinished function call still owns its values (state %d, token %s)'
                                 % (pm.RET.get(tr.ret, tr.ret), s, pm.TOKNAME.get(tok, tok)), witness=[tr.describe()])
    if not seen:
        chk.ok('R7.1', 'cfg_parse_internal: %d residual paths, %d returns' % (npaths, nret),
               'pending comment/title released on every return and overwrite (may be non-NULL in states %s / %s); argument vector released on every exit from states %s'
               % (sorted(mn['comment']), sorted(mn['opttitle']), sorted(dirty)), sample=True)
    chk.floor('R7.1 parser residual paths', npaths, 200)
    chk.extra['parser_typestate'] = {'comment_maybe_nonnull': sorted(mn['comment']), 'opttitle_maybe_nonnull': sorted(mn['opttitle']),
                                     'argument_vector_maybe_nonempty': sorted(dirty)}


# ---- R7.3 -----------------------------------------------------------------------------------

def is_section_value(v):
    """v is loaded from the 'section' member of a value slot"""
    return v[0] == 'ld' and v[1][0] == 'fld' and v[1][3] == 'section'


def table_pointers_not_kept(c, chk, rid='R7.11'):
    """R7.11: the option table of a context (cfg->opts) is an array the library reallocates (a free-form section grows it with every
    new key) and frees with the context.  A pointer into it - &cfg->opts[i], or what a lookup returned - is good until the next
    such step only: it may live in locals and be handed to callers, but the library itself keeps none in a global or in a member of a
    longer-lived object (a "last lookup" cache would be read after the table it points into is gone).  IR def-use rule over
    every function of confuse.c: a value derived from a load of `opts` of a context (through getelementptr/casts/phi/select, or
    returned by a function whose return value is so derived) is never the value operand of a store into a global or a structure member"""
    chk.rule(rid, 'no pointer into a context\'s option table is kept in a global or in a structure member (a cached option outlives the table when it is reallocated or freed)')
    mod = c.confuse
    returns_tab = set()

    def tainted_regs(f):
        t = set()
        changed = True
        while changed:
            changed = False
            for ins in f.instrs():
                if ins.res is None or ins.res in t:
                    continue
                hit = False
                if ins.op == 'load':
                    a = ins.ops[0]
                    d = f.defs.get(a.name) if a.kind == 'reg' else None
                    if d is not None and d.op == 'getelementptr' and (d.srcty or '').strip() == '%struct.cfg_t' and len(d.ops) >= 3 and d.ops[2].kind == 'int' \
                            and mod.field_name('%struct.cfg_t', d.ops[2].ival) == 'opts':
                        hit = True
                elif ins.op == 'getelementptr' or ins.op in ('bitcast',):
                    hit = ins.ops[0].kind == 'reg' and ins.ops[0].name in t
                elif ins.op == 'phi':
                    hit = any(v.kind == 'reg' and v.name in t for v, _ in ins.incoming)
                elif ins.op == 'select':
                    hit = any(v.kind == 'reg' and v.name in t for v in ins.ops[1:3])
                elif ins.op == 'call' and ins.callee_name() in returns_tab:
                    hit = True
                if hit:
                    t.add(ins.res)
                    changed = True
        return t
    # which functions return a pointer into a table (fixpoint)
    grew = True
    while grew:
        grew = False
        for f in mod.funcs.values():
            if f.name in returns_tab:
                continue
            t = tainted_regs(f)
            if any(ins.op == 'ret' and ins.ops and ins.ops[0].kind == 'reg' and ins.ops[0].name in t for ins in f.instrs()):
                returns_tab.add(f.name)
                grew = True
    # structure types that only ever live on the stack (a parser context passed down to helpers): a member of such an object is as
    # short-lived as a local
    import re as _re
    on_stack, elsewhere = set(), set()
    for f in mod.funcs.values():
        for ins in f.instrs():
            if ins.op == 'alloca':
                m_ = _re.match(r'\s*(%struct\.[A-Za-z0-9_.]+)\s*(,|$)', ins.text.split('alloca', 1)[1])
                if m_:
                    on_stack.add(m_.group(1))
            elif ins.op == 'bitcast' and ins.ops and ins.ops[0].kind == 'reg':
                d = f.defs.get(ins.ops[0].name)
                if d is not None and d.op == 'call' and d.callee_name() in ('malloc', 'calloc', 'realloc', 'reallocarray'):
                    m_ = _re.match(r'(%struct\.[A-Za-z0-9_.]+)\*', (ins.toty or '').strip())
                    if m_:
                        elsewhere.add(m_.group(1))
    for g in mod.globals.values():
        if str(g.get('const')) == 'True':
            continue          # (a constant initialiser image of a local aggregate)
        for m_ in _re.finditer(r'%struct\.[A-Za-z0-9_.]+', g.get('ty') or ''):
            elsewhere.add(m_.group(0))
    stack_only = on_stack - elsewhere - {'%struct.cfg_t', '%struct.cfg_opt_t'}
    n = 0
    for f in mod.funcs.values():
        t = tainted_regs(f)
        if not t:
            continue
        for ins in f.instrs():
            if ins.op != 'store' or not (ins.ops[0].kind == 'reg' and ins.ops[0].name in t):
                continue
            n += 1
            a = ins.ops[1]
            where = None
            if a.kind == 'global':
                where = 'the global %s' % a.name.lstrip('@')
            elif a.kind == 'reg':
                d = f.defs.get(a.name)
                if d is not None and d.op == 'getelementptr' and (d.srcty or '').strip().startswith('%struct.') and len(d.ops) >= 3 and d.ops[2].kind == 'int' \
                        and d.srcty.strip() not in stack_only:
                    where = 'the member %s of a %s' % (mod.field_name(d.srcty.strip(), d.ops[2].ival), d.srcty.strip()[8:])
            if where:
                chk.fail(rid, 'table-pointer-kept:%s' % f.name, c.where(ins), '%s() stores a pointer into a context\'s option table in %s: the table is reallocated when a free-form '
                         'section gains a key and freed with its context, the stored pointer is not - the next use reads freed memory' % (f.name, where))
    chk.ok(rid, 'confuse.c: %d functions returning a pointer into an option table, %d stores of such pointers' % (len(returns_tab), n),
           'none into a global or a structure member (out-parameters and locals only)')
    chk.floor('%s functions that return a pointer into an option table' % rid, len(returns_tab), 1)


def lent_strings(c, chk, ex):
    """R7.10: a string handed to the library as an argument stays the caller's: no function releases a `char *` parameter of
    its own (the caller - call_function() for an include name, the application for a file name - reads and releases it
    afterwards)"""
    chk.rule('R7.10', 'no function of confuse.c passes one of its own string parameters to free()')
    n = 0
    bad = None
    for f in c.confuse.funcs.values():
        if f.name in c.unknown_funcs:
            continue          # a helper that is handed an allocated string to keep or release is judged in its caller
        sp = {f.param_names.get(p_.name, p_.name) for p_ in f.params if p_.ty == 'i8*'}
        if not sp or not any(True for g in c.deep_funcs(f) for _ in g.calls('free')):
            continue
        n += 1
        for p in ex.explore(f):
            for e in p.events:
                if e.kind == 'call' and e.name == 'free' and e.args and e.args[0][0] == 'p' and e.args[0][1] in sp:
                    bad = bad or (f, e)
            if bad:
                break
    if bad is not None:
        f, e = bad
        chk.fail('R7.10', 'frees-argument:%s:%s' % (f.name, e.args[0][1]), c.where(e.ins), '%s() releases its own argument "%s" with free(): the string belongs to the caller, '
                 'who goes on to use it and releases it again' % (f.name, e.args[0][1]))
    else:
        chk.ok('R7.10', '%d functions with string parameters that call free()' % n, 'none releases a parameter')
    chk.floor('R7.10 functions examined', n, 5)


def searchpath_rule(c, chk, ex):
    nsites = 0
    for f in c.confuse.funcs.values():
        if f.name in c.unknown_funcs:
            continue          # a helper is judged where it is used
        sites = [x for x in c.deep_calls(f, 'cfg_free')]
        if not sites:
            continue
        paths = None
        for call in sites:
            if paths is None:
                paths = [p for p in ex.explore(f) if p.end == 'ret']
            judged = False
            okall = True
            wit = None
            for p in paths:
                for i, e in enumerate(p.events):
                    if e.kind == 'call' and e.ins is call:
                        a = e.args[0]
                        na = sym.norm(a)
                        # (also a context under construction that was already given its parent's search path)
                        lent = [k for k, e2 in enumerate(p.events[:i]) if e2.kind == 'store' and e2.field == 'path' and e2.addr[0] == 'fld' and sym.norm(e2.addr[1]) == na
                                and e2.val[0] == 'ld' and e2.val[1][0] == 'fld' and e2.val[1][3] == 'path']
                        if not (is_section_value(a) or section_origin(call.func, call) or lent):
                            continue
                        judged = True
                        cleared = any(e2.kind == 'store' and e2.field == 'path' and e2.val == sym.C0 and e2.addr[0] == 'fld'
                                      and sym.norm(e2.addr[1]) == na for e2 in p.events[(lent[-1] + 1 if lent else 0):i])
                        if not cleared:
                            okall = False
                            wit = p
            if not judged:
                continue
            nsites += 1
            if okall:
                chk.ok('R7.3', '%s @%s' % (f.name, c.where(call)), 'the section\'s path pointer is set to NULL before cfg_free()', sample=True)
            else:
                chk.fail('R7.3', 'shared-path:%s' % f.name, c.where(call),
                         '%s() releases a sub-section with cfg_free() without first clearing its shared search-path pointer: the root\'s search path is freed with it' % f.name,
                         witness=[repr(e) for e in wit.events[-6:]] if wit else None)
    chk.floor('R7.3 sub-section release sites', nsites, 2)


def section_origin(f, call):
    """the argument of this cfg_free() call is loaded from a value slot's section member (by def chain)"""
    a = call.args[0]
    if a.kind != 'reg':
        return False
    d = f.defs.get(a.name)
    if d is None or d.op != 'load':
        return False
    p = d.ops[0]
    dd = f.defs.get(p.name) if p.kind == 'reg' else None
    return dd is not None and dd.op == 'bitcast' and dd.ops[0].ty.startswith('%union.cfg_value_t') and dd.toty == '%struct.cfg_t**'


# ---- R7.4 -----------------------------------------------------------------------------------

def aggregate_copy_rule(c, chk, ex):
    """a local option record filled from another option (struct assignment or member by member) and then handed to a
    content releaser: every owner member released through the local must no longer be held by the original"""
    n = 0
    for f in c.confuse.funcs.values():
        if f.name in c.unknown_funcs or not f.order:
            continue
        locals_ = set()
        for g in c.deep_funcs(f):
            for ins in g.blocks[g.order[0]].instrs:
                if ins.op == 'alloca' and (ins.srcty or '').strip() == '%struct.cfg_opt_t':
                    locals_.add(ins.res if g is f else '%s@%s' % (ins.res, g.name))
        if not locals_:
            continue
        nf = 0
        for p in ex.explore(f):
            if p.end != 'ret':
                continue
            evs = p.events
            for j, e in enumerate(evs):
                if not (e.kind == 'call' and e.name in ow.CONTENT_RELEASERS):
                    continue
                k, flds = ow.CONTENT_RELEASERS[e.name]
                dst = e.args[k]
                if dst[0] != 'alloca' or dst[1] not in locals_:
                    continue
                n += 1
                nf += 1
                for fld in flds:
                    # where does the local's member come from?  the latest writer before the release
                    ci, src = None, None
                    for i in range(j - 1, -1, -1):
                        x = evs[i]
                        if x.kind == 'call' and (x.name or '').startswith('llvm.memcpy') and x.args[0] == dst and sym.root_of(x.args[1])[0] == 'p':
                            ci, src = i, x.args[1]
                            break
                        if x.kind == 'store' and x.addr[0] == 'fld' and x.addr[3] == fld and x.addr[1] == dst:
                            v = x.val
                            if v[0] == 'ld' and v[1][0] == 'fld' and v[1][3] == fld and sym.root_of(v[1])[0] == 'p':
                                ci, src = i, v[1][1]
                            break
                    if ci is None:
                        continue        # cleared, or given a value of its own
                    re_src = any(x.kind == 'store' and x.addr[0] == 'fld' and x.addr[3] == fld and sym.norm(x.addr[1]) == sym.norm(src)
                                 for x in evs[ci + 1:j])
                    if not re_src:
                        chk.fail('R7.4', 'shared-owner:%s:%s' % (f.name, fld), c.where(e.ins),
                                 '%s(): after the by-value copy of *%s, %s() releases the copy\'s "%s" while the original still points to it (dangling pointer)'
                                 % (f.name, sym.render(src), e.name, fld), witness=[repr(x) for x in evs[ci:j + 1]][:10])
                        return
        if nf:
            chk.ok('R7.4', '%s: local option record' % f.name, 'every owner member released through the local copy was re-assigned in the original first (%d releases on the explored paths)' % nf, sample=True)
    chk.floor('R7.4 releases through a local option record', n, 1)


# ---- R7.5 -----------------------------------------------------------------------------------

def freecb_rule(c, chk, ex):
    # cfg_setopt: a store to the ptr member of a value slot
    f = c.need('cfg_setopt')
    n = 0
    bad = None
    for p in ex.explore(f):
        if p.end != 'ret':
            continue
        st = [i for i, e in enumerate(p.events) if e.kind == 'store' and e.addr[0] == 'fld' and e.addr[2] in ('cfg_value_t',) and e.addr[3] == 'string'
              and any(pm.describe_cond(cn) == 'opt->type eq PTR' and t for cn, t, _ in p.assume)]
        if not st:
            continue
        n += 1
        i = st[0]
        slot = p.events[i].addr
        old = sym.norm(('ld', slot))
        nf = {sym.norm(v): isnull for v, isnull in ow.null_facts(p).items()}
        old_nonnull = nf.get(old) is False
        cbset = any(isnull is False and v[0] == 'ld' and v[1][0] == 'fld' and v[1][3] == 'freecb' for v, isnull in nf.items())
        cbs = [e for e in p.events[:i] if e.kind == 'call' and e.name == 'indirect:freecb']
        if old_nonnull and cbset:
            if len(cbs) != 1 or sym.norm(cbs[0].args[0]) != old:
                bad = (p, 'the old user pointer is not handed to the release callback exactly once before the slot is overwritten')
        elif cbs:
            bad = (p, 'the release callback is called although the slot is empty or no callback is set')
        elif nf.get(old) is None and not any(v[0] == 'ld' and v[1][0] == 'fld' and v[1][3] == 'freecb' for v in nf):
            bad = (p, 'the slot is overwritten without looking at its old value or at the release callback')
    if bad:
        chk.fail('R7.5', 'freecb:cfg_setopt', c.where(f), 'cfg_setopt(): ' + bad[1], witness=[repr(e) for e in bad[0].events[-6:]])
    elif n:
        chk.ok('R7.5', 'cfg_setopt: pointer slot overwrite', '%d paths: old value released through freecb exactly once when both are set' % n, sample=True)
    # cfg_free_value: the PTR arm
    f = c.need('cfg_free_value')
    calls = [x for x in c.deep_calls(f) if x.callee_name() is None]
    from .c14 import fnptr_field
    fcb = [x for x in calls if fnptr_field(x.func, x.callee) == 'freecb']
    if len(fcb) != 1:
        chk.fail('R7.5', 'freecb:cfg_free_value', c.where(f), 'cfg_free_value() calls the release callback at %d sites, expected 1' % len(fcb))
    else:
        # the slot itself is freed afterwards in the same iteration: free(values[i]) post-dominates the call
        pd = _cfg.postdominators(f)
        frees = [x for x in f.calls('free')]
        anchor = fcb[0]
        if anchor.func is not f:
            # the callback sits in a helper split off this function: judge from the helper's call site
            anchor = next((x for x in f.calls() if x.callee_name() in set(g.name for g in c.deep_funcs(f)) and
                           any(y is fcb[0] for y in c.deep_calls(c.func(x.callee_name())))), fcb[0])
        ok = any(x.block.label in pd.get(anchor.block.label, ()) or (x.block is anchor.block and x.idx > anchor.idx) for x in frees)
        if not ok and fcb[0].func is not f:
            # callback and release of the slot both sit in the helper
            g_ = fcb[0].func
            pdg = _cfg.postdominators(g_)
            ok = any(x.block.label in pdg.get(fcb[0].block.label, ()) or (x.block is fcb[0].block and x.idx > fcb[0].idx) for x in g_.calls('free'))
        if ok:
            chk.ok('R7.5', 'cfg_free_value: pointer values', 'freecb(value) under type==PTR && freecb && value, followed by the release of the slot')
        else:
            chk.fail('R7.5', 'freecb-slot:cfg_free_value', c.where(fcb[0]), 'cfg_free_value(): the slot is not released after the release callback ran')
    chk.floor('R7.5 pointer overwrite paths', n, 2)


# ---- R7.6 -----------------------------------------------------------------------------------

def include_rule(c, chk, ex):
    lex = c.lex
    # (a) the pop site closes the file it pops
    npop = 0
    for scn, aps in lex.eof_actions.items():
        for ap in aps:
            names = [x[1] for x in ap.of('call')]
            if 'cfg_scan_fp_end' in names:
                npop += 1
                if 'fclose' not in names or names.index('fclose') > names.index('cfg_scan_fp_end'):
                    chk.fail('R7.6', 'pop-noclose:%s' % scn, 'src/lexer.l:%d' % lex.dfa.eof_line.get(scn, 0),
                             'the end-of-file action pops an include level without closing its file first')
                    return
                dec = [x for x in ap.of('incptr')]
                if not dec:
                    chk.fail('R7.6', 'pop-noptr:%s' % scn, 'src/lexer.l:%d' % lex.dfa.eof_line.get(scn, 0), 'the end-of-file action pops a buffer without decrementing the include stack pointer')
                    return
    # (a') an end of input that pops nothing leaves the include stack as deep as it was (the end of a default-value text that
    #      is scanned while an include file is open must not forget that file)
    from .. import bufsize as _bs
    for scn, aps in lex.eof_actions.items():
        for ap in aps:
            names = [x[1] for x in ap.of('call')]
            if 'cfg_scan_fp_end' in names:
                continue
            net = _bs.net_counter_change(ap.events, ('g', '@cfg_include_stack_ptr'))
            if net != 0:
                chk.fail('R7.6', 'eof-depth:%s' % scn, 'src/lexer.l:%d' % lex.dfa.eof_line.get(scn, 0),
                         'an end-of-input action in <%s> that pops no include level leaves the include stack pointer changed (%s): the include file that was open is forgotten - '
                         'never closed, its saved name and scanner buffer never released' % (scn, 'by %+d' % net if net is not None else 'to an unknown value'))
                return
    if npop:
        chk.ok('R7.6', '<<EOF>> pop site', 'decrements the include stack pointer, restores the position, fclose() then cfg_scan_fp_end() on %d action paths' % npop, sample=True)
    chk.floor('R7.6 pop action paths', npop, 1)
    # (b) the bracket: cfg_parse_fp on its failing exit must call an unwinder
    f = c.need('cfg_parse_fp')
    unwinders = find_unwinders(c)
    bad = None
    n = 0
    for p in ex.explore(f):
        if p.end != 'ret':
            continue
        pc = p.calls('cfg_parse_internal')
        if not pc:
            continue
        n += 1
        res = pc[0].res
        fails = None
        for cn, t, _ in p.assume:
            if cn[0] == 'icmp' and res in (cn[2], cn[3]) and ('c', 1) in (cn[2], cn[3]):
                fails = ((cn[1] == 'eq') == t)
        after = p.events[p.events.index(pc[0]) + 1:]
        called = [e.name for e in after if e.kind == 'call']
        if 'cfg_scan_fp_end' not in called:
            bad = (p, 'does not pop the scanner source it pushed')
        elif fails is not False and not any(nm in unwinders for nm in called):
            bad = (p, 'returns after a failed parse without unwinding the include stack: files opened by include() stay open and every later include() nests deeper')
        elif fails is not False:
            # the unwinding stops at the depth this parse started at: a parse that runs inside another parse's include file
            # (from a callback) must not close the outer parse's files
            uw = [e for e in after if e.kind == 'call' and e.name in unwinders]
            entry = ('ld', ('g', '@cfg_include_stack_ptr'))
            if uw and not any(sym.norm(a) == entry for e in uw for a in (e.args or [])) and \
                    not any(e.kind == 'store' and sym.norm(e.val) == entry for e in p.events[:p.events.index(pc[0])]):
                bad = (p, 'unwinds the include stack after a failed parse without regard to the depth at which this parse started (the unwinder is not given the include '
                          'stack pointer read before the parse): a parse run from a callback inside an included file closes the include files of the parse around it')
    # the unwinder really unwinds: it returns only once the stack is back at the requested level
    cond = unwinder_conditional(c, unwinders)
    if cond and not bad:
        fn_, p_ = cond
        chk.fail('R7.6', 'unwinder-conditional:%s' % fn_.name, c.where(fn_),
                 '%s() can return while the include stack is still above the requested level (it stops at a level whose file is not the current scanner source): '
                 'after a failed parse include files stay open and the include depth is used up' % fn_.name, witness=['path condition: ' + ' && '.join(
                     ('' if t else '!') + sym.render(cn) for cn, t, _ in p_.assume[-4:])])
        return
    # every level the unwinder pops had a file name saved in its stack entry (the name of the including file, a copy the entry
    # owns): per pop, that name is released or handed back to the context
    if not bad:
        from .. import loops as _loops2
        exl = sym.Explorer([c.lexer], max_visits=2, mod_sets=c.lex.mod_sets)
        # the string member(s) of a stack entry (the entry type is anonymous: members are told apart by type)
        import re as _re2
        gty = (c.lexer.globals.get('@cfg_include_stack') or {}).get('ty') or ''
        m_ = _re2.search(r'(%struct\.[A-Za-z0-9_.]+)', gty)
        name_fields = set()
        if m_:
            for k_, t_ in enumerate(c.lexer.structs.get(m_.group(1)) or ()):
                if t_.strip() == 'i8*':
                    name_fields.add(c.lexer.field_name(m_.group(1), k_))
        if not name_fields:
            raise report.Broken('the include stack entry has no string member: the saved file name was not found')
        for un in sorted(unwinders):
            fu = c.lexer.funcs.get(un)
            if fu is None or un == 'cfg_yylex':
                continue          # (the end-of-file action of the scanner restores the name: part (a))
            for h in sorted(_cfg.natural_loops(fu)):
                for p in _loops2.iterate(exl, fu, h):
                    if p.end != 'stop':
                        continue
                    net = _bs.net_counter_change(p.events, ('g', '@cfg_include_stack_ptr'))
                    if net != -1:
                        continue

                    def saved_name(v):
                        return sym.mentions(v, lambda x: x[0] == 'fld' and len(x) > 3 and x[3] in name_fields and sym.mentions(x[1], lambda y: y == ('g', '@cfg_include_stack')))
                    consumed = any((e.kind == 'call' and e.name == 'free' and e.args and saved_name(e.args[0])) or
                                   (e.kind == 'store' and saved_name(e.val) and not saved_name(e.addr)) for e in p.events)
                    if not consumed:
                        bad = (p, None)
                        chk.fail('R7.6', 'unwinder-drops-name:%s' % un, c.where(fu), '%s() pops an include level without releasing the file name saved in its stack entry (or handing it back to the '
                                 'context): after a parse refused two or more includes deep the names of the intermediate files are never released' % un)
                        return
    if bad:
        chk.fail('R7.6', 'bracket-no-unwind', c.where(f), 'cfg_parse_fp() ' + bad[1], witness=[repr(e) for e in bad[0].events])
    elif n:
        chk.ok('R7.6', 'cfg_parse_fp bracket', 'pops its own source on every exit; on the failing exit calls %s, which closes every include level above the entry level' % sorted(unwinders), sample=True)
    chk.floor('R7.6 bracket paths', n, 2)


def find_unwinders(c):
    """functions (transitively) containing a loop that decrements the include stack pointer and closes a file"""
    out = set()
    for f in c.lexer.funcs.values():
        for h, body in _cfg.natural_loops(f).items():
            dec = False
            close = False
            pop = False
            instrs = [i for b in body for i in f.blocks[b].instrs]
            # ... and what a helper called from the loop body does (the pop sequence shared with the end-of-file action)
            for i in list(instrs):
                n_ = i.callee_name() if i.op == 'call' else None
                h_ = c.func(n_) if n_ and n_ in c.unknown_funcs else None
                if h_ is not None:
                    instrs.extend(x for g_ in c.deep_funcs(h_) for x in g_.instrs())
            for i in instrs:
                if i.op == 'store' and i.ops[1].kind == 'global' and i.ops[1].name == '@cfg_include_stack_ptr':
                    dec = True
                if i.op == 'call' and i.callee_name() == 'fclose':
                    close = True
                if i.op == 'call' and i.callee_name() in ('cfg_scan_fp_end', 'cfg_yypop_buffer_state'):
                    pop = True
            if dec and close and pop:
                out.add(f.name)
    # wrappers
    cg = c.callgraph
    changed = True
    while changed:
        changed = False
        for fn in c.all_funcs():
            if fn.name in out or fn.name in ('cfg_yylex', 'cfg_parse_internal', 'cfg_parse_fp'):
                continue
            cs = cg.get(fn.name, set())
            if cs & out and len(list(fn.instrs())) < 60:
                out.add(fn.name)
                changed = True
    return out


def unwinder_conditional(c, unwinders):
    """(function, path) if an unwinding function can return without its loop condition 'stack pointer > level' having become false"""
    lexex = sym.Explorer([c.lexer], max_visits=3, mod_sets=c.lex.mod_sets)
    for name in sorted(unwinders):
        f = c.lexer.funcs.get(name)
        if f is None or f.name == 'cfg_yylex':
            continue
        direct = any(i.op == 'store' and i.ops[1].kind == 'global' and i.ops[1].name == '@cfg_include_stack_ptr'
                     for h, body in _cfg.natural_loops(f).items() for b in body for i in f.blocks[b].instrs)
        if not direct:
            continue
        for p in lexex.explore(f):
            if p.end != 'ret':
                continue
            last = None
            for cn, t, _ in p.assume:
                if cn[0] == 'icmp' and sym.mentions(cn, lambda v: v[0] == 'ld' and v[1] == ('g', '@cfg_include_stack_ptr')) and \
                        sym.mentions(cn, lambda v: v[0] == 'p'):
                    above = {'sgt': t, 'sge': t, 'sle': not t, 'slt': not t}.get(cn[1])
                    # operands may be swapped: level < ptr
                    if cn[2][0] == 'p' or (cn[2][0] == 'bin' and sym.root_of(cn[2])[0] == 'p'):
                        above = {'slt': t, 'sle': t, 'sge': not t, 'sgt': not t}.get(cn[1])
                    last = above
            if last is True:
                return f, p
    return None


def realloc_to_nothing(c, chk, ex):
    """R7.7: realloc(p, 0) releases p and returns NULL: where the requested size can be zero, a NULL result must not be
    read as "nothing happened, p is still mine" """
    from .. import bufsize
    chk.rule('R7.7', 'a NULL result of realloc() is taken for a failure (old block still owned) only where the requested size cannot be zero')
    n = 0
    for f in c.confuse.funcs.values():
        if f.name in c.unknown_funcs or not any(True for _ in c.deep_calls(f, 'realloc')):
            continue
        bad = None
        for p in ex.explore(f):
            if p.end != 'ret':
                continue
            for i, e in enumerate(p.events):
                if not (e.kind == 'call' and e.name == 'realloc'):
                    continue
                n += 1
                isnull = any((lambda na: na is not None and na[0] == e.res and na[1] is True)(fp_is_null(cn, t)) for cn, t, _ in p.assume)
                if not isnull:
                    continue
                size = bufsize.lin(e.args[1])
                may_zero = size is None or (size.const <= 0 and not any((lambda na: na is not None and sym.norm(na[0]) == sym.norm(e.args[1]) and na[1] is False)(fp_is_null(cn, t))
                                                                     for cn, t, _ in p.assume))
                if size is not None and size.const <= 0 and all(cf > 0 for cf in size.terms.values()):
                    # every term is a count that can be 0
                    pass
                if not may_zero:
                    continue
                old = e.args[0]
                if old[0] == 'ld' and old[1][0] == 'fld':
                    rewritten = any(x.kind == 'store' and sym.norm(x.addr) == sym.norm(old[1]) for x in p.events[i + 1:])
                    if not rewritten:
                        bad = bad or (e, old)
        if bad:
            e, old = bad
            chk.fail('R7.7', 'realloc-zero:%s' % f.name, c.where(e.ins), '%s(): realloc(%s, %s) can be asked for 0 bytes, which releases the block and returns NULL; the NULL is '
                     'taken for a failure and %s keeps pointing to the released block (double free on the next use)' % (f.name, sym.render(old), sym.render(e.args[1]), sym.render(old[1])))
    chk.ok('R7.7', '%d realloc() call paths' % n, 'every request has a positive constant part, or its NULL result is not treated as a mere failure', sample=True)
    chk.floor('R7.7 realloc call paths', n, 2)


def fp_is_null(cn, t):
    from ..failpaths import is_null_assumption
    return is_null_assumption(cn, t)
