"""C08 - a parse depends only on its own input, not on earlier parses.

The only channel between parses is process-global mutable state.  That state is
enumerated from the IR of both units; each global must satisfy a reset
discipline, verified here, or the check fails (a new unclassified global is a
violation, not a pass).
"""
import json
import os

from .. import sym, cfg as _cfg, lexmodel, report
from . import c07

EXPLANATION = (
    'Static analysis: every non-constant global of confuse.c and of the generated scanner is enumerated from the LLVM '
    'IR together with the functions that write it. Each must fall under one discipline, each discipline is verified '
    'on the current code: (start condition) the function that begins every scan must-stores INITIAL into yy_start and '
    'the parse bracket calls it before the first token on every path; (scanner source / buffer stack) begin and end of '
    'the scan bracket every parse on all paths; (include stack) restored on every exit of the bracket - pop at end of '
    'file, unwinder on the failing exit; (scratch buffer) released and zeroed by the end-of-scan function on every '
    'path; (token value) assigned by every token-returning action before the parser can read it; (scanner '
    'configuration) written only by the generated initialisation/teardown code. A global that fits none is reported.')

# discipline table: global -> discipline.  Everything flex keeps per scan belongs to 'scan-bracket'.
DISCIPLINE = {
    '@yy_start': 'start-condition',
    '@cfg_include_stack': 'include-stack',
    '@cfg_include_stack_ptr': 'include-stack',
    '@cfg_qstring': 'scratch',
    '@qstring_index': 'scratch',
    '@qstring_len': 'scratch',
    '@cfg_yylval': 'token-value',
    '@yy_buffer_stack': 'scan-bracket',
    '@yy_buffer_stack_top': 'scan-bracket',
    '@yy_buffer_stack_max': 'scan-bracket',
    '@yy_c_buf_p': 'scan-bracket',
    '@yy_hold_char': 'scan-bracket',
    '@yy_n_chars': 'scan-bracket',
    '@yy_did_buffer_switch_on_eof': 'scan-bracket',
    '@yy_last_accepting_state': 'scan-bracket',
    '@yy_last_accepting_cpos': 'scan-bracket',
    '@cfg_yyin': 'scan-bracket',
    '@cfg_yytext': 'scan-bracket',
    '@cfg_yyleng': 'scan-bracket',
    '@yy_init': 'scanner-config',
    '@cfg_yyout': 'scanner-config',
    '@cfg_yylineno': 'scanner-config',
    '@cfg_yy_flex_debug': 'scanner-config',
}
CONFIG_WRITERS = {'cfg_yylex', 'cfg_yylex_destroy', 'yy_init_globals', 'cfg_yyset_out', 'cfg_yyset_lineno', 'cfg_yyset_debug',
                  'cfg_yyset_in', 'cfg_yyrestart'}


def mutable_globals(mod):
    out = {}
    for name, g in mod.globals.items():
        if g.get('const') or g.get('external') or g.get('ty') is None:
            continue
        if name.startswith('@.str') or name.startswith('@__PRETTY_FUNCTION__') or name.startswith('@__func__'):
            continue
        out[name] = g
    return out


def writers(mod, gname):
    ws = set()
    for f in mod.funcs.values():
        for ins in f.instrs():
            if ins.op == 'store':
                from ..summaries import store_key
                k = store_key(f, ins)
                if k == gname or k == gname + '[]':
                    ws.add(f.name)
            if ins.op == 'call' and (ins.callee_name() or '').startswith('llvm.mem'):
                a = ins.args[0]
                b = a.strip_casts() if hasattr(a, 'strip_casts') else a
                if b.kind == 'global' and b.name == gname:
                    ws.add(f.name)
    return ws


REPLACERS = ('cfg_yy_switch_to_buffer', 'cfg_yy_scan_string', 'cfg_yy_scan_bytes', 'cfg_yy_scan_buffer', 'cfg_yyrestart', 'cfg_yy_flush_buffer')


def sources_are_stacked(c, chk, rid='R8.12'):
    """R8.12: a parse that begins while another one is under way (from a callback of the outer one, or an include) puts its
    source *on top of* the scanner's source stack and takes it off again (R8.2): the outer source is still there afterwards.  The
    flex entries that *replace* the current source - yy_switch_to_buffer(), yy_scan_string()/bytes()/buffer() (which end in it),
    yyrestart(), yy_flush_buffer() - are not called by hand-written code of either unit"""
    chk.rule(rid, 'hand-written code begins a source by pushing it on the scanner\'s source stack, never by replacing the current source')
    npush = 0
    bad = None
    for f in c.all_funcs():
        w = c.where(f)
        if w.startswith('<generated>'):
            continue
        for call in f.calls():
            n = call.callee_name()
            if n == 'cfg_yypush_buffer_state':
                npush += 1
            if n in REPLACERS and bad is None:
                bad = (f, call, n)
    if bad is not None:
        f, call, n = bad
        chk.fail(rid, 'source-replaced:%s' % f.name, c.where(call), '%s() begins a source with %s(), which replaces the source the scanner is reading instead of stacking the new one on top: '
                 'a parse started from a callback of another parse discards the outer parse\'s input, which then continues on a buffer that has been deleted' % (f.name, n[4:]))
    else:
        chk.ok(rid, 'hand-written functions of both units', 'sources are begun with yypush_buffer_state() (%d sites); none calls a replacing entry' % npush)
    chk.floor('%s hand-written push sites' % rid, npush, 1)


TEXT_SINKS = {'free', 'strdup', 'fprintf', 'vfprintf', 'snprintf', 'vsnprintf', 'sprintf', 'fputs', 'cfg_error'}


def position_is_text_only(c, chk, rid='R8.13'):
    """R8.13: the file name a context remembers (cfg->filename) survives from one parse to the next - a stream or buffer parse does
    not even replace it.  It is the text diagnostics begin with, and it is saved, restored and handed to sections; nothing is ever
    *decided* by it and no other name is computed from it.  Paths of the parse entry points and of the include function (helpers
    analysed as part of them): the name found in the context *on entry* reaches only stores, NULL tests, free(), strdup() and the
    message formatters - never a string inspector, an opener or the name resolution"""
    chk.rule(rid, 'the file name found in the context on entry is diagnostic text only: the parse entry points and the include function hand it to free(), strdup() and message formatters, nothing else')
    ex = sym.Explorer(c.modules, max_visits=2, mod_sets=c.mod_sets, max_paths=50000)
    n = 0
    bad = None

    def remembered(v):
        return v[0] == 'ld' and len(v) > 2 and v[2] == (0, 0) and v[1][0] == 'fld' and v[1][2] == 'cfg_t' and v[1][3] == 'filename' and sym.root_of(v[1])[0] == 'p'
    for name in ('cfg_parse', 'cfg_parse_buf', 'cfg_parse_fp', 'cfg_lexer_include'):
        f = c.need(name)
        for p in ex.explore(f):
            for e in p.events:
                if e.kind != 'call':
                    continue
                if any(sym.mentions(a_, remembered) for a_ in e.args):
                    n += 1
                    if e.name not in TEXT_SINKS and not e.inlined and bad is None:
                        bad = (f, e)
    if bad is not None:
        f, e = bad
        chk.fail(rid, 'filename-decides:%s' % f.name, c.where(e.ins), '%s() feeds the file name it finds in the context into %s(): what the parse does then depends on which file an earlier parse of '
                 'this context read last (a stream or buffer parse keeps the old name)' % (f.name, e.name))
    else:
        chk.ok(rid, '%d calls that receive the remembered file name on the paths of the parse entry points and the include function' % n, 'free(), strdup() and message formatting only')
    chk.floor('%s calls receiving the remembered file name' % rid, n, 1)


def classified_globals(c, chk, rid='R8.0', rid5='R8.5'):
    """R8.0: every mutable global of both units falls under a named reset discipline (spec table DISCIPLINE): a new static - a
    counter, a flag, a cache of the last lookup - carries what one parse, one comment or one lookup did into the next"""
    gl = {}
    for m in (c.confuse, c.lexer):
        for name, g in mutable_globals(m).items():
            gl.setdefault(name, []).append(m)
    chk.floor('%s mutable globals' % rid, len(gl), 20)
    for name in sorted(gl):
        d = DISCIPLINE.get(name)
        ws = set()
        for m in gl[name]:
            ws |= writers(m, name)
        if d is None:
            chk.fail(rid, 'unclassified-global:%s' % name[1:], 'src/%s' % ('confuse.c' if gl[name][0] is c.confuse else 'lexer.l'),
                     'mutable global %s (written by %s) is covered by no reset discipline: state can leak from one parse into the next'
                     % (name[1:], sorted(ws) or 'nobody'))
        else:
            chk.ok(rid, name[1:], '%s; written by %s' % (d, ', '.join(sorted(ws))[:120] or '-'), nontrivial=False)
        if d == 'scanner-config':
            extra = sorted(w for w in ws if w not in CONFIG_WRITERS)
            if extra:
                chk.fail(rid5, 'config-written:%s' % name[1:], 'src/lexer.l', 'scanner configuration global %s is written by %s' % (name[1:], extra))
    return gl


def run(c, chk):
    chk.explanation = EXPLANATION
    chk.rule('R8.0', 'every mutable global of both units is classified under a reset discipline')
    chk.rule('R8.1', 'start condition: every scan begins in INITIAL (entry reset on all paths before the first token)')
    chk.rule('R8.2', 'include stack and scanner source stack are restored on every exit of the parse bracket')
    chk.rule('R8.3', 'scratch buffer is released and zeroed on every exit of the parse bracket')
    chk.rule('R8.4', 'the token value is assigned by every token-returning action (no stale value is read)')
    chk.rule('R8.5', 'confuse.c keeps no mutable global besides the token value; scanner configuration is written only by generated init/teardown code')
    chk.trusted = ['flex-generated buffer management (push/pop are inverse)', 'clang/opt IR']
    chk.assumptions = ['user callbacks do not parse re-entrantly']
    lex = c.lex
    ambient_errno(c, chk)
    refused_include_leaves_nothing(c, chk)
    # R8.11: the position a diagnostic names restarts with every parse
    if not isinstance(chk, report.SubCheck):
        from . import c06 as _c06
        chk.rule('R8.11', 'every parse starts counting lines at 1 and hands file name and line over consistently (rule R6.5 of C06): the line a diagnostic names does not depend on earlier parses')
        sub6 = report.SubCheck(chk, 'R8.11', 'C06', only=('R6.5',))
        _c06.run(c, sub6)
        sub6.done('position bookkeeping')
    # R8.14: the scanner (its buffer stack, its start condition) lives as long as the root context does: freeing a SECTION - which
    # happens in the middle of a parse when a titled section is given again - must not tear it down.  cfg_free() tells the two
    # apart by the context name: that comparison is with the whole word
    if not isinstance(chk, report.SubCheck):
        from . import c09 as _c09w
        _c09w.whole_comparisons(c, chk, 'R8.14', 'cfg_free() recognises the root context by comparing its whole name: no length-limited comparison lets a section whose name only begins '
                                'with the word pass for the root and tear the scanner down while a text is being read',
                                only_funcs={'cfg_free'}, consequence=' - freeing (replacing) a section of that name in the middle of a parse destroys the scanner: the rest of the text is never read')
    # R8.15: ... and what it takes for the root is the root (known finding on the tree as given: the test is by name alone)
    if not isinstance(chk, report.SubCheck):
        from . import c08_root as _c08r
        _c08r.teardown_by_identity(c, chk)
    # R8.10: what "+=" does depends on the text, not on flags a refused assignment of an earlier parse left behind
    from . import c01 as _c01
    from .. import parsermodel as _pm
    chk.rule('R8.10', 'the parser clears CFGF_RESET on every "+=" (appending never drops the values because an earlier, refused assignment left the bit set)')
    _c01.reset_typestate(c, chk_proxy(chk, {'R1.3': 'R8.10'}), _pm.ParserModel(c))

    # R8.9: the search path of the root outlives everything that happens to a section between two parses
    chk.rule('R8.9', 'replacing or removing a section never releases the search path it only borrows from the root (the next parse would resolve names through a freed list)')
    c07.searchpath_rule(c, chk_proxy(chk, {'R7.3': 'R8.9'}), sym.Explorer(c.modules, max_visits=2, mod_sets=c.mod_sets, max_paths=200000))
    from . import c16
    chk.rule('R8.8', 'the library writes only the state bits (reset, defaults-applied, modified, annotated) of an option\'s flag word: the declaration bits read the same in every later parse')
    c16.flag_words(c, chk, rid_opt='R8.8')
    gl = classified_globals(c, chk)
    sources_are_stacked(c, chk)
    position_is_text_only(c, chk)
    chk.analysed = {'mutable_globals': len(gl)}
    # confuse.c side
    cg = sorted(n for n in mutable_globals(c.confuse))
    if cg == ['@cfg_yylval']:
        chk.ok('R8.5', 'confuse.c globals', 'only cfg_yylval is mutable; everything else hangs off the cfg_t passed in', sample=True)
    else:
        for n in cg:
            if n != '@cfg_yylval' and n in DISCIPLINE:
                continue
        chk.ok('R8.5', 'confuse.c globals', 'mutable: %s (each classified above)' % cg) if all(n in DISCIPLINE for n in cg) else None

    ex = sym.Explorer(c.modules, max_visits=2, mod_sets=c.mod_sets, max_paths=50000)

    # ---- R8.1 ----------------------------------------------------------------------------
    INITIAL = 1 + 2 * lex.dfa.sc['INITIAL']
    resetters = set()
    for f in c.lexer.funcs.values():
        if f.name in ('cfg_yylex', 'cfg_yylex_destroy', 'yy_init_globals'):
            continue
        ps = [p for p in sym.Explorer([c.lexer], max_visits=2, mod_sets=lex.mod_sets, inline=('qbeg', 'qend')).explore(f) if p.end == 'ret']
        if ps and all(any(e.kind == 'store' and e.addr == ('g', '@yy_start') and e.val == ('c', INITIAL) for e in p.events) for p in ps):
            # the last store to yy_start on each path is INITIAL
            if all([e for e in p.events if e.kind == 'store' and e.addr == ('g', '@yy_start')][-1].val == ('c', INITIAL) for p in ps):
                resetters.add(f.name)
    # (A) every action path that can end a parse leaves INITIAL
    leaks = []
    conds = lex.dfa.rule_conditions()
    for r, aps in lex.actions.items():
        if r == lex.dfa.default_rule:
            continue
        for ap in aps:
            if not ap.returns:
                continue
            for scn in conds.get(r, []):
                fb = ap.final_begin()
                end_sc = fb if fb is not None else lex.dfa.sc[scn]
                if end_sc != lex.dfa.sc['INITIAL']:
                    leaks.append((lex.rule_name(r), scn))
    for scn, aps in lex.eof_actions.items():
        for ap in aps:
            if ap.returns and scn != 'INITIAL' and ap.final_begin() != lex.dfa.sc['INITIAL']:
                leaks.append(('<%s><<EOF>>' % scn, scn))
    # (B) entry reset
    pfn = c.need('cfg_parse_fp')
    okB = True
    nB = 0
    for p in ex.explore(pfn):
        if p.end != 'ret':
            continue
        pi = [i for i, e in enumerate(p.events) if e.kind == 'call' and e.name == 'cfg_parse_internal']
        if not pi:
            continue
        nB += 1
        before = [e.name for e in p.events[:pi[0]] if e.kind == 'call']
        if not any(n in resetters for n in before):
            okB = False
    if okB and nB and resetters:
        chk.ok('R8.1', 'entry reset', 'cfg_parse_fp() calls %s (must-stores INITIAL into yy_start) before the first token on all %d paths; '
               '%d action exits that leave another start condition are thereby harmless' % (sorted(resetters & {'cfg_scan_fp_begin'}) or sorted(resetters), nB, len(leaks)), sample=True)
    elif not leaks:
        chk.ok('R8.1', 'exit discipline', 'every action path that can end a parse leaves the scanner in INITIAL')
    else:
        who, scn = leaks[0]
        chk.fail('R8.1', 'start-condition-leak', 'src/lexer.l', 'a parse can end inside <%s> (%s and %d more exits) and nothing resets the start condition when the next scan begins: '
                 'the next parse starts in the middle of a string/comment' % (scn, who, len(leaks) - 1),
                 witness=['exits leaving a non-INITIAL start condition: ' + '; '.join('%s in <%s>' % x for x in leaks[:6])])
    # default-value scans and includes also begin with the reset (same function)
    begins = [(f.name, call) for f in c.all_funcs() for call in f.calls('cfg_yypush_buffer_state')]
    for fname, call in begins:
        if fname not in resetters:
            chk.fail('R8.1', 'push-without-reset:%s' % fname, c.where(call), '%s() pushes a scanner source without resetting the start condition' % fname)
    chk.floor('R8.1 bracket paths', nB, 2)

    # ---- R8.2 ----------------------------------------------------------------------------
    c07.include_rule(c, chk_proxy(chk, {'R7.6': 'R8.2'}), ex)
    # begin/end pairing in every bracket
    for fname in ('cfg_parse_fp', 'cfg_init_defaults'):
        f = c.need(fname)
        paths = [p for p in (ex.explore(f) if fname == 'cfg_parse_fp' else init_paths(c, f, ex))]
        bad = None
        n = 0
        for p in paths:
            if p.end not in ('ret', 'stop'):
                continue
            names = [e.name for e in p.events if e.kind == 'call']
            if 'cfg_scan_fp_begin' not in names:
                continue
            n += 1
            bi = names.index('cfg_scan_fp_begin')
            if 'cfg_scan_fp_end' not in names[bi:]:
                bad = p
        if bad:
            chk.fail('R8.2', 'unbalanced-scan:%s' % fname, c.where(f), '%s() begins a scan that it does not end on some path: the scanner source stack grows' % fname,
                     witness=[repr(e) for e in bad.events[-8:]])
        elif n:
            chk.ok('R8.2', '%s: scan bracket' % fname, 'cfg_scan_fp_begin() is followed by cfg_scan_fp_end() on all %d paths' % n)

    # ---- R8.3 ----------------------------------------------------------------------------
    f = c.lexer.funcs.get('cfg_scan_fp_end')
    if f is None:
        raise report.Broken('cfg_scan_fp_end() not found')
    ps = [p for p in sym.Explorer([c.lexer], max_visits=2, mod_sets=lex.mod_sets).explore(f) if p.end == 'ret']
    want = {'@cfg_qstring': 0, '@qstring_index': 0, '@qstring_len': 0}
    okall = True
    for p in ps:
        last = {}
        for e in p.events:
            if e.kind == 'store' and e.addr[0] == 'g' and e.addr[1] in want:
                last[e.addr[1]] = e.val
        freed = any(e.kind == 'call' and e.name == 'free' and sym.render(e.args[0]) == 'cfg_qstring' for e in p.events)
        nullq = any(t is False and sym.render(cn) in ('(cfg_qstring ne 0)',) for cn, t, _ in p.assume) or \
            any(t is True and sym.render(cn) in ('(cfg_qstring eq 0)',) for cn, t, _ in p.assume)
        if not all(last.get(k) == sym.C0 for k in want) or not (freed or nullq):
            okall = False
            chk.fail('R8.3', 'scratch-not-reset', c.where(f), 'cfg_scan_fp_end() does not release and zero the scratch buffer state on every path (%s)'
                     % {k[1:]: sym.render(v) for k, v in last.items()})
            break
    if okall:
        chk.ok('R8.3', 'cfg_scan_fp_end', 'frees cfg_qstring and zeroes cfg_qstring, qstring_index, qstring_len on all %d paths; the bracket calls it on every exit (R8.2)' % len(ps), sample=True)

    # ---- R8.4 ----------------------------------------------------------------------------
    from . import c02
    nret = 0
    bad = 0
    for r, aps in lex.actions.items():
        if r == lex.dfa.default_rule:
            continue
        for ap in aps:
            if ap.returns and not (sym.is_const(ap.retval) and ap.retval[1] in (0, -1)):
                nret += 1
                if not ap.of('yylval'):
                    bad += 1
                    chk.fail('R8.4', 'stale-token-value:%s' % lex.dfa.rule_text.get(r), 'src/lexer.l:%d' % lex.dfa.rule_line.get(r, 0),
                             '%s returns a token without assigning cfg_yylval: the parser reads the value of an earlier token (possibly of an earlier parse)' % lex.rule_name(r))
    if not bad:
        chk.ok('R8.4', '%d token-returning action paths' % nret, 'each assigns cfg_yylval before returning')
    chk.floor('R8.4 token-returning paths', nret, 12)


class chk_proxy(object):
    """re-labels the rule ids of a shared rule implementation"""

    def __init__(self, chk, mapping):
        self._chk = chk
        self._map = mapping

    def ok(self, rule, *a, **kw):
        return self._chk.ok(self._map.get(rule, rule), *a, **kw)

    def fail(self, rule, *a, **kw):
        return self._chk.fail(self._map.get(rule, rule), *a, **kw)

    def floor(self, *a, **kw):
        return self._chk.floor(*a, **kw)

    def rule(self, rule, text):
        rid = self._map.get(rule, rule)
        if rid not in getattr(self._chk, 'rules', {}):
            return self._chk.rule(rid, text)

    @property
    def extra(self):
        return self._chk.extra

    @property
    def rules(self):
        # (ids as the wrapped rule implementation knows them)
        inv = {v: k for k, v in self._map.items()}
        return set(inv.get(r, r) for r in getattr(self._chk, 'rules', {}))

    @property
    def tier(self):
        return self._chk.tier


def init_paths(c, f, ex):
    loops = _cfg.natural_loops(f)
    hdrs = [h for h in loops if not any(h in b and h != h2 for h2, b in loops.items())]
    if len(hdrs) != 1:
        return list(ex.explore(f))
    return list(ex.explore(f, start=hdrs[0], stop=[hdrs[0]]))


def ambient_errno(c, chk):
    """R8.6: errno is process-global state an earlier (failed) parse leaves behind: no decision of the value store may
    depend on the value errno had when the function was entered (only on what the conversion call itself set)"""
    chk.rule('R8.6', 'no branch of the value conversion depends on errno as it was on entry (what an earlier parse left there)')
    n = 0
    for fname in ('cfg_setopt', 'cfg_opt_setmulti'):
        fn = c.need(fname)
        ex = sym.Explorer(c.modules, max_visits=2, mod_sets=c.mod_sets, max_paths=100000)
        bad = None
        for p in ex.explore(fn):
            if p.end != 'ret':
                continue
            n += 1
            for cn, t, ins in p.assume:
                if sym.mentions(cn, lambda v: v[0] == 'ld' and v[1] == ('errno',) and len(v) > 2 and v[2] == (0, 0)):
                    bad = bad or (p, ins)
        if bad:
            chk.fail('R8.6', 'ambient-errno:%s' % fname, c.where(bad[1]) if bad[1] is not None else c.where(fn),
                     '%s() branches on the value errno had when it was called: what an earlier, unrelated failure left in errno '
                     '(e.g. ERANGE from a refused number) changes how this value is judged' % fname)
        else:
            chk.ok('R8.6', fname, 'errno is read only after the library (or the conversion call) has set it on that path', sample=True)
    chk.floor('R8.6 paths of the value store', n, 50)
    errno_reads(c, chk, 'R8.6')


def errno_readers(c):
    """functions (helpers excluded: they are explored inside their callers) that branch on a value loaded from errno"""
    out = []
    for m in c.modules:
        for f in m.funcs.values():
            if f.name in c.unknown_funcs:
                continue
            hit = False
            for g in c.deep_funcs(f):
                locs = set(i.res for i in g.instrs() if i.op == 'call' and i.callee_name() == '__errno_location')
                vals = set(i.res for i in g.instrs() if i.op == 'load' and i.ops and i.ops[0].kind == 'reg' and i.ops[0].name in locs)
                if any(i.op in ('icmp', 'switch') and any(o.kind == 'reg' and o.name in vals for o in i.ops) for i in g.instrs()):
                    hit = True
            if hit:
                out.append(f)
    return out


def errno_reads(c, chk, rid, funcs=None):
    """a decision that reads errno is sound only if, on that path, the library stored a value into errno beforehand (the
    'errno = 0' before a conversion) or the call just before is known to have failed (a failing call always sets it);
    otherwise the decision sees whatever an earlier, unrelated failure left there"""
    ex = sym.Explorer(c.modules, max_visits=2, mod_sets=c.mod_sets, max_paths=100000)
    nr = 0
    for fn in errno_readers(c):
        if funcs is not None and fn.name not in funcs:
            continue
        bad = None
        nread = 0
        for p in ex.explore(fn):
            for cn, t, ins in p.assume:
                if not sym.mentions(cn, lambda v: v[0] == 'ld' and v[1] == ('errno',)):
                    continue
                nread += 1
                seq = next((k for k, a in enumerate(p.assume) if a[2] is ins), len(p.assume))
                before = [e for e in p.events if e.seq <= seq]
                if any(e.kind == 'store' and e.addr == ('errno',) for e in before):
                    continue
                calls = [e for e in before if e.kind == 'call' and not e.inlined and e.name not in ('strlen', 'strcmp', 'strcasecmp', 'strspn', 'strcspn', 'strchr')]
                last = calls[-1] if calls else None
                # (a user callback is not a library call that sets errno when it fails: its verdict says nothing about errno)
                failed = last is not None and not last.name.startswith('indirect:') and \
                    any(sym.mentions(c2, lambda v: v == last.res) and not sym.mentions(c2, lambda v: v[0] == 'ld' and v[1] == ('errno',))
                        for c2, _, _ in p.assume[:seq + 1])
                if failed:
                    continue
                bad = bad or (p, ins, last)
        nr += 1 if nread else 0
        if bad:
            chk.fail(rid, 'ambient-errno:%s' % fn.name, c.where(bad[1]) if bad[1] is not None else c.where(fn),
                     '%s() branches on errno although nothing on that path has stored a value into it%s: the test sees what an earlier, unrelated '
                     'failure (e.g. ERANGE from a refused number in an earlier parse) left there'
                     % (fn.name, ' and the outcome of %s() was not examined' % bad[2].name if bad[2] is not None else ''))
        elif nread:
            chk.ok(rid, '%s: %d decisions on errno' % (fn.name, nread), 'each after a store to errno on that path, or after a call whose failure was established')
    return nr


def refused_include_leaves_nothing(c, chk):
    """R8.7: a refused include() costs nothing that later parses need: every failing exit of the include function has
    closed the file it opened (descriptors are a process-wide resource shared by all contexts)"""
    from .. import ownership as ow
    chk.rule('R8.7', 'every failing exit of the include function has closed the file it opened and released the name it made')
    fn = c.lexer.funcs.get('cfg_lexer_include')
    if fn is None:
        raise report.Broken('cfg_lexer_include() not found')
    ex = sym.Explorer(c.modules, max_visits=2, mod_sets=c.mod_sets, max_paths=50000)
    n = 0
    bad = None
    unbalanced = None
    for p in ex.explore(fn):
        if p.end != 'ret' or p.retval == sym.C0:
            continue
        n += 1
        for fd in ow.analyse_path(p, fn.name):
            if fd.kind == 'leak':
                bad = bad or fd
        # ... and has left the include stack as deep as it found it
        sp = [e for e in p.events if e.kind == 'store' and e.addr == ('g', '@cfg_include_stack_ptr')]
        if sp:
            from .. import bufsize
            net = bufsize.net_counter_change(sp, ('g', '@cfg_include_stack_ptr'))
            if net != 0:
                unbalanced = unbalanced or (p, sp[-1], net)
    if bad is not None:
        chk.fail('R8.7', 'include-fail-leak', c.where(bad.ev.ins) if bad.ev is not None else c.where(fn),
                 'cfg_lexer_include() fails without releasing what it acquired (%s): every refused include() leaves a file open, '
                 'and when the descriptor table is full no context can parse or include a file any more' % bad.detail)
    elif n and unbalanced is None:
        chk.ok('R8.7', 'cfg_lexer_include: %d failing exits' % n, 'file closed and name released on each; include stack as deep as on entry', sample=True)
    if unbalanced is not None:
        from .. import failpaths as _fp
        p, e, net = unbalanced
        chk.fail('R8.7', 'include-fail-depth', c.where(e.ins), 'cfg_lexer_include() can fail (%s) and leave the include stack %s than it found it: the slot '
                 'pushed for the refused include is never popped - its file pointer and name are closed and released again when the parse is aborted, and every later '
                 'include nests one level deeper' % (_fp.cond_text(p, 3), 'at an unknown depth' if net is None else '%d level(s) %s' % (abs(net), 'deeper' if net > 0 else 'shallower')))
    chk.floor('R8.7 failing exits of the include function', n, 4)
