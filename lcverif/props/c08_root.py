"""C08 R8.15 - the scanner outlives every section: it is torn down when the root context is freed, and what tells the root
from a section is not something a section can also have."""
from .. import sym, failpaths as fp

CMPS = ('strcmp', 'strcasecmp', 'strncmp', 'strncasecmp')


def teardown_by_identity(c, chk, rid='R8.15'):
    chk.rule(rid, 'cfg_free() tears the scanner down for the root context only: the test that tells the root from a section does not rest on a name that a section '
                  '(named after its option, a name the application chooses) can carry as well')
    f = c.need('cfg_free')
    ex = sym.Explorer(c.modules, max_visits=2, mod_sets=c.mod_sets, max_paths=50000)
    n = 0
    byname = None
    for p in ex.explore(f):
        td = [e for e in p.events if e.kind == 'call' and e.name == 'cfg_yylex_destroy']
        if not td:
            continue
        n += 1
        cm = [e for e in p.events[:p.events.index(td[0])] if e.kind == 'call' and e.name in CMPS and len(e.args) > 1 and
              any(sym.render(a).endswith('->name') for a in e.args[:2]) and any(a[0] == 'str' for a in e.args[:2])]
        cm = [e for e in cm if any(sym.mentions(cn, lambda v: v == e.res) for cn, t, _ in p.assume)]
        # anything else about the context that the path has looked at, other than "is this pointer member set"
        other = False
        for cn, t, _ in p.assume:
            if fp.is_null_assumption(cn, t) is not None:
                continue
            if any(sym.mentions(cn, lambda v: v == e.res) for e in cm):
                continue
            if sym.mentions(cn, lambda v: v[0] == 'ld' and v[1][0] == 'fld' and v[1][1] == ('p', 'cfg') and v[1][3] in ('flags', 'parent', 'root', 'level', 'depth')):
                other = True
        if cm and not other and byname is None:
            byname = (p, cm[0], td[0])
    if byname is None:
        if n:
            chk.ok(rid, 'cfg_free: %d paths that tear the scanner down' % n, 'none of them decided by the name of the context alone', sample=True)
        chk.floor('%s paths of cfg_free() that tear the scanner down' % rid, n, 1)
        return
    p, e, td = byname
    lit = next(a[1] for a in e.args[:2] if a[0] == 'str')
    # a section is named after its option ...
    ns = c.need('cfg_newsec')
    after_option = False
    for q in ex.explore(ns):
        for st in q.events:
            if st.kind == 'store' and st.addr[0] == 'fld' and st.addr[3] == 'name' and st.addr[2] == 'cfg_t' and st.val[0] == 'call':
                src = [x for x in q.events if x.kind == 'call' and x.res == st.val and x.args]
                if src and sym.render(src[0].args[0]).endswith('->name'):
                    after_option = True
    # ... unless option names equal to the word are refused somewhere
    refused = False
    for g in c.confuse.funcs.values():
        if g.name == 'cfg_free':
            continue
        for name in CMPS:
            for call in g.calls(name):
                if any(c.string_arg(call, k) == lit for k in (0, 1)):
                    refused = True
    chk.floor('%s paths of cfg_free() that tear the scanner down' % rid, n, 1)
    if after_option and not refused:
        chk.fail(rid, 'teardown-by-name:%s' % lit, c.where(td.ins), 'cfg_free() takes a context for the root - and destroys the scanner - when its name equals "%s", and nothing else; a section is named '
                 'after its option (cfg_newsec()) and no option name is refused: freeing an instance of a section option called "%s" in the middle of a parse (a CFGF_MULTI|CFGF_TITLE '
                 'section given again with the same title is replaced) destroys the scanner, the rest of the text is never read and the parse reports success'
                 % (lit, lit), witness=['path condition: ' + fp.cond_text(p, 6)])
    else:
        chk.ok(rid, 'cfg_free: root by name "%s"' % lit, 'sections cannot carry that name', sample=True)
