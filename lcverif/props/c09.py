"""C09 - setter, list and section API behaves as a simple typed store (structural clauses)."""
import re
from .. import sym, parsermodel as pm, failpaths as fp, report
from . import c10

EXPLANATION = (
    'Static analysis of the mutator API in the LLVM IR. Decided: (R9.1) in every public mutator each refusal caused by a '
    'type test, an index test, a flag test or an unresolved name comes before any effect on option state (same '
    'effect-before-refusal engine as C10); (R9.2) an append entry point clears the "still holds defaults" bit before '
    'the value setters can reach their free-the-defaults branch, and a replace entry point releases the old values '
    'first; (R9.3) every place that compares section titles takes its case-folding decision from the same flag word; '
    '(R9.4) a public wrapper returns or tests the result of the internal setter it calls. Equivalence with an abstract '
    'store over all call sequences is behavioural and NOT decided.')

MUTATORS = ['cfg_opt_getval', 'cfg_opt_setnint', 'cfg_opt_setnfloat', 'cfg_opt_setnbool', 'cfg_opt_setnstr', 'cfg_setnint', 'cfg_setnfloat', 'cfg_setnbool',
            'cfg_setnstr', 'cfg_setint', 'cfg_setfloat', 'cfg_setbool', 'cfg_setstr', 'cfg_setlist', 'cfg_addlist', 'cfg_opt_setmulti', 'cfg_setmulti',
            'cfg_addtsec', 'cfg_opt_rmnsec', 'cfg_rmnsec', 'cfg_opt_rmtsec', 'cfg_rmtsec', 'cfg_rmsec', 'cfg_opt_setcomment', 'cfg_setcomment']
RESET = 64


def run(c, chk):
    chk.explanation = EXPLANATION
    chk.rule('R9.1', 'wrong type / illegal index / wrong kind of option / unknown name are refused before any effect')
    chk.rule('R9.2', 'append entry points clear CFGF_RESET before the setters run; replace entry points release the old values first')
    chk.rule('R9.3', 'all title comparisons take their case-folding decision from the same flag word')
    chk.rule('R9.4', 'public wrappers return or test the result of the internal setter')
    chk.trusted = ['clang/opt IR', 'field-name based MOD summaries']
    chk.assumptions = ['sequences of calls are not explored; see C10 for the rejected-update clause']
    n = c10.analyse(c, chk, 'R9.1', 'R9.1', funcs=MUTATORS)
    chk.analysed = {'mutators': len(MUTATORS), 'refusing_paths': n}
    chk.floor('R9.1 refusing paths', n, 30)
    ex = sym.Explorer(c.modules, max_visits=2, mod_sets=c.mod_sets, max_paths=400000)

    # ---- R9.2 --------------------------------------------------------------------------------
    for fname, kind in (('cfg_addlist', 'append'), ('cfg_setlist', 'replace')):
        fn = c.need(fname)
        n = 0
        bad = None
        for p in ex.explore(fn):
            if p.end != 'ret':
                continue
            # the step that appends the elements: the shared worker, or (when it was folded in) the first typed setter
            ai = [i for i, e in enumerate(p.events) if e.kind == 'call' and not e.inlined and e.name in
                  ('cfg_addlist_internal', 'cfg_opt_setnint', 'cfg_opt_setnfloat', 'cfg_opt_setnbool', 'cfg_opt_setnstr')]
            if not ai:
                continue
            n += 1
            before = p.events[:ai[0]]
            if kind == 'append':
                cleared = any(e.kind == 'store' and e.field == 'flags' and e.val[0] == 'bin' and e.val[1] == 'and' and sym.is_const(e.val[3])
                              and not (e.val[3][1] & RESET) for e in before)
                if not cleared:
                    bad = (p, 'does not clear CFGF_RESET before appending: the first append on pristine defaults drops them (the setters free the defaults while the bit is set)')
            else:
                freed = any(e.kind == 'call' and e.name == 'cfg_free_value' for e in before)
                if not freed:
                    bad = (p, 'does not release the old values before storing the new ones')
        if bad:
            chk.fail('R9.2', '%s-reset:%s' % (kind, fname), c.where(fn), '%s() %s' % (fname, bad[1]), witness=[repr(e) for e in bad[0].events])
        elif n:
            chk.ok('R9.2', fname, '%s entry: %s before the elements are appended on %d paths'
                   % (kind, 'opt->flags &= ~CFGF_RESET' if kind == 'append' else 'cfg_free_value(opt)', n), sample=True)
        else:
            raise report.Broken('%s(): no path reaches the element-appending step' % fname)
    # the setters' free-the-defaults branch exists (otherwise the rule above is moot)
    gv = c.need('cfg_opt_getval')
    has = any(True for p in ex.explore(gv) if p.end == 'ret' and any(e.kind == 'call' and e.name == 'cfg_free_value' for e in p.events))
    chk.ok('R9.2', 'cfg_opt_getval', 'frees the values when CFGF_RESET is set' if has else 'has no RESET branch', nontrivial=False)

    # ---- R9.5: removal keeps the order of the rest ---------------------------------------------
    chk.rule('R9.5', 'removing a section shifts every later section down by exactly one slot and shrinks the count by one')
    rm = c.need('cfg_opt_rmnsec')
    ex3 = sym.Explorer(c.modules, max_visits=3, mod_sets=c.mod_sets, max_paths=50000)
    nrm = 0
    badrm = None
    for p in ex3.explore(rm):
        if p.end != 'ret' or p.retval != sym.C0:
            continue
        nrm += 1
        idx = ('p', 'index')
        moves = [e for e in p.events if e.kind == 'call' and e.name.startswith('llvm.memmove')]
        shifts = [e for e in p.events if e.kind == 'store' and e.addr[0] == 'idx' and sym.render(e.addr[1]) == 'opt->values']
        dec = [e for e in p.events if e.kind == 'store' and e.field == 'nvalues' and sym.root_of(e.addr) == ('p', 'opt')]
        if not dec or not (dec[-1].val[0] == 'bin' and dec[-1].val[1] == 'add' and dec[-1].val[3] == ('c', -1)):
            badrm = (p, 'the value count is not decremented by one')
            break
        is_last = any(cn[0] == 'icmp' and sym.render(cn[2]) == '(index add 1)' and ((cn[1] == 'eq') == t or (cn[1] == 'ne') != t) for cn, t, _ in p.assume)
        if moves:
            m = moves[0]
            d, s_, ln = m.args[0], m.args[1], m.args[2]
            # positions as "array + offset" (values[index + 1], (values + index) + 1 and &slot[1] are the same place)
            from .. import bufsize as _bs
            IDX = _bs.Lin(0, {('p', 'index'): 1})
            bd, od = _bs.split_ptr(d)
            bs_, os_ = _bs.split_ptr(s_)
            okd = sym.render(bd) == 'opt->values' and od is not None and od.eq(IDX)
            oks = sym.render(bs_) == 'opt->values' and os_ is not None and os_.eq(IDX.add(_bs.Lin(1)))
            okl = False
            ll = _bs.lin(ln)
            if ll is not None and ll.const == -8 and ll.terms.get(('p', 'index')) == -8:
                rest = [t for t in ll.terms if t != ('p', 'index')]
                okl = len(rest) == 1 and ll.terms[rest[0]] == 8 and ((rest[0][0] == 'call' and rest[0][1] == 'cfg_opt_size') or
                                                                      (sym.norm(rest[0])[0] == 'ld' and sym.norm(rest[0])[1][0] == 'fld' and sym.norm(rest[0])[1][3] == 'nvalues'))
            if not (okd and oks and okl):
                badrm = (p, 'the tail move is memmove(%s, %s, %s), expected (&values[index], &values[index+1], 8*(n-index-1))' % (sym.render(d), sym.render(s_), sym.render(ln)))
                break
        elif shifts:
            for e in shifts:
                i = e.addr[2]
                v = e.val
                want_src = plus1(i)
                oksh = v[0] == 'ld' and v[1][0] == 'idx' and sym.render(v[1][1]) == 'opt->values' and sym.norm(v[1][2]) == sym.norm(want_src)
                if not oksh:
                    badrm = (p, 'slot %s is filled from %s instead of from the slot after it' % (sym.render(i), sym.render(v)))
                    break
            if badrm:
                break
        elif not is_last:
            # neither a block move nor a shifting loop on a path that removes a non-last section
            pass
    if badrm:
        chk.fail('R9.5', 'rmnsec-shift', c.where(rm), 'cfg_opt_rmnsec(): %s - the remaining sections are reordered, duplicated or lost' % badrm[1],
                 witness=[repr(e) for e in badrm[0].events[-8:]])
    elif nrm:
        chk.ok('R9.5', 'cfg_opt_rmnsec: %d removing paths' % nrm, 'later slots move down by one (memmove of n-index-1 slots from index+1 to index), count decremented', sample=True)
    chk.floor('R9.5 removing paths', nrm, 1)

    copy_before_release(c, chk, ex)
    titles_may_be_null(c, chk, ex)
    untitled_does_not_end_search(c, chk, ex)
    unique_titles(c, chk, ex)
    typed_members(c, chk, 'R9.10')
    list_calls_need_a_list(c, chk)
    success_means_stored(c, chk)
    if not isinstance(chk, report.SubCheck):
        # R9.16: "the first explicit store drops the built-in defaults" - once: the mark that says "defaults still in place" is cleared
        # by the store that drops them, whatever the option held (the typestate rule of C01 R1.3)
        from . import c01 as _c01r, c08 as _c08r, c07 as _c07r
        chk.rule('R9.16', 'a value is appended under CFGF_RESET only after the defaults were dropped and the mark cleared (rule R1.3 of C01): the second store does not throw the first away')
        _c01r.reset_typestate(c, _c08r.chk_proxy(chk, {'R1.3': 'R9.16'}), pm.ParserModel(c))
        # R9.17: a removal leaves the option a well-formed (possibly empty) store: nothing released stays reachable from it
        chk.rule('R9.17', 'the removal API leaves no released pointer in the option (rule R7.2 of C07)')
        sub7 = report.SubCheck(chk, 'R9.17', 'C07', only=('R7.2',))
        _c07r.run(c, sub7)
        sub7.done('released pointers')
    list_element_width(c, chk)
    # R9.12: "an unknown name fails without effect", "removal by path": the by-name calls address what the resolver finds
    if not isinstance(chk, report.SubCheck):
        from . import c11 as _c11
        chk.rule('R9.12', 'by-name calls address exactly the option and the section instance named: one resolver, whole-name comparison, an instance number that is a whole '
                          'numeral within the option\'s range before it is narrowed (rules R11.1, R11.5 of C11)')
        sub = report.SubCheck(chk, 'R9.12', 'C11', only=('R11.1', 'R11.5'))
        _c11.run(c, sub)
        sub.done('name resolution')
    # R9.11: the store answers by the text it is given, not by what an earlier refused call left in errno
    from . import c08 as _c08
    chk.rule('R9.11', 'no decision of the bulk/text setters reads errno unless a value was stored into it first on that path (an earlier refused number does not make the next valid one fail)')
    if not _c08.errno_reads(c, _c08.chk_proxy(chk, {'R8.6': 'R9.11'}), 'R8.6', funcs={'cfg_setopt', 'cfg_opt_setmulti', 'cfg_setmulti'}):
        chk.ok('R9.11', 'text setters', 'none of them reads errno', nontrivial=False)

    # ---- R9.3 --------------------------------------------------------------------------------
    sites = title_sites(c, ex)
    # the merge site used by the parser ("a repeated title replaces that section in place") must fold case
    # like option names do: according to the context's flags
    if 'cfg_t' not in merge_words(c, sites):
        chk.fail('R9.3', 'title-merge-case:cfg_setopt', c.where(c.need('cfg_setopt')),
                 'cfg_setopt() no longer compares an incoming title with the existing ones under the context\'s CFGF_NOCASE (found: %s): '
                 'in a case-insensitive context a repeated title in other letter case is appended instead of replacing the section'
                 % (sorted(str(x) for x in sites.get('cfg_setopt', [])) or 'no comparison of its own'))
    # per function: the flag words that can switch case folding on (one test of the or-ed words, or one test per word)
    words = set('+'.join(sorted(str(x) for x in ws)) if None not in ws else None for ws in sites.values())
    if len(sites) < 2:
        raise report.Broken('title comparison sites not found (%s)' % sorted(sites))
    if len(words) == 1 and None not in words:
        chk.ok('R9.3', 'title comparisons in %s' % sorted(sites), 'all fold case according to %s' % ' | '.join(x + '.flags' for x in list(words)[0].split('+')), sample=True)
    else:
        desc = '; '.join('%s(): %s' % (k, '/'.join(sorted(str(x) for x in v))) for k, v in sorted(sites.items()))
        chk.fail('R9.3', 'title-case-source', c.where(c.need('cfg_opt_gettsecidx')),
                 'section titles are compared case-insensitively according to different flag words (%s): with CFGF_NOCASE on the context, '
                 'cfg_addtsec("a") does not see the existing section "A" but cfg_setopt() then matches and replaces it' % desc)
    chk.floor('R9.3 functions comparing titles', len(sites), 2)
    # ---- R9.18: "remove by title removes that section", "an unknown title fails without effect": titles and names are compared whole
    whole_comparisons(c, chk, 'R9.18', 'section titles and option names are compared as whole strings: no length-limited comparison stops at the length of one of its operands',
                      consequence=' - a title that is only the beginning of an existing one addresses that section (cfg_rmtsec("alp") removes "alpha")',
                      exclude_funcs=('cfg_free',))         # (the root test of cfg_free() is C08 R8.14)

    # ---- R9.4 --------------------------------------------------------------------------------
    from .c18 import result_used
    setters = {'cfg_opt_setnint', 'cfg_opt_setnfloat', 'cfg_opt_setnbool', 'cfg_opt_setnstr', 'cfg_opt_setmulti', 'cfg_opt_rmnsec', 'cfg_opt_rmtsec',
               'cfg_opt_setcomment', 'cfg_setopt'}
    # cfg_addlist_internal() can only fail on allocation failure: its dropped result is C18's (R18.3)
    nw = 0
    for fname in MUTATORS + ['cfg_addlist_internal']:
        f = c.func(fname) if fname == 'cfg_addlist_internal' else c.need(fname)
        if f is None:
            continue
        for call in c.deep_calls(f):
            n_ = call.callee_name()
            if n_ in setters and n_ != fname:
                if fname in ('cfg_setlist', 'cfg_addlist') and n_.startswith('cfg_opt_setn'):
                    continue      # the element loop of the list wrappers (also when the shared worker is folded in): C18 R18.3
                nw += 1
                if result_used(call.func, call):
                    chk.ok('R9.4', '%s -> %s' % (fname, n_), 'result returned or tested', nontrivial=False)
                else:
                    chk.fail('R9.4', 'dropped-result:%s:%s' % (fname, n_), c.where(call),
                             '%s() ignores the result of %s() and reports success regardless' % (fname, n_))
    chk.floor('R9.4 wrapper call sites', nw, 10)


def copy_before_release(c, chk, ex):
    """R9.6: a setter that stores a copy of a string argument makes the copy before it releases anything: the argument
    may point into what the option holds now (storing an option's current value again is a no-op for the store)"""
    chk.rule('R9.6', 'a setter duplicates its string argument before it releases any value of the option (the argument may be the option\'s own current value)')
    cg = c.callgraph
    rel = set(n for n, cs in cg.items() if 'free' in cs)
    changed = True
    while changed:
        changed = False
        for n, cs in cg.items():
            if n not in rel and cs & rel:
                rel.add(n)
                changed = True
    from .c19 import possible_types
    n = 0
    for fname in ('cfg_opt_setnstr', 'cfg_opt_setcomment', 'cfg_setopt', 'cfg_opt_setmulti'):
        f = c.need(fname)
        sparams = [('p', f.param_names.get(p_.name, p_.name)) for p_ in f.params if p_.ty == 'i8*']
        bad = None
        for p in ex.explore(f):
            if p.end != 'ret':
                continue
            for i, e in enumerate(p.events):
                if not (e.kind == 'call' and e.name in ('strdup', 'strndup') and e.args and e.args[0] in sparams):
                    continue
                n += 1
                if fname == 'cfg_setopt' and possible_types(c, p) == {'CFGT_SEC'}:
                    continue      # a title: default values (the only thing released first) do not exist for sections
                before = [x for x in p.events[:i] if x.kind == 'call' and not x.inlined and (x.name in rel or x.name == 'free')
                          and not (x.name == 'free' and x.args and x.args[0][0] == 'call')]
                if before and bad is None:
                    bad = (e, before[0])
        if bad:
            e, b = bad
            chk.fail('R9.6', 'release-before-copy:%s' % fname, c.where(e.ins),
                     '%s() calls %s(), which can release the option\'s current values, before it has duplicated its argument %s: '
                     'storing the value the option already has (e.g. cfg_setstr(cfg, n, cfg_getstr(cfg, n)) on a default) reads freed memory'
                     % (fname, b.name, sym.render(e.args[0])))
        else:
            chk.ok('R9.6', fname, 'the argument is duplicated before anything is released', sample=(fname == 'cfg_opt_setnstr'))
    chk.floor('R9.6 argument copies', n, 3)


def titles_may_be_null(c, chk, ex):
    """R9.8: a section of a titled option can exist without a title (the first one may be created with NULL): every place
    that compares titles first makes sure the stored title is there, as the title lookups do"""
    chk.rule('R9.8', 'a stored section title is compared only after it was tested against NULL (an untitled first section is allowed to exist)')
    n = 0
    for f in c.confuse.funcs.values():
        if f.name in c.unknown_funcs:
            continue
        if not any(True for _ in c.deep_calls(f, 'strcmp')) and not any(True for _ in c.deep_calls(f, 'strcasecmp')):
            continue
        bad = None
        for p in ex.explore(f):
            for e in p.events:
                if e.kind == 'call' and e.name in ('strcmp', 'strcasecmp'):
                    for a in e.args:
                        if a[0] == 'ld' and a[1][0] == 'fld' and a[1][3] == 'title' and a[1][2] == 'cfg_t':
                            n += 1
                            known = any((lambda na: na is not None and sym.norm(na[0]) == sym.norm(a) and na[1] is False)(fp_null(cn, t)) for cn, t, _ in p.assume[:e.seq])
                            if not known:
                                bad = bad or e
        if bad is not None:
            chk.fail('R9.8', 'title-null:%s' % f.name, c.where(bad.ins), '%s() passes a stored section title to %s() without having tested it against NULL: after '
                     'cfg_addtsec(cfg, name, NULL) created an untitled section, the next titled add or parse of that option crashes' % (f.name, bad.name))
    chk.ok('R9.8', '%d title comparisons' % n, 'each after a NULL test of the stored title (violations listed)', sample=True)
    chk.floor('R9.8 title comparisons (path instances)', n, 4)


def untitled_does_not_end_search(c, chk, ex):
    """R9.9: a search by title looks at every section: one without a title is passed over, it does not end the search"""
    from .. import loops as _loops, cfg as _cfg
    chk.rule('R9.9', 'a search by title passes over a section without a title and goes on (it does not answer "not found" for the sections behind it)')
    n = 0
    for fname in ('cfg_setopt', 'cfg_opt_gettsecidx', 'cfg_opt_rmtsec'):
        f = c.func(fname)
        if f is None:
            continue
        bad = None
        for g in c.deep_funcs(f):
            for h in sorted(_cfg.natural_loops(g)):
                try:
                    paths = list(_loops.iterate(ex, g, h))
                except sym.AnalysisIncomplete:
                    continue
                for p in paths:
                    untitled = any((lambda na: na is not None and na[1] is True and na[0][0] == 'ld' and na[0][1][0] == 'fld' and na[0][1][3] == 'title'
                                    and na[0][1][2] == 'cfg_t')(fp_null(cn, t)) for cn, t, _ in p.assume)
                    if not untitled:
                        continue
                    n += 1
                    if p.end != 'stop':
                        bad = bad or (g, p)
        if bad:
            g, p = bad
            chk.fail('R9.9', 'untitled-ends-search:%s' % fname, c.where(g), '%s() stops searching when it meets a section without a title: titled sections behind it are '
                     'not found (cfg_gettsec() fails, cfg_addtsec() replaces an existing section)' % fname)
        else:
            chk.ok('R9.9', fname, 'an untitled section is passed over', sample=(fname == 'cfg_opt_gettsecidx'))
    chk.floor('R9.9 untitled-section paths', n, 1)


MEMBER_TYPES = {'number': {'INT'}, 'fpnumber': {'FLOAT'}, 'boolean': {'BOOL'}, 'section': {'SEC'},
                # the two pointer members share their storage and their IR type; a function option keeps its arguments as strings
                'string': {'STR', 'PTR', 'FUNC'}, 'ptr': {'STR', 'PTR'}}


def typed_members(c, chk, rid):
    """a value slot is a union: which member is live is decided by the type of the option it belongs to.  Every function
    that reads or writes a member of a value slot has, on that path, tested the option's type for the matching enumerator
    (itself - the accesses inside a callee are that callee's business).  An entry point that lacks the test treats, when it
    is called for an option of another type, a number or a string as a section pointer: the wrong-type call is not refused
    but corrupts memory"""
    chk.rule(rid, 'every access to a member of a value slot is preceded, on its path, by a test of the option\'s type for the enumerator that member belongs to (a wrong-type call is refused, not carried out on the wrong member)')
    ex = sym.Explorer(c.modules, max_visits=2, mod_sets=c.mod_sets, max_paths=100000)
    nacc = 0
    nfun = 0
    for f in c.confuse.funcs.values():
        if f.name in c.unknown_funcs or getattr(f, 'internal', False):
            continue        # entry points only: a static function is called with options whose type its callers have established
        bad = None
        n = 0
        for p in ex.explore(f):
            types = set()
            for cn, t, _ in p.assume:
                d = pm.describe_cond(cn)
                neg = d.startswith('not(')
                if neg:
                    d = d[4:-1]
                if re.search(r'(->|\.)type eq ', d) and (t != neg):
                    types.add(d.split(' eq ')[1])
                if re.search(r'(->|\.)type ne ', d) and (t == neg):
                    types.add(d.split(' ne ')[1])
            used = {}

            def look(v, ins):
                def m(x):
                    if x[0] == 'fld' and len(x) > 3 and x[2] == 'cfg_value_t' and x[3] in MEMBER_TYPES:
                        used.setdefault(x[3], ins)
                    return False
                sym.mentions(v, m)
            for e in p.events:
                for v in [e.addr, e.val] + list(e.args or []):
                    if isinstance(v, tuple):
                        look(v, e.ins)
            for cn, t, ins in p.assume:
                look(cn, ins)
            if p.retval is not None:
                look(p.retval, p.last_ins)
            for m_, ins in used.items():
                n += 1
                if not (MEMBER_TYPES[m_] & types):
                    bad = bad or (m_, ins, p)
        nacc += n
        if n:
            nfun += 1
        if bad is not None:
            m_, ins, p = bad
            chk.fail(rid, 'untyped-member:%s:%s' % (f.name, m_), c.where(ins) if ins is not None else c.where(f),
                     '%s() uses the member "%s" of a value slot on a path that never tested the option\'s type for %s (%s): called for an option of another type it '
                     'takes that option\'s number or string for a %s' % (f.name, m_, '/'.join('CFGT_' + x for x in sorted(MEMBER_TYPES[m_])), fp.cond_text(p, 4) or 'no condition',
                                                                      'section pointer' if m_ == 'section' else m_))
        elif n:
            chk.ok(rid, '%s: %d member accesses' % (f.name, n), 'each under a test of the option type', sample=(f.name in ('cfg_setopt', 'cfg_addtsec', 'cfg_opt_getnsec')))
    chk.floor('%s functions that touch value-slot members' % rid, nfun, 8)


def flag_bit_established(p, bit, upto=None):
    """has the path (up to assumption index upto) shown that `bit` is set in an option's flag word?"""
    for cn, t, _ in (p.assume if upto is None else p.assume[:upto]):
        if cn[0] != 'icmp' or cn[1] not in ('eq', 'ne'):
            continue
        for a, b in ((cn[2], cn[3]), (cn[3], cn[2])):
            if not (a[0] == 'bin' and a[1] == 'and' and sym.is_const(b)):
                continue
            m = a[3] if sym.is_const(a[3]) else a[2] if sym.is_const(a[2]) else None
            w = a[2] if sym.is_const(a[3]) else a[3]
            if m is None or not sym.mentions(w, lambda v: v[0] == 'fld' and len(v) > 3 and v[3] == 'flags'):
                continue
            mask, k = m[1], b[1]
            holds_eq = (cn[1] == 'eq') == t
            if holds_eq and k == mask and (mask & bit):
                return True              # (flags & M) == M
            if mask == bit and ((k == 0 and not holds_eq)):
                return True              # (flags & BIT) != 0
    return False


def success_means_stored(c, chk, rid='R9.15'):
    """R9.15: "set(i) replaces element i": a scalar setter that reports success has stored - the by-index routine through the slot
    accessor (cfg_opt_getval(), which is also where the first explicit store drops the built-in defaults), the by-name routine
    through the by-index routine.  A shortcut that returns success early ("the slot already holds this value") skips the drop of
    the defaults and the validation"""
    chk.rule(rid, 'a scalar setter returns success only on paths that went through the storing routine (the slot accessor, or the by-index setter for a by-name call)')
    ex = sym.Explorer(c.modules, max_visits=2, mod_sets=c.mod_sets, max_paths=20000)
    n = 0
    bad = None
    for kind in ('int', 'float', 'bool', 'str'):
        low = 'cfg_opt_setn' + kind
        for name, through in ((low, ('cfg_opt_getval',)), ('cfg_setn' + kind, (low, 'cfg_opt_getval')), ('cfg_set' + kind, ('cfg_setn' + kind, low, 'cfg_opt_getval'))):
            f = c.func(name)
            if f is None:
                continue
            for p in ex.explore(f):
                if p.end != 'ret' or p.retval != sym.C0:
                    continue
                n += 1
                if not any(e.kind == 'call' and e.name in through for e in p.events):
                    # the result of the storing routine handed on (return cfg_opt_setn...(...)) is a call result, not the constant
                    bad = bad or (f, p)
    if bad is not None:
        f, p = bad
        chk.fail(rid, 'success-without-store:%s' % f.name, c.where(p.last_ins) if p.last_ins is not None else c.where(f), '%s() returns success on a path that never reaches the storing routine (%s): '
                 'the option keeps its built-in defaults next to the "set" value, the validation callback is not asked, and the call still reports that it has stored'
                 % (f.name, fp.cond_text(p, 4)))
    else:
        chk.ok(rid, 'scalar setters', '%d paths return the success constant, each after the storing routine' % n)
    chk.floor('%s success paths of scalar setters' % rid, n, 4)


def list_calls_need_a_list(c, chk):
    """R9.13: "calls with the wrong type ... fail without effect": the list calls (set / append a whole list) act on list options
    only.  Every path of theirs that does something to the option has shown that CFGF_LIST is set - a multi section holds
    several values too, but releasing "the old elements" of it destroys sections"""
    chk.rule('R9.13', 'cfg_setlist()/cfg_addlist() touch the option only on paths that have shown CFGF_LIST to be set')
    ex = sym.Explorer(c.modules, max_visits=2, mod_sets=c.mod_sets, max_paths=100000)
    n = 0
    for fname in ('cfg_setlist', 'cfg_addlist'):
        fn = c.need(fname)
        bad = None
        for p in ex.explore(fn):
            eff = [e for e in p.events if (e.kind == 'call' and not e.inlined and (e.name in ('cfg_free_value', 'cfg_addlist_internal') or e.name.startswith('cfg_opt_setn')))
                   or (e.kind == 'store' and e.field in ('flags', 'nvalues', 'values') and sym.object_of(e.addr)[0] != 'alloca')]
            if not eff:
                continue
            n += 1
            if not flag_bit_established(p, 2, eff[0].seq):
                bad = bad or (p, eff[0])
        if bad is not None:
            p, e = bad
            chk.fail('R9.13', 'list-call-on-non-list:%s' % fname, c.where(e.ins), '%s() reaches %s without having shown that the option is a list (%s): called for a multi section '
                     'it is not refused but releases the sections as "old elements"' % (fname, e.name + '()' if e.kind == 'call' else 'a store to ' + sym.render(e.addr), fp.cond_text(p, 4)))
        else:
            chk.ok('R9.13', fname, 'every path with an effect has tested CFGF_LIST')
    chk.floor('R9.13 effect paths of the list calls', n, 2)


def list_element_width(c, chk):
    """R9.14: the elements of cfg_setlist()/cfg_addlist() travel through "...": an integer element is what the caller wrote,
    an int (the default argument promotions leave it one; tests/ and examples/ pass plain int constants).  The worker
    fetches it with that width and widens it - fetching a long reads 32 bits the caller never wrote (a negative element
    comes out as a large positive number)"""
    chk.rule('R9.14', 'an integer element of the variadic list calls is fetched as int and sign-extended (the width the callers pass)')
    n = 0
    bad = None
    for f in c.confuse.funcs.values():
        if not any(p_.ty == '%struct.__va_list_tag*' for p_ in f.params) and not any(i.op == 'call' and (i.callee_name() or '').startswith('llvm.va_start') for i in f.instrs()):
            continue
        for call in f.calls('cfg_opt_setnint'):
            a = call.args[1]
            d = f.defs.get(a.name) if a.kind == 'reg' else None
            n += 1
            if not (d is not None and d.op == 'sext' and d.ops[0].ty == 'i32'):
                bad = bad or (f, call)
    if bad is not None:
        f, call = bad
        chk.fail('R9.14', 'list-int-width:%s' % sorted(c.owners(f.name))[0], c.where(call), '%s() hands cfg_opt_setnint() a list element that was not fetched as a 32-bit int and sign-extended: '
                 'callers pass int, so the upper half of what is read is whatever the register or stack slot held (cfg_addlist(cfg, "x", 1, -1) stores 4294967295)' % f.name)
    elif n:
        chk.ok('R9.14', 'variadic list worker: %d integer fetch(es)' % n, 'va_arg(ap, int), sign-extended to long')
    chk.floor('R9.14 integer fetches of the list worker', n, 1)


def fp_null(cn, t):
    from ..failpaths import is_null_assumption
    return is_null_assumption(cn, t)


def unique_titles(c, chk, ex):
    """R9.7: cfg_addtsec() adds a section only when no section of that option has the title: the path that goes on to
    create one has established 'not found' for the WHOLE range of positions (also position 0)"""
    chk.rule('R9.7', 'adding a titled section is refused whenever a section with that title exists, at any position')
    fn = c.need('cfg_addtsec')
    n = 0
    bad = None
    for p in ex.explore(fn):
        if p.end != 'ret':
            continue
        so = [i for i, e in enumerate(p.events) if e.kind == 'call' and e.name == 'cfg_setopt']
        if not so:
            continue
        n += 1
        look = [e for e in p.events[:so[0]] if e.kind == 'call' and e.name in ('cfg_gettsec', 'cfg_opt_gettsec', 'cfg_opt_gettsecidx')]
        if not look:
            bad = bad or (p, 'without looking for an existing section with that title')
            continue
        e = look[-1]
        ok = False
        for cn, t, _ in p.assume:
            if cn[0] != 'icmp' or e.res not in (cn[2], cn[3]):
                continue
            other = cn[3] if cn[2] == e.res else cn[2]
            if not sym.is_const(other):
                continue
            k, pr = other[1], cn[1]
            if cn[3] == e.res:      # constant on the left: mirror the predicate
                pr = {'slt': 'sgt', 'sgt': 'slt', 'sle': 'sge', 'sge': 'sle'}.get(pr, pr)
            if e.name == 'cfg_opt_gettsecidx':
                # what is known must imply result < 0
                implies = (pr == 'slt' and t and k <= 0) or (pr == 'sle' and t and k <= -1) or (pr == 'sge' and not t and k <= 0) or \
                          (pr == 'sgt' and not t and k <= -1) or (pr == 'eq' and t and k < 0) or (pr == 'ne' and not t and k < 0)
                ok = ok or implies
            else:
                ok = ok or (k == 0 and ((pr == 'eq') == t))
        if not ok:
            bad = bad or (p, 'although the lookup %s() was not shown to have found nothing (a hit at position 0 passes the test)' % e.name)
    if bad:
        chk.fail('R9.7', 'duplicate-title-check', c.where(fn), 'cfg_addtsec() goes on to create the section %s: the existing section with that title is replaced by an empty one' % bad[1],
                 witness=['path condition: ' + ' && '.join(('' if t else '!') + sym.render(cn) for cn, t, _ in bad[0].assume[-4:])])
    elif n:
        chk.ok('R9.7', 'cfg_addtsec: %d creating paths' % n, 'each has established that no section has the title', sample=True)
    chk.floor('R9.7 creating paths of cfg_addtsec', n, 1)


def title_sites(c, ex):
    """{function: set of struct names whose flags word decides case folding of a title comparison}"""
    sites = {}
    combos = title_sites.combos = {}
    for f in c.confuse.funcs.values():
        if f.name in c.unknown_funcs:
            continue          # a helper is explored as part of the function it was split off
        if not any(True for _ in c.deep_calls(f, 'strcasecmp')) and not any('@strcasecmp' in (i.text or "") for g in c.deep_funcs(f) for i in g.instrs()):
            continue          # (the routine may also be picked once and called through a pointer)
        for p in ex.explore(f):
            for e in p.events:
                if e.kind == 'call' and e.name == 'strcasecmp':
                    if not any(sym.render(a).endswith('->title') for a in e.args):
                        continue
                    word = None
                    for cn, t, _ in p.assume[:e.seq]:
                        d = pm.describe_cond(cn)
                        if d.endswith('has NOCASE') and t:
                            ws = sorted(set(a[2] for a in find_flags_addrs(cn)))
                            if ws:
                                word = '+'.join(ws)
                    for w_ in (word.split('+') if word else [None]):
                        sites.setdefault(f.name, set()).add(w_)
                    combos.setdefault(f.name, set()).add(word)
    return sites


def merge_words(c, sites):
    """flag words under which cfg_setopt() compares an incoming title: its own comparison, or that of the title lookup
    it delegates to"""
    out = set(sites.get('cfg_setopt', set()))
    for call in c.deep_calls(c.need('cfg_setopt')):
        n = call.callee_name()
        if n in sites and n != 'cfg_setopt':
            out |= set(sites[n])
    return out


LIMITED_CMP = ('strncmp', 'strncasecmp', 'memcmp', 'bcmp')


def whole_comparisons(c, chk, rid, text, only_funcs=None, operand=None, consequence='', exclude_funcs=()):
    """names, titles and the fixed words of the library are compared as whole strings: a length-limited comparison whose
    length is the length of one of its operands (or a constant not beyond the end of a literal operand) is a PREFIX test -
    "alp" then equals "alpha".  Expected number of such comparisons: none (the library uses strcmp()/strcasecmp()); the
    floor counts the whole-string comparisons the scan has seen."""
    chk.rule(rid, text)
    operand = operand or (lambda r: r.endswith('->title') or r.endswith('->name') or 'title' in r)
    ex = sym.Explorer(c.modules, max_visits=2, mod_sets=c.mod_sets, max_paths=20000)
    nwhole = sum(1 for f in c.confuse.funcs.values() for n in ('strcmp', 'strcasecmp') for _ in f.calls(n))
    bad = None
    nlim = 0
    for f in c.confuse.funcs.values():
        if (only_funcs is not None and f.name not in only_funcs) or f.name in exclude_funcs:
            continue
        if f.name in c.unknown_funcs and only_funcs is None:
            continue          # a helper is explored as part of the function it was split off
        if not any(True for n in LIMITED_CMP for _ in c.deep_calls(f, n)):
            continue
        for p in ex.explore(f):
            for e in p.events:
                if not (e.kind == 'call' and e.name in LIMITED_CMP and e.args and len(e.args) >= 3):
                    continue
                a, b, n = e.args[0], e.args[1], e.args[2]
                if not (operand(sym.render(a)) or operand(sym.render(b)) or a[0] == 'str' or b[0] == 'str'):
                    continue
                nlim += 1
                why = None
                lit = next((x for x in (a, b) if x[0] == 'str'), None)
                if sym.is_const(n):
                    if lit is None or n[1] <= len(lit[1]):
                        why = 'only the first %d bytes are compared' % n[1]
                else:
                    for e2 in p.events[:e.seq + 1]:
                        if e2.kind == 'call' and e2.name in ('strlen', 'strnlen') and e2.args and n == e2.res and sym.norm(e2.args[0]) in (sym.norm(a), sym.norm(b)):
                            why = 'the length compared is strlen(%s), the length of one operand: the other one only has to begin with it' % sym.render(e2.args[0])
                if why and bad is None:
                    bad = (f, e, why)
    if bad is not None:
        f, e, why = bad
        chk.fail(rid, 'prefix-comparison:%s' % f.name, c.where(e.ins), '%s() compares %s with %s by %s(): %s%s' % (f.name, sym.render(e.args[0]), sym.render(e.args[1]), e.name, why, consequence))
    else:
        chk.ok(rid, '%d whole-string comparisons, %d length-limited' % (nwhole, nlim), 'no comparison of a name, a title or a fixed word stops at the length of one operand', sample=True)
    chk.floor('%s whole-string comparison call sites' % rid, nwhole + nlim, 5)


def plus1(i):
    if sym.is_const(i):
        return ('c', i[1] + 1)
    if i[0] == 'bin' and i[1] == 'add' and sym.is_const(i[3]):
        return ('bin', 'add', i[2], ('c', i[3][1] + 1))
    return ('bin', 'add', i, ('c', 1))


def find_flags_addrs(cn):
    """every ('fld', base, struct, 'flags') address inside an is_set() condition (a test may combine several words)"""
    found = []

    def walk(v):
        if isinstance(v, tuple):
            if v and v[0] == 'fld' and len(v) > 3 and v[3] == 'flags':
                found.append(v)
            for x in v:
                walk(x)
    walk(cn)
    return found


def find_flags_addr(cn):
    """the ('fld', base, struct, 'flags') address inside an is_set() condition"""
    found = []

    def walk(v):
        if isinstance(v, tuple):
            if v and v[0] == 'fld' and v[3] == 'flags':
                found.append(v)
            for x in v:
                walk(x)
    walk(cn)
    return found[0] if found else None
