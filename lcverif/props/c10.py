"""C10 - a rejected update leaves the option exactly as it was (effect-before-refusal analysis)."""
import re

from .. import sym, ownership as ow, failpaths as fp, parsermodel as pm, report
from . import c07

EXPLANATION = (
    'Static effect-before-refusal analysis over the LLVM IR. Effects are stores to option state (value count, value '
    'vector, value slots, RESET/MODIFIED bits, annotation) of objects that existed before the call, and calls whose '
    'bottom-up MOD summary touches those locations. For every refusing entry point named by the property and every '
    'residual path that returns failure for a reason other than an allocation failure (those are C18\'s): either no '
    'effect lies on the path before the refusal, or the path runs through a restore block that re-assigns every '
    'option-level location the prefix may have modified from a copy saved before the first effect, with the original '
    'value vector detached before it could be touched. A callee that is itself in the verified set and is assumed to '
    'have refused counts as effect-free (induction). The veto of a pre-set validation callback must precede every effect.')

STATE_FIELDS = {'nvalues', 'values', 'flags', 'comment', 'value', 'values[]', 'string', 'section', 'number', 'fpnumber', 'boolean'}
OPTION_LEVEL = {'nvalues', 'values', 'flags', 'comment'}
REFUSERS = ['cfg_opt_getval', 'cfg_opt_setnint', 'cfg_opt_setnfloat', 'cfg_opt_setnbool', 'cfg_opt_setnstr',
            'cfg_setnint', 'cfg_setnfloat', 'cfg_setnbool', 'cfg_setnstr', 'cfg_setint', 'cfg_setfloat', 'cfg_setbool', 'cfg_setstr',
            'cfg_setlist', 'cfg_addlist', 'cfg_opt_setmulti', 'cfg_setmulti', 'cfg_addtsec', 'cfg_opt_rmnsec', 'cfg_rmnsec', 'cfg_opt_rmtsec',
            'cfg_rmtsec', 'cfg_rmsec', 'cfg_opt_setcomment', 'cfg_setcomment', 'cfg_setopt']
NOT_EFFECTS = {'cfg_error', 'cfg_getopt', 'cfg_getopt_secidx', 'cfg_gettsec', 'cfg_opt_gettsec', 'cfg_opt_getnsec', 'cfg_opt_size', 'cfg_opt_gettsecidx',
               'cfg_parse_boolean', 'strtol', 'strtod', 'strcmp', 'strcasecmp', 'free'}


def is_failure(fn, v):
    if v is None:
        return False
    if fn.retty.endswith('*'):
        return v == sym.C0
    return sym.is_const(v) and v[1] != 0


def path_effects(c, fn, p, verified):
    """[(event, description, fields)] of effects on pre-existing option state, in order"""
    out = []
    nf = ow.null_facts(p)
    for e in p.events:
        if e.kind == 'store':
            if e.addr[0] in ('alloca', 'errno') or e.addr == ('errno',) or sym.object_of(e.addr)[0] == 'alloca':
                continue
            root = sym.root_of(e.addr)
            if root[0] == 'alloca' or (root[0] == 'call' and root[1] in ('calloc', 'malloc', 'strdup', 'realloc', 'cfg_addval')):
                continue
            f = e.field
            if f in STATE_FIELDS or (e.addr[0] == 'fld' and e.addr[3] in STATE_FIELDS):
                out.append((e, 'store to %s' % sym.render(e.addr), {e.addr[3] if e.addr[0] == 'fld' else f}))
        elif e.kind == 'call':
            if e.inlined:
                continue
            n = e.name
            if n in NOT_EFFECTS or n.startswith('indirect:') or n.startswith('llvm.dbg'):
                continue
            if n.startswith('llvm.memcpy') or n.startswith('llvm.memset'):
                dst = e.args[0]
                if sym.root_of(dst)[0] == 'alloca':
                    continue
                out.append((e, '%s into %s' % (n, sym.render(dst)), {'values'}))
                continue
            mods = c.mod_sets.get(n)
            if n in verified and callee_refused(c, p, e, nf):
                continue            # induction: a verified callee that refused had no effect
            if mods is None:
                if c.func(n) is None:
                    continue        # unknown external: not option state
                out.append((e, 'call %s()' % n, set(OPTION_LEVEL)))
            elif mods & STATE_FIELDS:
                if e.args and all(sym.object_of(a)[0] == 'alloca' for a in e.args[:1]) and n in ('cfg_free_value',):
                    continue        # operates on a local copy
                out.append((e, 'call %s()' % n, mods & STATE_FIELDS))
    return out


def callee_refused(c, p, e, nf):
    g = c.func(e.name)
    if g is None or e.res is None:
        return False
    if g.retty.endswith('*'):
        return nf.get(e.res) is True
    for cn, t, _ in p.assume:
        if cn[0] == 'icmp' and e.res in (cn[2], cn[3]):
            other = cn[3] if cn[2] == e.res else cn[2]
            if sym.is_const(other) and cn[1] in ('eq', 'ne'):
                eq = (cn[1] == 'eq') == t
                if (other[1] == 0 and not eq) or (other[1] != 0 and eq):
                    return True
    # result passed straight through as this function's (failing) return value
    return p.retval == e.res


def restored(p, effs):
    """does the path re-establish every option-level location touched by the effects from values saved before the first effect"""
    first = p.events.index(effs[0][0])
    touched = set()
    for e_, _, flds in effs:
        touched |= set(f for f in flds if f in OPTION_LEVEL and not (f == 'comment' and e_.kind == 'call' and
                                                                     (e_.name == 'cfg_setopt' or not any(sym.root_of(a) == ('p', 'opt') and a[0] == 'p' for a in e_.args))))
        # (the annotation: cfg_setopt() reaches it only through the dropping of defaults, which keeps it - R10.4; the field-name
        # based MOD summary cannot tell; a callee that is not handed the option itself - the release of a section held in a value -
        # writes the member of that name in another object.  An explicit store, or the release routine called on the option, counts)
        if flds & {'value', 'values[]', 'string', 'section', 'number', 'fpnumber', 'boolean'}:
            touched.add('values')
    # saved copies: a by-value copy into a local before the first effect, or loads stored in locals
    saved_copy = None
    for e in p.events[:first + 1]:
        if e.kind == 'call' and e.name.startswith('llvm.memcpy') and e.args[0][0] == 'alloca':
            saved_copy = e.args[0]
    def entry_value_of(v, addr):
        """v is the value the location had when the function was entered (read before any write)"""
        return v[0] == 'ld' and sym.norm(v[1]) == sym.norm(addr) and len(v) > 2 and v[2] == (0, 0)
    has_entry_saves = any(e.kind == 'store' and e.addr[0] == 'fld' and sym.root_of(e.addr)[0] == 'p'
                          and sym.mentions(e.val, lambda x: x[0] == 'ld' and len(x) > 2 and x[2] == (0, 0) and x[1][0] == 'fld' and sym.root_of(x[1])[0] == 'p')
                          for e in p.events[first:])
    if saved_copy is None and not has_entry_saves:
        return (False, 'no copy of the option is saved before the first effect')
    # the value vector must be detached (set to NULL) before any callee can touch it
    detach = [i for i, e in enumerate(p.events) if e.kind == 'store' and e.addr[0] == 'fld' and e.addr[3] == 'values' and e.val == sym.C0]
    first_call = next((i for i, e in enumerate(p.events) if e.kind == 'call' and (e, ) and any(e is x[0] for x in effs)), None)
    if 'values' in touched and (not detach or (first_call is not None and detach[0] > first_call)):
        return (False, 'the old value vector is not detached before the update starts, so the update modifies it in place')
    def is_restore(e):
        if e.kind != 'store':
            return False
        v = e.val
        if v[0] == 'ld' and sym.norm(v[1]) == sym.norm(e.addr):
            return True        # a value read from this very location earlier on the path
        if sym.mentions(v, lambda x: entry_value_of(x, e.addr)):
            return True
        return saved_copy is not None and sym.mentions(v, lambda x: x[0] == 'ld' and (x[1] == saved_copy or (x[1][0] == 'fld' and x[1][1] == saved_copy) or x[1][0] == 'alloca'))
    real = [x for x in effs if not is_restore(x[0])]
    if not real:
        return (True, 'only restoring stores')
    calls_ = [x for x in real if x[0].kind == 'call']
    last = p.events.index((calls_[-1] if calls_ else real[0])[0])
    missing = []
    for f in sorted(touched):
        ok = False
        for e in p.events[last:]:
            if e.kind == 'store' and e.addr[0] == 'fld' and e.addr[3] == f and sym.root_of(e.addr)[0] == 'p':
                v = e.val
                if f == 'flags':
                    # (flags & ~M) | (saved.flags & M): the modified bits come from the copy / the entry value
                    if sym.mentions(v, lambda x: x[0] == 'ld' and x[1][0] == 'fld' and x[1][1] == saved_copy and x[1][3] == 'flags'):
                        ok = True
                    if sym.mentions(v, lambda x: entry_value_of(x, e.addr)):
                        ok = True
                elif v[0] == 'ld' and v[1][0] == 'fld' and v[1][1] == saved_copy and v[1][3] == f:
                    ok = True
                elif v[0] == 'ld' and v[1][0] == 'fld' and v[1][3] == f and False:
                    ok = True
                elif v[0] == 'ld' and v[1][0] in ('alloca',):
                    ok = True
                elif v[0] == 'ld' and sym.norm(v[1]) == sym.norm(e.addr):
                    # the value read from this very field before it was cleared (saved in a local)
                    ok = True
                elif entry_value_of(v, e.addr):
                    ok = True
        if not ok:
            missing.append(f)
    if missing:
        return (False, 'the revert does not restore %s' % ', '.join(missing))
    if 'values' in touched and calls_:
        # what the failed update built is released before the old vector is put back (or was shown not to exist)
        back = [k for k, e in enumerate(p.events) if k >= last and e.kind == 'store' and e.addr[0] == 'fld' and e.addr[3] == 'values' and sym.root_of(e.addr)[0] == 'p' and e.val != sym.C0]
        if back:
            seg = p.events[last:back[-1]]
            released = any(e.kind == 'call' and ((e.name == 'cfg_free_value' and e.args and e.args[0][0] == 'p') or
                                                 (e.name == 'free' and e.args and sym.mentions(e.args[0], lambda v: v[0] == 'fld' and len(v) > 3 and v[3] == 'values' and sym.root_of(v)[0] == 'p')))
                           for e in seg)
            nothing = any((lambda na: na is not None and na[1] is True and na[0][0] == 'ld' and na[0][1][0] == 'fld' and na[0][1][3] == 'values' and sym.root_of(na[0][1])[0] == 'p')
                          (fp.is_null_assumption(cn, t)) for cn, t, _ in p.assume)
            if not released and not nothing:
                return (False, 'the revert puts the old value vector back without having released the one the failed update built (a slot array allocated before the failure is lost)')
    if 'flags' in touched:
        # the restored bits must cover RESET and MODIFIED
        okmask = False
        for e in p.events[last:]:
            if e.kind == 'store' and e.addr[0] == 'fld' and e.addr[3] == 'flags':
                if sym.mentions(e.val, lambda x: x[0] == 'bin' and x[1] == 'and' and sym.is_const(x[3]) and (x[3][1] & 4160) == 4160 and
                                sym.mentions(x[2], lambda y: (y[0] == 'ld' and y[1][0] == 'fld' and y[1][1] == saved_copy) or entry_value_of(y, e.addr))):
                    okmask = True
        if not okmask:
            return (False, 'the revert does not take both CFGF_RESET and CFGF_MODIFIED back from the saved copy')
    return (True, 'restored %s from the copy saved before the first effect' % ', '.join(sorted(touched)))


def analyse(c, chk, rule_plain, rule_restore, funcs=None, skip_keys=(), alloc_paths=False):
    ex = sym.Explorer(c.modules, max_visits=2, mod_sets=c.mod_sets, max_paths=200000)
    verified = set(REFUSERS)
    seen = set()
    total = 0
    for name in (funcs or REFUSERS):
        fn = c.need(name)
        nfail = 0
        bad = 0
        rest = 0
        for p in ex.explore(fn):
            handed_on = None
            if p.end == 'ret' and p.retval is not None and p.retval[0] == 'call' and c.func(p.retval[1]) is not None and not fn.retty.endswith('*'):
                # the verdict of a callee is handed on: when that callee refuses, this is a refusing path too
                handed_on = next((e for e in p.events if e.kind == 'call' and e.res == p.retval), None)
            if p.end != 'ret' or not (is_failure(fn, p.retval) or handed_on is not None):
                continue
            if c07.is_alloc_failure_path(p) and not alloc_paths:
                continue
            nfail += 1
            effs = path_effects(c, fn, p, verified)
            if handed_on is not None:
                # only what was done before the deciding call counts (that call itself is judged on its own)
                hi = p.events.index(handed_on)
                effs = [x for x in effs if p.events.index(x[0]) < hi]
            if not effs:
                continue
            ok, why = restored(p, effs)
            if ok:
                rest += 1
                continue
            first = effs[0]
            what = re.sub(r'#\d+', '', first[1])
            key = 'effect-before-refusal:%s:%s' % (name, what.replace('call ', '').replace('store to ', ''))
            if key in seen:
                continue
            seen.add(key)
            bad += 1
            chk.fail(rule_plain if len(effs) and 'copy' in why else rule_plain, key, c.where(first[0].ins),
                     '%s() refuses (%s) after it has already changed the option: %s; %s' % (name, fp.cond_text(p, 3), what, why),
                     witness=['effects before the refusal: ' + '; '.join(re.sub(r'#\d+', '', x[1]) for x in effs[:6]), 'path condition: ' + fp.cond_text(p, 8)])
        total += nfail
        if not bad:
            chk.ok(rule_restore if rest else rule_plain, '%s: %d refusing paths' % (name, nfail),
                   'no effect before any refusal' + ('; %d path(s) through a complete restore block' % rest if rest else ''),
                   sample=(name in ('cfg_opt_setmulti', 'cfg_opt_getval', 'cfg_addtsec', 'cfg_opt_rmnsec')))
    return total


def run(c, chk):
    chk.explanation = EXPLANATION
    chk.rule('R10.1', 'no effect on option state precedes a refusal')
    chk.rule('R10.2', 'or the refusing path restores every touched location from a copy saved before the first effect')
    chk.rule('R10.3', 'the veto of a pre-set validation callback precedes every effect')
    chk.trusted = ['clang/opt IR', 'MOD summaries are field-name based (over-approximate)']
    chk.assumptions = ['allocation-failure paths belong to C18', 'user callbacks do not modify the option themselves']
    # what counts as option state: the frozen list, and every other member of the option record that the storing routines write
    # (a member added later - a capacity, a cache - is state a revert has to put back like the rest)
    names = set(c.confuse.struct_fields.get('%struct.cfg_opt_t') or ())
    grown = set()
    for fname in ('cfg_setopt', 'cfg_addval', 'cfg_opt_getval'):
        grown |= (c.mod_sets.get(fname) or set()) & names
    grown -= STATE_FIELDS
    STATE_FIELDS.update(grown)
    OPTION_LEVEL.update(grown)
    n = analyse(c, chk, 'R10.1', 'R10.2')
    chk.analysed = {'refusing_entry_points': len(REFUSERS), 'refusing_paths': n, 'state_members_beyond_the_list': sorted(grown)}
    chk.floor('R10.1 refusing paths', n, 40)
    # R10.4: what a revert relies on - the annotation survives the dropping of defaults
    from . import c01
    c01.defaults_dropped_under_reset(c, chk, 'R10.4')
    # R10.3
    ex = sym.Explorer(c.modules, max_visits=2, mod_sets=c.mod_sets, max_paths=20000)
    for fname in ('cfg_setnint', 'cfg_setnfloat', 'cfg_setnstr'):
        fn = c.need(fname)
        nv = 0
        for p in ex.explore(fn):
            if p.end != 'ret':
                continue
            v2 = [e for e in p.events if e.kind == 'call' and e.name == 'indirect:validcb2']
            if not v2:
                continue
            i = p.events.index(v2[0])
            before = [e for e in p.events[:i] if (e.kind == 'store' and e.addr[0] != 'alloca') or
                      (e.kind == 'call' and (c.mod_sets.get(e.name) or set()) & STATE_FIELDS)]
            nv += 1
            if before:
                chk.fail('R10.3', 'effect-before-veto:%s' % fname, c.where(before[0].ins), '%s() changes the option before asking the pre-set validation callback' % fname)
                break
        else:
            if nv:
                chk.ok('R10.3', fname, 'validcb2 is the first thing that happens on %d paths' % nv)
            else:
                chk.fail('R10.3', 'no-veto:%s' % fname, c.where(fn), '%s() never consults the pre-set validation callback' % fname)

    # R10.5 / R10.6: two of the refusals named by the property are decided by other machinery: "a section whose title exists"
    # by the title comparison (C09), "removing one that does not exist" by the path resolver (C11)
    from . import c09, c11
    chk.rule('R10.5', 'adding a section is refused whenever its title exists: every title comparison folds case by the same flag word, the existence test covers every position (rules R9.3, R9.7 of C09)')
    sub = report.SubCheck(chk, 'R10.5', 'C09', only=('R9.3', 'R9.7'))
    c09.run(c, sub)
    sub.done('title existence test')
    chk.rule('R10.6', 'a path that does not resolve is refused and changes nothing: the resolver writes no tree state, carries no index over between steps and never goes on from "not found" (rules R11.2, R11.5, R11.7 of C11)')
    # R10.11: a removal or update that names a title the option does not have is refused: titles are compared whole (rule R9.18 of C09)
    from . import c09 as _c09w
    _c09w.whole_comparisons(c, chk, 'R10.11', 'a call that names a title no section has is refused and changes nothing: titles and names are compared as whole strings (rule R9.18 of C09)',
                            consequence=' - a call with a title that is only the beginning of an existing one is not refused, it changes that section', exclude_funcs=('cfg_free',))
    sub = report.SubCheck(chk, 'R10.6', 'C11', only=('R11.2', 'R11.5', 'R11.7'))
    c11.run(c, sub)
    sub.done('unresolvable paths')
    # R10.7: a call of the wrong type can only be refused where the type is tested
    c09.typed_members(c, chk, 'R10.7')
    index_bound(c, chk)
    from . import c04
    chk.rule('R10.10', 'unconvertible text is refused: the conversion discipline of C04 (no digits, trailing garbage, out of range each lead to a refusal before the store)')
    sub4 = report.SubCheck(chk, 'R10.10', 'C04', only=('R4.1', 'R4.2', 'R4.3', 'R4.4', 'R4.5', 'R4.10', 'R4.12'))
    c04.run(c, sub4)
    sub4.done('conversion discipline')
    from . import c14
    chk.rule('R10.9', 'the pre-set validation callback judges the very value that would be stored, and every section instance inherits it (rules R14.5, R14.8 of C14): a veto that is not consulted does not protect the option')
    sub = report.SubCheck(chk, 'R10.9', 'C14', only=('R14.5', 'R14.8'))
    c14.run(c, sub)
    sub.done('pre-set validator')


def index_bound(c, chk):
    """R10.8: "removing one that does not exist" is refused: cfg_opt_rmnsec() goes on to change the option only on paths that
    have shown index < number of sections.  A bound written as index <= count - 1 is the same only if the count was shown
    not to be zero (unsigned wrap-around: with no section at all nothing would be refused)"""
    chk.rule('R10.8', 'cfg_opt_rmnsec() touches the option only after index < number of sections was established (no unsigned wrap for an empty option)')
    fn = c.need('cfg_opt_rmnsec')
    ex = sym.Explorer(c.modules, max_visits=2, mod_sets=c.mod_sets, max_paths=50000)
    n = 0
    bad = None

    def is_count(v):
        return (v[0] == 'call' and v[1] == 'cfg_opt_size') or (v[0] == 'ld' and v[1][0] == 'fld' and v[1][3] == 'nvalues')

    for p in ex.explore(fn):
        eff = [e for e in p.events if (e.kind == 'call' and not e.inlined and e.name in ('cfg_opt_getval', 'memmove', 'llvm.memmove.p0i8.p0i8.i64', 'cfg_free', 'free', 'realloc'))
               or (e.kind == 'store' and e.field in ('nvalues', 'values', 'flags') and sym.object_of(e.addr)[0] != 'alloca')]
        if not eff:
            continue
        n += 1
        idx = ('p', 'index')
        okb = False
        nonzero = set()
        for cn, t, _ in p.assume[:eff[0].seq]:
            if cn[0] != 'icmp':
                continue
            a, b = cn[2], cn[3]
            # count != 0 / count > 0
            for x, y in ((a, b), (b, a)):
                if is_count(x) and y == sym.C0 and ((cn[1] == 'ne' and t) or (cn[1] == 'eq' and not t) or (cn[1] == 'ugt' and x is a and t) or (cn[1] == 'ule' and x is a and not t)):
                    nonzero.add(x)
        for cn, t, _ in p.assume[:eff[0].seq]:
            if cn[0] != 'icmp':
                continue
            a, b = cn[2], cn[3]
            lt = None            # (the value index is shown to be below, inclusive?)
            if a == idx:
                if (cn[1] == 'ult' and t) or (cn[1] == 'uge' and not t):
                    lt = (b, False)
                if (cn[1] == 'ule' and t) or (cn[1] == 'ugt' and not t):
                    lt = (b, True)
            if b == idx:
                if (cn[1] == 'ugt' and t) or (cn[1] == 'ule' and not t):
                    lt = (a, False)
                if (cn[1] == 'uge' and t) or (cn[1] == 'ult' and not t):
                    lt = (a, True)
            if lt is None:
                continue
            bound, incl = lt
            if not incl and is_count(bound):
                okb = True
            if incl and bound[0] == 'bin' and bound[1] == 'add' and bound[3] == ('c', -1) and is_count(bound[2]) and bound[2] in nonzero:
                okb = True
            if incl and bound[0] == 'bin' and bound[1] == 'sub' and bound[3] == ('c', 1) and is_count(bound[2]) and bound[2] in nonzero:
                okb = True
        if not okb:
            bad = bad or (p, eff[0])
    if bad is not None:
        p, e = bad
        chk.fail('R10.8', 'rmnsec-index-bound', c.where(e.ins), 'cfg_opt_rmnsec() reaches %s without having shown index < number of sections (%s): for an option that holds no '
                 'section the bound "count - 1" wraps around and every index is accepted - a slot is appended and a huge block moved instead of the call being refused'
                 % (e.name + '()' if e.kind == 'call' else 'a store', fp.cond_text(p, 4)))
    elif n:
        chk.ok('R10.8', 'cfg_opt_rmnsec: %d paths with an effect' % n, 'each has index < count', sample=True)
    chk.floor('R10.8 effect paths of cfg_opt_rmnsec', n, 1)
