"""C11 - path lookups resolve like step-by-step navigation (structural clauses)."""
from .. import loops as _loops, sym, cfg as _cfg, parsermodel as pm, failpaths as fp, report
from ..summaries import store_key

EXPLANATION = (
    'Static analysis of the path mini-language in the LLVM IR. Decided: there is a single resolver - option names are '
    'compared only in the leaf routine (plus the schema walker used for callback registration and the duplicate check '
    'at initialisation), the leaf is reached only through cfg_getopt_secidx, and the qualifier steps call the same '
    'functions the single-level accessors use (index -> cfg_opt_getnsec, title -> cfg_opt_gettsecidx); the resolver '
    'and everything it calls write no tree state (only locals, errno, the out-parameter and their own fresh buffers); '
    'in every cursor loop of the three tokenizers each path to the back edge advances the cursor by a constant >= 1, '
    'by a length tested non-zero on that path, or by a strspn() whose first character is known to match (library '
    'lemma strcspn/strspn duality) - the regression guard for the historical endless loop on the path "="; the '
    'out-parameter is written on every path that returns an option. That a qualified path picks the right instance is '
    'NOT decided (values).')

NAME_COMPARERS = {'cfg_getopt_leaf', 'cfg_getopt_array', 'cfg_init_defaults', 'cfg_getopt_secidx', 'cfg_getopt'}
RESOLVER_FAMILY = ['cfg_getopt_secidx', 'cfg_getopt_leaf', 'parse_title', 'cfg_opt_gettsecidx', 'cfg_opt_getnsec', 'cfg_opt_size', 'cfg_getopt', 'cfg_getopt_array']


def run(c, chk):
    chk.explanation = EXPLANATION
    chk.rule('R11.1', 'single resolver: one leaf comparison, reached only through cfg_getopt_secidx; qualifiers use the single-level accessors')
    chk.rule('R11.2', 'the resolver writes no tree state (unresolved paths change nothing)')
    chk.rule('R11.3', 'every cursor loop of the path tokenizers advances on every path to its back edge')
    chk.rule('R11.4', 'the section-index out-parameter is written on every path that returns an option')
    chk.trusted = ['clang/opt IR', 'library lemmas: strcspn(s,R)=n and s[n]!=0 => s[n] in R;  s[0] in A => strspn(s,A) >= 1']
    chk.assumptions = ['instance selection by title/index compares values and is not decided']
    mod = c.confuse

    # ---- R11.1 ------------------------------------------------------------------------------
    comparers = set()

    def cmp_calls(f):
        # calls of strcmp()/strcasecmp(), also through a pointer that is one of the two (picked once by the case flag)
        from . import c14 as _c14x
        out = list(f.calls('strcmp')) + list(f.calls('strcasecmp')) + list(f.calls('strncmp')) + list(f.calls('strncasecmp')) + list(f.calls('memcmp'))
        for call in f.calls():
            if call.callee_name() is None and call.callee.kind == 'reg':
                fld = _c14x.fnptr_field(f, call.callee)
                if fld.startswith('const:') and ('@strcmp' in fld or '@strcasecmp' in fld):
                    out.append(call)
        return out
    for f in mod.funcs.values():
        for call in cmp_calls(f):
            for a in call.args:
                if loads_field(f, a, '%struct.cfg_opt_t', 'name'):
                    comparers |= set(c.owners(f.name))
    # a comparison helper split off later (e.g. one that picks strcmp or strcasecmp): its callers do the comparing
    for h in mod.funcs.values():
        if h.name not in c.unknown_funcs:
            continue
        pos = set()
        for call in cmp_calls(h):
            for a in call.args:
                if loads_field(h, a, '%struct.cfg_opt_t', 'name'):
                    comparers |= set(c.owners(h.name))
                if a.kind == 'reg' and a.name in [p_.name for p_ in h.params]:
                    pos.add([p_.name for p_ in h.params].index(a.name))
        if not pos:
            continue
        for f in mod.funcs.values():
            for call in f.calls(h.name):
                if any(k < len(call.args) and loads_field(f, call.args[k], '%struct.cfg_opt_t', 'name') for k in pos):
                    comparers |= set(c.owners(f.name))
    extra = sorted(comparers - NAME_COMPARERS)
    if extra:
        chk.fail('R11.1', 'second-resolver:%s' % ','.join(extra), c.where(c.func(extra[0])), 'option names are also compared in %s(): a second, possibly diverging resolver' % ', '.join(extra))
    elif not (comparers & {'cfg_getopt_leaf', 'cfg_getopt_secidx', 'cfg_getopt'}):
        raise report.Broken('the leaf comparison routine was not found')
    else:
        chk.ok('R11.1', 'name comparisons', 'only in %s' % sorted(comparers), sample=True)
    # a step of a path must match a whole option name: a length-limited comparison needs an end-of-name test - on the very
    # path on which the comparison said "equal" (one arm of a case switch may have the test, the other not)
    exn = sym.Explorer(c.modules, max_visits=2, mod_sets=c.mod_sets, max_paths=50000)
    for f in mod.funcs.values():
        ncalls = [call for call in list(f.calls('strncmp')) + list(f.calls('strncasecmp')) + list(f.calls('memcmp'))
                  if any(loads_field(f, a, '%struct.cfg_opt_t', 'name') for a in call.args)]
        if not ncalls:
            continue
        badp = None
        for p in exn.explore(f):
            for e in p.events:
                if e.kind != 'call' or e.name not in ('strncmp', 'strncasecmp', 'memcmp') or e.fn != f.name or len(e.args) < 3:
                    continue
                equal = any(cn[0] == 'icmp' and cn[1] in ('eq', 'ne') and e.res in (cn[2], cn[3]) and sym.C0 in (cn[2], cn[3]) and ((cn[1] == 'eq') == t)
                            for cn, t, _ in p.assume)
                if not equal:
                    continue
                names = [a for a in e.args[:2] if sym.mentions(a, lambda v: v[0] == 'fld' and len(v) > 3 and v[3] == 'name')]
                if not names:
                    continue
                nm, ln = names[0], e.args[2]
                ends = False
                for cn, t, _ in p.assume:
                    if cn[0] != 'icmp' or cn[1] not in ('eq', 'ne'):
                        continue
                    for x, y in ((cn[2], cn[3]), (cn[3], cn[2])):
                        w = x
                        while w[0] == 'bin' and w[1] in ('sext', 'zext', 'trunc'):
                            w = w[2]
                        if y == sym.C0 and w[0] == 'ld' and w[1][0] == 'idx' and w[1][1] == nm and sym.norm(w[1][2]) == sym.norm(ln) and ((cn[1] == 'eq') == t):
                            ends = True       # name[len] == 0
                        if x[0] == 'call' and x[1] == 'strlen' and sym.norm(y) == sym.norm(ln) and ((cn[1] == 'eq') == t) and \
                                any(e2.kind == 'call' and e2.res == x and e2.args and e2.args[0] == nm for e2 in p.events):
                            ends = True       # strlen(name) == len
                if not ends:
                    badp = badp or (p, e)
        if badp is not None:
            p, e = badp
            chk.fail('R11.1', 'prefix-match:%s' % sorted(c.owners(f.name))[0], c.where(e.ins),
                     '%s() compares only the first len characters of an option name with a path step (%s()) and accepts the option without having checked that the '
                     'name ends there: a step "net" also selects an option called "network"' % (f.name, e.name))
        else:
            chk.ok('R11.1', '%s: length-limited name comparison' % f.name, 'every path on which it says "equal" also tests that the declared name ends at that length')
    sec = c.need('cfg_getopt_secidx')
    # the one walker: the function (the resolver itself, or a helper split off it) whose loop takes a path apart step by step
    walker = step_loop(c, sec)[0].name
    leafs_ = leaf_functions(c)
    direct = sorted(set(f.name for f in c.all_funcs() for lf in leafs_ for _ in f.calls(lf)))
    stray = [n_ for n_ in direct if n_ != walker and not any(True for _ in c.func(n_).calls(walker)) and n_ not in leafs_
             and n_ not in ('cfg_getopt_array', 'cfg_init_defaults')
             and not (n_ in c.unknown_funcs and set(c.owners(n_)) <= ({walker, 'cfg_getopt_array', 'cfg_init_defaults'} | set(c.owners(walker))))]
    if stray:
        leaf_callers = sorted(set(o for n_ in stray for o in c.owners(n_)))
        chk.fail('R11.1', 'leaf-callers:%s' % ','.join(leaf_callers), c.where(c.need('cfg_getopt_leaf')), 'the leaf lookup is called from %s, not only from the resolver' % leaf_callers)
    else:
        chk.ok('R11.1', 'callers of cfg_getopt_leaf', '%s only (the step loop, and what finishes a path that loop has walked)' % ', '.join(direct))
    callees = set(x.callee_name() for x in c.deep_calls(sec))
    for need, what in (('cfg_opt_getnsec', 'an index qualifier'), ('cfg_opt_gettsecidx', 'a title qualifier'), ('parse_title', 'title unquoting')):
        if need in callees:
            chk.ok('R11.1', 'resolver -> %s' % need, 'used for %s, the same routine the single-level accessor uses' % what, nontrivial=False)
        else:
            chk.fail('R11.1', 'qualifier-impl:%s' % need, c.where(sec), 'the resolver no longer uses %s() for %s' % (need, what))
    arr_callers = sorted(set(o for f in c.all_funcs() for _ in f.calls('cfg_getopt_array') for o in c.owners(f.name)) - {'cfg_getopt_array'})
    if set(arr_callers) <= {'cfg_set_validate_func', 'cfg_set_validate_func2'}:
        chk.ok('R11.1', 'callers of the schema walker', '%s' % arr_callers)
    else:
        chk.fail('R11.1', 'walker-callers:%s' % ','.join(arr_callers), c.where(c.need('cfg_getopt_array')), 'the schema-level walker is used by %s, outside callback registration' % arr_callers)
    # public by-name API goes through cfg_getopt / cfg_getopt_secidx
    nby = 0
    for f in mod.funcs.values():
        if len(f.params) >= 2 and f.params[0].ty == '%struct.cfg_t*' and f.params[1].ty == 'i8*' and f.param_names.get(f.params[1].name) == 'name':
            if f.name in ('cfg_getopt', 'cfg_getopt_secidx', 'cfg_getopt_leaf', 'cfg_set_validate_func', 'cfg_set_validate_func2', 'cfg_getopt_array'):
                continue
            if f.name in c.unknown_funcs:
                continue      # not part of the by-name API the rule was confirmed on (a helper split off later)
            nby += 1
            reach = _cfg.transitive(c.callgraph, [f.name])
            if walker not in reach:
                chk.fail('R11.1', 'bypass:%s' % f.name, c.where(f), '%s(cfg, name, ...) does not resolve its name through the resolver' % f.name)
    chk.ok('R11.1', '%d public by-name functions' % nby, 'each reaches the option through cfg_getopt()/cfg_getopt_secidx()', sample=True)
    chk.floor('R11.1 public by-name functions', nby, 25)

    # ---- R11.2 ------------------------------------------------------------------------------
    for fname in RESOLVER_FAMILY:
        f = c.need(fname)
        if fname in c.unknown_funcs:
            continue          # given another interface (out-parameters ...): judged on the paths of its callers, like every helper
        bad = []
        undecided = []
        for ins in f.instrs():
            if ins.op == 'store':
                k = store_key(f, ins)
                if k.startswith('local:'):
                    continue
                from ..summaries import store_root_is_fresh
                if store_root_is_fresh(f, ins):
                    continue
                if k == '[]' and is_param_store(f, ins, ('index', 'len')):
                    continue
                if is_errno_store(f, ins):
                    continue
                bad.append((ins, k))
            elif ins.op == 'call' and not ins.is_dbg():
                n = ins.callee_name()
                if n in ('free',) and not frees_own(f, ins):
                    undecided.append(ins)
        helpers = [g for g in c.deep_funcs(f) if g is not f]
        if (undecided or helpers) and not bad:
            # what the shape of the instruction does not settle (a pointer kept in a stack slot, writes made by a
            # helper through pointer arguments) is settled on the explored paths: the value freed must be a buffer
            # obtained on that path, a store must land in a local, a fresh buffer, errno or the out-parameter
            exr = sym.Explorer(c.modules, max_visits=2, mod_sets=c.mod_sets, max_paths=100000)
            hn = set(g.name for g in helpers)
            und = set(id(x) for x in undecided)
            for p in exr.explore(f):
                if p.end == 'cut':
                    continue
                for e in p.events:
                    if e.kind == 'call' and e.name == 'free' and (id(e.ins) in und or e.fn in hn):
                        a = e.args[0]
                        if not (a == sym.C0 or (a[0] == 'call' and a[1] in ('strdup', 'strndup', 'malloc', 'calloc', 'parse_title'))):
                            bad.append((e.ins, 'free'))
                    elif e.kind == 'store' and e.fn in hn:
                        r = sym.root_of(e.addr)
                        if r[0] in ('alloca', 'call', 'errno') or e.addr in (('p', 'index'), ('p', 'len')):
                            continue
                        bad.append((e.ins, sym.render(e.addr)))
                if bad:
                    break
        if bad:
            ins, k = bad[0]
            chk.fail('R11.2', 'resolver-writes:%s:%s' % (fname, k), c.where(ins), '%s(), part of the path resolver, writes %s: a lookup can change the tree' % (fname, k))
        else:
            chk.ok('R11.2', fname, 'writes only locals, errno, its out-parameter and buffers it allocated itself', sample=(fname == 'cfg_getopt_secidx'))

    # ---- R11.3 ------------------------------------------------------------------------------
    ex = sym.Explorer(c.modules, max_visits=2, mod_sets=c.mod_sets, max_paths=100000)
    nloops = 0
    chk.rule('R11.6', 'a tokenizer cursor never steps over a byte that was not shown to be different from the terminator')
    nsteps = 0
    for fname, prefer in (('cfg_getopt_secidx', 'name'), ('cfg_getopt_array', 'name'), ('parse_title', 'ch')):
        f0 = c.need(fname)
        # the tokenizer's loops: in the function itself or in a helper split off it; a walk that calls itself on the rest of
        # the path instead of looping is judged by the same rule (the argument it passes on is the cursor's next value)
        sites = [(g_, h_) for g_ in c.deep_funcs(f0) for h_ in sorted(_cfg.natural_loops(g_))]
        rec = []
        for g_ in c.deep_funcs(f0):
            pos = [k for k, p_ in enumerate(g_.params) if g_.param_names.get(p_.name) == prefer]
            if pos and any(True for _ in g_.calls(g_.name)) and not _cfg.natural_loops(g_):
                for p in ex.explore(g_):
                    for e in p.events:
                        if e.kind == 'call' and e.name == g_.name and len(e.args) > pos[0]:
                            rec.append((g_, p, e.args[pos[0]]))
        if rec:
            nloops += 1
            badr = next(((g_, p, a) for g_, p, a in rec if not advances(p, a, ('p', prefer))), None)
            if badr is not None:
                g_, p, a = badr
                chk.fail('R11.3', 'no-progress:%s' % fname, c.where(g_), '%s() calls itself on %s, which is not provably beyond the position it was given: '
                         'a path string can make the lookup recurse forever' % (g_.name, sym.render(a)), witness=['path condition: ' + fp.cond_text(p, 6)])
            else:
                chk.ok('R11.3', '%s: walks on by calling itself' % fname, '%d recursive call paths, each passes on a position beyond its own' % len(rec), sample=True)
        if not sites and not rec:
            raise report.Broken('%s(): no loop found' % fname)
        for f, h in sites:
            paths = [p for p in _loops.iterate(ex, f, h) if p.end == 'stop']
            if not paths:
                continue
            # the cursor of this loop: a loop-carried pointer that every path back to the head moves forward
            cands = set()
            for p in paths:
                cands |= set(k for k in p.next if not k.startswith('%'))
            cursors = [v for v in sorted(cands) if all(advances(p, p.next.get(v), ('p', v)) for p in paths)]
            nloops += 1
            if not cursors:
                v = prefer if prefer in cands else (sorted(cands)[0] if cands else '?')
                p = next(p for p in paths if not advances(p, p.next.get(v), ('p', v)))
                nxt = p.next.get(v)
                chk.fail('R11.3', 'no-progress:%s' % fname, c.where(f, f.blocks[h].first_line()),
                         '%s(): on a path back to the loop head the cursor becomes %s, which is not provably beyond its old position: '
                         'a path string can make the lookup loop forever' % (fname, sym.render(nxt) if nxt else '?'),
                         witness=['path condition: ' + fp.cond_text(p, 6)])
                continue
            chk.ok('R11.3', '%s: cursor loop (%s)' % (fname, ', '.join(cursors)), '%d paths to the back edge, each advances by a constant >= 1, a non-zero length or a matching strspn()' % len(paths), sample=True)
            # R11.6: constant steps only over bytes known to differ from NUL
            vtypes = _loops.var_types(f, h)
            for v in cursors:
                if vtypes.get(v) != 'i8*':
                    continue          # a counter, not a position in the text
                base = ('p', v)
                def reads_under(p_):
                    return any(sym.mentions(cn, lambda x: x[0] == 'ld' and flatten(x[1], base) is not None) for cn, t, _ in p_.assume)
                if not any(reads_under(p_) for p_ in paths):
                    continue          # a write position: nothing is read through it
                for p in paths:
                    terms = flatten(p.next.get(v), base) or []
                    k = sum(t[1] for t in terms if sym.is_const(t))
                    if k <= 0:
                        continue
                    if leaves_loop(ex, f, h, p):
                        continue          # arrives at the loop head with values that end the loop: nothing more is read
                    nsteps += 1
                    shown = set()
                    for cn, t, _ in p.assume:
                        if cn[0] == 'switch-default' and 0 in p.neq.get(cn[1], ()):
                            # none of the cases, one of which is the terminator
                            x = cn[1]
                            while x[0] == 'bin' and x[1] in ('sext', 'zext', 'trunc'):
                                x = x[2]
                            pos = flatten(x[1], base) if x[0] == 'ld' else None
                            if pos is not None:
                                shown.add(tuple(sorted(repr(sym.norm(y)) for y in pos)))
                            continue
                        if cn[0] != 'icmp' or cn[1] not in ('eq', 'ne') or not sym.is_const(cn[3]):
                            continue
                        x = cn[2]
                        while x[0] == 'bin' and x[1] in ('sext', 'zext', 'trunc'):
                            x = x[2]
                        if x[0] != 'ld':
                            continue
                        pos = flatten(x[1], base)
                        if pos is None:
                            continue
                        nonzero = (cn[1] == 'ne' and cn[3][1] == 0 and t) or (cn[1] == 'eq' and cn[3][1] != 0 and t) or (cn[1] == 'eq' and cn[3][1] == 0 and not t) \
                            or (cn[1] == 'ne' and cn[3][1] != 0 and not t)       # "not different from 'x'" is equal to 'x'
                        if nonzero:
                            shown.add(tuple(sorted(repr(sym.norm(y)) for y in pos)))
                    if len(shown) < k:
                        chk.fail('R11.6', 'steps-over-terminator:%s' % fname, c.where(f, f.blocks[h].first_line()),
                                 '%s(): on a path back to the loop head the cursor %s moves %d byte(s) forward but only %d byte(s) under it were shown to differ from the '
                                 'terminating NUL (a character class test like strchr() also matches the terminator): the tokenizer can run past the end of the path string'
                                 % (fname, v, k, len(shown)), witness=['path condition: ' + fp.cond_text(p, 8)])
                        break
    if nsteps:
        chk.ok('R11.6', '%d constant cursor steps' % nsteps, 'each covered by as many bytes compared with NUL / a non-NUL character on that path', sample=True)
    chk.floor('R11.3 cursor loops', nloops, 3)

    # ---- R11.7: a step that does not resolve ends the lookup -------------------------------------------
    chk.rule('R11.7', 'the resolver goes on to the next step only with the section the current step resolved to (never with "not found")')
    secf = c.need('cfg_getopt_secidx')
    nstep = 0
    bad7 = None
    for stepf7, h in [step_loop(c, secf)]:
        for p in _loops.iterate(ex, stepf7, h):
            if p.end != 'stop':
                continue
            nxt = p.next.get('sec')
            if nxt is None or nxt == ('p', 'sec'):
                continue
            nstep += 1
            nonnull = any((lambda na: na is not None and na[0] == nxt and na[1] is False)(fp.is_null_assumption(cn, t)) for cn, t, _ in p.assume)
            if not nonnull:
                bad7 = bad7 or p
    if bad7 is not None:
        chk.fail('R11.7', 'continues-unresolved', c.where(secf), 'cfg_getopt_secidx() can start the next step of a path although the current step did not resolve to a section '
                 '(%s): the rest of the path is looked up in a NULL section' % fp.cond_text(bad7, 5))
    elif nstep:
        chk.ok('R11.7', 'cfg_getopt_secidx: %d continuing paths' % nstep, 'each has established that the step resolved to a section', sample=True)
    chk.floor('R11.7 continuing paths', nstep, 1)

    # ---- R11.8: the schema-level walker resolves a path through a multi section to the section template ----
    from . import c08 as _c08, c14 as _c14
    chk.rule('R11.8', 'a schema path through a multi section resolves to the template of that section (what step-by-step navigation of the schema yields), not to one instance')
    _c14.walker_template(c, _c08.chk_proxy(chk, {'R14.7': 'R11.8'}), ex)

    # ---- R11.9: what a path resolves to depends on the tree and the path, not on what an earlier call left in errno ----
    chk.rule('R11.9', 'no step of the resolver branches on errno unless it stored a value into errno first on that path')
    names = set(g.name for f0 in ('cfg_getopt_secidx', 'cfg_getopt_array') if c.func(f0) for g in c.deep_funcs(c.func(f0))) | \
        {'cfg_getopt', 'cfg_getsec', 'cfg_rmsec', 'cfg_getopt_secidx', 'cfg_getopt_array'}
    if not _c08.errno_reads(c, _c08.chk_proxy(chk, {'R8.6': 'R11.9'}), 'R8.6', funcs=names):
        chk.ok('R11.9', 'resolver functions', 'none of them reads errno', nontrivial=False)

    # ---- R11.11: name=title reaches every titled instance (what walking the instances one by one finds) ----------
    from . import c09 as _c09
    _c09.untitled_does_not_end_search(c, _c08.chk_proxy(chk, {'R9.9': 'R11.11'}), ex)

    # ---- R11.14 / R11.15: what stands behind a qualifier, and behind the last separator
    step_boundaries(c, chk, ex, sec)
    case_folding_by_flag(c, chk)
    if not isinstance(chk, report.SubCheck):
        # R11.17: name=title picks the instance the single-level accessor cfg_gettsec() picks, under the same case rule as the parser
        # used when it stored the section (all title comparisons fold case by the same flag words: rule R9.3 of C09)
        from . import c09 as _c09t
        chk.rule('R11.17', 'a title qualifier is compared under the same case rule as every other title comparison (rule R9.3 of C09)')
        sub9 = report.SubCheck(chk, 'R11.17', 'C09', only=('R9.3',))
        _c09t.run(c, sub9)
        sub9.done('title comparisons')

    # ---- R11.13: the name looked up for a step is the whole step
    whole_step_looked_up(c, chk, ex, sec)

    # ---- R11.12: a well-formed quoted qualifier always names a title (also the empty one)
    quoted_title_accepted(c, chk, ex)

    # ---- R11.10: where an unquoted qualifier ends ------------------------------------------------------
    qualifier_extent(c, chk, ex, sec)

    # ---- R11.5: qualifiers ------------------------------------------------------------------------
    chk.rule('R11.5', 'an index qualifier must be a whole numeral, and every step starts without an instance index (no carry-over between steps)')
    stepf, hdr = step_loop(c, sec)
    nq = 0
    badq = None
    bad_extra = {}
    n18 = 0
    bad18 = None
    chk.rule('R11.18', 'a qualifier picks an instance only of a multi section: every step that resolves through the number or the title of a qualifier has shown the section option to be CFGF_MULTI (a qualifier on a single section is not found)')
    for p in _loops.iterate(ex, stepf, hdr):
        if p.end == 'cut':
            continue
        # (a) strtol result used as the instance index only when the whole qualifier was consumed
        # (the conversion is strtol() or a relative of it: what is required of its result - whole numeral, a digit, a bound
        # established on the full-width value before it is narrowed - is the same for all of them)
        st_ = [e for e in p.events if e.kind == 'call' and e.name in ('strtol', 'strtoll', 'strtoq', 'strtoimax', 'strtoul', 'strtoull', 'strtoumax')]
        for e in st_:
            used = [x for x in p.events if x.kind == 'call' and x.name == 'cfg_opt_getnsec' and sym.mentions(x.args[1], lambda v: v == e.res)]
            if not used:
                continue
            nq += 1
            endp = e.args[1]
            whole = any(cn[0] == 'icmp' and sym.norm(cn[2]) == sym.norm(('ld', ('ld', endp))) and cn[3] == sym.C0 and ((cn[1] == 'eq') == t)
                        for cn, t, _ in p.assume)
            if not whole:
                badq = (p, 'an index qualifier is used although the characters after the number were not required to be the end of the qualifier (e.g. "multi=1x" resolves like "multi=1")')
            # (a') ... and only when the qualifier had a digit at all (the end pointer moved)
            digits = any(cn[0] == 'icmp' and cn[1] in ('eq', 'ne') and {sym.norm(cn[2]), sym.norm(cn[3])} == {sym.norm(('ld', endp)), sym.norm(e.args[0])} and ((cn[1] == 'ne') == t)
                         for cn, t, _ in p.assume)
            if whole and not digits:
                bad_extra.setdefault('no-digits', (p, 'an index qualifier without a single digit is taken for index 0: the end pointer of the conversion is never compared with the start '
                                                      'of the qualifier (multi=\'\'|v resolves to the first instance)'))
            # (a'') ... and only when the number is an index the option can have: the accessor takes an unsigned int, the
            # conversion yields a long - without a bound the high bits are cut off (multi=4294967296 is instance 0)
            for x in used:
                a = x.args[1]
                narrowed = a[0] == 'bin' and a[1] == 'trunc'
                bounded = False
                for cn, t, _ in p.assume:
                    if cn[0] != 'icmp' or not sym.mentions(cn, lambda v: v == e.res):
                        continue
                    if sym.mentions(cn, lambda v: v[0] == 'bin' and v[1] == 'trunc'):
                        continue          # a test of the narrowed value says nothing about the bits cut off
                    lo, hi = (cn[2], cn[3]) if sym.mentions(cn[2], lambda v: v == e.res) else (cn[3], cn[2])
                    left = sym.mentions(cn[2], lambda v: v == e.res)
                    upper = (left and ((cn[1] in ('slt', 'sle', 'ult', 'ule') and t) or (cn[1] in ('sge', 'sgt', 'uge', 'ugt') and not t))) or \
                        (not left and ((cn[1] in ('sgt', 'sge', 'ugt', 'uge') and t) or (cn[1] in ('sle', 'slt', 'ule', 'ult') and not t)))
                    if upper and (sym.is_const(hi) and 0 <= hi[1] <= 0xffffffff or sym.mentions(hi, lambda v: (v[0] == 'call' and v[1] == 'cfg_opt_size') or
                                                                                                   (v[0] == 'ld' and v[1][0] == 'fld' and v[1][3] == 'nvalues'))):
                        bounded = True
                if narrowed and not bounded:
                    bad_extra.setdefault('index-narrowed', (p, 'the number of an index qualifier (a long) is handed to the accessor as unsigned int without an upper bound having been '
                                                               'established: multi=4294967296 resolves to instance 0 instead of "not found"'))
        # (c) R11.18: "qualifier on a single section": an instance is picked by a qualifier (its number or its title) only after
        # the section option was shown to be a multi section
        for x in p.events:
            if x.kind == 'call' and x.name == 'cfg_opt_getnsec' and len(x.args) > 1 and x.args[1] != sym.C0 and \
                    sym.mentions(x.args[1], lambda v: v[0] == 'call' and v[1] in ('cfg_opt_gettsecidx', 'strtol', 'strtoll', 'strtoq', 'strtoimax', 'strtoul', 'strtoull', 'strtoumax')):
                n18 += 1
                want = sym.norm(('ld', ('fld', x.args[0], 'cfg_opt_t', 'flags')))
                multi = False
                for cn, t, _ in p.assume:
                    d = pm.describe_cond(cn)
                    if not sym.mentions(sym.norm(cn), lambda v: v == want):
                        continue
                    if d.endswith('has MULTI') and not d.startswith('not(') and t is True:
                        multi = True
                    if d.startswith('not(') and d.endswith('has MULTI)') and t is False:
                        multi = True
                if not multi:
                    bad18 = bad18 or (p, x)
        # (b) the instance index of this step never comes from the previous step
        for x in p.events:
            if x.kind == 'call' and x.name == 'cfg_opt_getnsec' and sym.mentions(x.args[1], lambda v: v == ('p', 'i')):
                badq = (p, 'the instance index of a step is carried over from the previous step: a qualifier that fails to resolve (e.g. on a single section) reuses the earlier index')
        for cn, t, _ in p.assume:
            if sym.mentions(cn, lambda v: v == ('p', 'i')):
                badq = (p, 'the instance index of a step is carried over from the previous step: a qualifier that fails to resolve (e.g. on a single section) reuses the earlier index')
    if badq:
        chk.fail('R11.5', 'qualifier:%s' % ('carry' if 'carried' in badq[1] else 'whole-number'), c.where(sec), 'cfg_getopt_secidx(): ' + badq[1],
                 witness=['path condition: ' + fp.cond_text(badq[0], 6)])
    else:
        chk.ok('R11.5', 'cfg_getopt_secidx: qualifiers', '%d index-qualifier paths require *endptr == 0; no step reads the previous step\'s instance index' % nq, sample=True)
    for k_, (p_, msg_) in sorted(bad_extra.items()):
        chk.fail('R11.5', 'qualifier:' + k_, c.where(sec), 'cfg_getopt_secidx(): ' + msg_, witness=['path condition: ' + fp.cond_text(p_, 6)])
    chk.floor('R11.5 index-qualifier paths', nq, 1)
    if bad18 is not None:
        p_, x_ = bad18
        chk.fail('R11.18', 'qualifier-on-single-section', c.where(x_.ins), 'cfg_getopt_secidx() picks a section instance by its qualifier (%s) on a path that has not shown the section option to be '
                 'CFGF_MULTI: a qualifier on a single section (e.g. box=main on a titled section without CFGF_MULTI) resolves instead of being not found' % sym.render(x_.args[1]),
                 witness=['path condition: ' + fp.cond_text(p_, 8)])
    else:
        chk.ok('R11.18', '%d steps resolved through a qualifier' % n18, 'each under an established CFGF_MULTI of the section option', sample=True)
    chk.floor('R11.18 steps resolved through a qualifier', n18, 1)

    # ---- R11.4 ------------------------------------------------------------------------------
    idx = sec.params[2].name
    n = 0
    bad = None
    for p in ex.explore(sec, neq={('p', 'index'): {0}, ('p', 'cfg'): {0}}):
        if p.end != 'ret' or p.retval in (sym.C0, None):
            continue
        n += 1
        wrote = any(e.kind == 'store' and e.addr == ('p', 'index') for e in p.events)
        if not wrote:
            bad = p
    if bad:
        chk.fail('R11.4', 'index-undefined', c.where(sec), 'cfg_getopt_secidx() can return an option without having written the section index the caller asked for',
                 witness=['path condition: ' + fp.cond_text(bad, 6)])
    elif n:
        chk.ok('R11.4', 'cfg_getopt_secidx(index != NULL)', '*index is written on all %d paths that return an option (callers pass it on only together with that option)' % n, sample=True)
    # the callers hand the index on only together with the option
    for fname in ('cfg_getsec', 'cfg_rmsec'):
        f = c.need(fname)
        callee = 'cfg_opt_getnsec' if fname == 'cfg_getsec' else 'cfg_opt_rmnsec'
        okc = any(True for _ in f.calls('cfg_getopt_secidx')) and any(True for _ in f.calls(callee))
        if okc:
            chk.ok('R11.4', fname, 'passes (opt, index) to %s(), which rejects a NULL option before looking at the index' % callee, nontrivial=False)
        else:
            chk.fail('R11.4', 'caller-shape:%s' % fname, c.where(f), '%s() no longer resolves through cfg_getopt_secidx() + %s()' % (fname, callee))


def leaf_functions(c):
    """the functions that look one name up in the option table of ONE context (the leaf of path resolution): those that
    compare a declared option name with their argument (also a comparison helper shared with the schema walker), and the
    functions that merely wrap such a helper; the schema walker and the constructor's duplicate test are not leaves"""
    walkers = ('cfg_getopt_array', 'cfg_init_defaults', 'cfg_getopt_secidx', 'cfg_getopt')
    cmp_ = []
    for f in c.confuse.funcs.values():
        if f.name in walkers:
            continue
        for call in f.calls():
            if call.callee_name() in ('strcmp', 'strcasecmp', 'strncmp', 'strncasecmp', 'memcmp') and any(loads_field(f, a, '%struct.cfg_opt_t', 'name') for a in call.args):
                if f.name in c.unknown_funcs and set(c.owners(f.name)) <= {'cfg_init_defaults'}:
                    continue
                cmp_.append(f.name)
                break
    out = set(cmp_)
    for f in c.confuse.funcs.values():
        if f.name in walkers or f.name in out:
            continue
        if any(True for h in cmp_ if h in c.unknown_funcs for _ in f.calls(h)) and f.name not in c.unknown_funcs:
            out.add(f.name)          # a wrapper of the comparison helper (cfg_getopt_leaf(cfg, name) -> helper(cfg->opts, ...))
    if 'cfg_getopt_leaf' in c.confuse.funcs:
        out.add('cfg_getopt_leaf')
    return sorted(out)


def leaves_loop(ex, f, h, p):
    """does a path that came back to the loop head carry values with which the loop condition ends the loop (e.g. the state
    variable of a small automaton was set to a final state)?  Decided by running the head with those values: no path
    reaches the rest of the body"""
    body = _cfg.natural_loops(f).get(h, set()) - {h}
    if not body:
        return False
    env = {}
    for ph in f.blocks[h].phis():
        nm = f.var_names.get(ph.res, ph.res)
        v = p.next.get(ph.res, p.next.get(nm))
        if v is None:
            return False
        env[ph.res] = v
    if not any(sym.is_const(v) for v in env.values()):
        return False
    try:
        for q in ex.explore(f, start=h, env=env, stop=[h], mem=dict(p.mem)):
            if q.end in ('stop', 'cut'):
                return False          # another iteration is possible
    except sym.AnalysisIncomplete:
        return False
    return True


def step_loop(c, secf):
    """(function, loop header) of the loop that takes a path apart step by step: the outermost loop - in the resolver or in a
    helper split off it - in which the name of a step is looked up"""
    leafs = tuple(leaf_functions(c))
    for g in c.deep_funcs(secf):
        loops = _cfg.natural_loops(g)
        def looks_up(i):
            n_ = i.callee_name() if i.op == 'call' else None
            if n_ in leafs:
                return True
            h_ = c.func(n_) if n_ in c.unknown_funcs else None
            return h_ is not None and h_ is not g and any(True for x in c.deep_funcs(h_) for lf in leafs for _ in x.calls(lf))
        cands = [h for h, body in loops.items() if any(looks_up(i) for b in body for i in g.blocks[b].instrs)]
        if cands:
            # outermost: the one whose body contains the others
            cands.sort(key=lambda h: -len(loops[h]))
            return g, cands[0]
    raise report.Broken('cfg_getopt_secidx(): step loop not found')


def case_folding_by_flag(c, chk, rid='R11.16'):
    """R11.16: names (and titles) match exactly unless the context was made case-insensitive: a case-folding comparison of two
    run-time strings lies only on paths that have tested the CFGF_NOCASE bit of a flag word and found it set - not "some flag is set",
    not a whole flag word passed where a yes/no was meant"""
    chk.rule(rid, 'a case-folding comparison of a name or title is reached only after the CFGF_NOCASE bit itself was tested and found set')
    bit = None
    for en in c.confuse.enums.values():
        if 'CFGF_NOCASE' in en:
            bit = en['CFGF_NOCASE']
    if bit is None:
        bit = 4          # confuse.h: #define CFGF_NOCASE (1 << 2) (a macro: not in the debug information)
    FOLD = ('strcasecmp', 'strncasecmp')
    todo = set()
    for f in c.confuse.funcs.values():
        if any(True for n in FOLD for _ in f.calls(n)):
            todo |= set(c.owners(f.name))
    ex = sym.Explorer(c.modules, max_visits=2, mod_sets=c.mod_sets, max_paths=200000)
    n = 0
    bad = None
    for name in sorted(todo):
        f = c.func(name)
        if f is None or f.name in FOLD:
            continue
        for p in ex.explore(f):
            for e in p.events:
                if e.kind != 'call' or e.name not in FOLD or any(a[0] == 'str' for a in e.args[:2]):
                    continue          # (a comparison with a literal word - the boolean words - is case-insensitive by definition)
                if not any(sym.mentions(a, lambda v: v[0] == 'fld' and len(v) > 3 and ((v[2] == 'cfg_opt_t' and v[3] == 'name') or (v[2] == 'cfg_t' and v[3] == 'title'))) for a in e.args[:2]):
                    continue          # the rule is about the names of options and the titles of sections
                n += 1
                ok = False
                for cn, t, _ in p.assume[:e.seq] if hasattr(e, 'seq') else p.assume:
                    if cn[0] == 'icmp' and cn[1] in ('eq', 'ne') and sym.C0 in (cn[2], cn[3]) and ((cn[1] == 'ne') == t):
                        other = cn[2] if cn[3] == sym.C0 else cn[3]
                        while other[0] == 'bin' and other[1] in ('sext', 'zext', 'trunc'):
                            other = other[2]
                        if other[0] == 'bin' and other[1] == 'and' and any(sym.is_const(x) and x[1] == bit for x in other[2:4]):
                            ok = True
                    # is_set() written as (flags & bit) == bit
                    if cn[0] == 'icmp' and cn[1] in ('eq', 'ne') and ((cn[1] == 'eq') == t) and any(sym.is_const(x) and x[1] == bit for x in cn[2:4]):
                        other = cn[2] if sym.is_const(cn[3]) else cn[3]
                        if other[0] == 'bin' and other[1] == 'and' and any(sym.is_const(x) and x[1] == bit for x in other[2:4]):
                            ok = True
                if not ok and bad is None:
                    bad = (f, p, e)
    if bad is not None:
        f, p, e = bad
        chk.fail(rid, 'fold-without-flag:%s' % f.name, c.where(e.ins), '%s() compares %s and %s with %s() on a path that has not tested the CFGF_NOCASE bit (%s): the step matches a name '
                 'spelled in another case although the context is case-sensitive, where walking the tree level by level does not'
                 % (f.name, sym.render(e.args[0]), sym.render(e.args[1]), e.name, fp.cond_text(p, 4)))
    else:
        chk.ok(rid, '%d case-folding comparisons on the paths of %s' % (n, ', '.join(sorted(todo))), 'each lies behind a test of the CFGF_NOCASE bit')
    chk.floor('%s case-folding comparisons' % rid, n, 3)


_PB = {}


def _parser_checks_boundary(c, ex, name):
    """The other place the boundary of a quoted qualifier can be enforced: the title parser itself.  True when every path of it
    that returns a title after the closing quote of a quoted qualifier has, after recognising that quote, shown a byte to be
    the separator or the end of the string"""
    key = (id(c), name)
    if key in _PB:
        return _PB[key]
    f = c.func(name)
    n = 0
    ok = f is not None
    for p in (ex.explore(f) if f is not None else ()):
        if p.end != 'ret' or p.retval in (sym.C0, None):
            continue
        qpos = [k for k, (cn, t, _) in enumerate(p.assume) if cn[0] == 'icmp' and cn[1] in ('eq', 'ne') and ('c', 39) in (cn[2], cn[3]) and ((cn[1] == 'eq') == t)]
        if len(qpos) < 2:
            continue          # unquoted: the scan stops at the separator or the end by construction (R11.10)
        n += 1
        if not any(cn[0] == 'icmp' and cn[1] in ('eq', 'ne') and ((cn[1] == 'eq') == t) and (('c', 124) in (cn[2], cn[3]) or sym.C0 in (cn[2], cn[3]))
                   and sym.mentions(cn, lambda v: v[0] == 'ld') for cn, t, _ in p.assume[qpos[-1] + 1:]):
            ok = False
    _PB[key] = ok and n > 0
    return _PB[key]


def step_boundaries(c, chk, ex, sec):
    """R11.14: "malformed quoting": behind the closing quote of a quoted qualifier stands the separator or the end of the path -
    the resolver tests that byte before it goes on (an unquoted qualifier ends at such a byte by construction).
    R11.15: "stray separators at either end": a path does not resolve when nothing stands behind its last separator - a
    resolved return that has skipped separators and then met the end of the string has shown that none was skipped"""
    chk.rule('R11.14', 'after a qualifier the resolver goes on only when the next byte was tested to be the separator or the end of the path (name=\'a\'junk is malformed, not "a, then junk")')
    chk.rule('R11.15', 'a path that ends in a separator does not resolve: no resolved return has skipped separators and found the end of the string behind them without showing that none was there')
    stepf, hdr = step_loop(c, sec)
    parsers = set()
    for p in ex.explore(stepf):
        for e in p.events:
            a0 = e.args[0] if e.kind == 'call' and e.args else None
            if e.kind == 'call' and e.name not in ('strspn', 'strcspn') and c.func(e.name) is not None and a0 is not None and a0[0] == 'idx' and a0[2][0] == 'bin' and a0[2][1] == 'add' \
                    and a0[2][2][0] == 'call' and a0[2][2][1] == 'strcspn' and a0[2][3] == ('c', 1):
                parsers.add(e.name)
    n14 = n15 = 0
    bad14 = bad15 = None
    for p in ex.explore(stepf):
        if p.end != 'ret' or p.retval in (sym.C0, None):
            continue
        # R11.14
        if not any(e.kind == 'call' and e.name in parsers and not e.inlined for e in p.events):
            # the title parser is analysed as part of the resolver (it was split, merged or given another interface): a quoted
            # qualifier shows on the path as two bytes found to be quotes; after the second, a byte was shown to be the
            # separator or the end
            qpos = [k for k, (cn, t, _) in enumerate(p.assume) if cn[0] == 'icmp' and cn[1] in ('eq', 'ne') and ('c', 39) in (cn[2], cn[3]) and ((cn[1] == 'eq') == t)]
            if len(qpos) >= 2:
                n14 += 1
                if not any(cn[0] == 'icmp' and cn[1] in ('eq', 'ne') and ((cn[1] == 'eq') == t) and (('c', 124) in (cn[2], cn[3]) or sym.C0 in (cn[2], cn[3]))
                           and sym.mentions(cn, lambda v: v[0] == 'ld') for cn, t, _ in p.assume[qpos[-1] + 1:]):
                    ev_ = [e for e in p.events if e.kind == 'call' and e.name in parsers]
                    if ev_:
                        bad14 = bad14 or (p, ev_[0])
        for e in p.events:
            if e.kind == 'call' and e.name in parsers and len(e.args) > 1 and not e.inlined:
                ok_title = any((lambda na: na is not None and na[0] == e.res and na[1] is False)(fp.is_null_assumption(cn, t)) for cn, t, _ in p.assume)
                if not ok_title:
                    continue
                n14 += 1
                lenslot = e.args[1]
                tested = False
                for cn, t, _ in p.assume[e.seq:]:
                    if cn[0] == 'icmp' and cn[1] in ('eq', 'ne') and (('c', 124) in (cn[2], cn[3]) or sym.C0 in (cn[2], cn[3])):
                        other = cn[2] if (cn[3] == ('c', 124) or cn[3] == sym.C0) else cn[3]
                        if sym.mentions(other, lambda v: v[0] == 'ld' and v[1] == lenslot) and sym.mentions(other, lambda v: v == e.args[0] or (v[0] == 'idx' and v[1] == e.args[0])):
                            if (cn[1] == 'eq') == t:     # the byte IS the separator / the end on this path
                                tested = True
                if not tested and not _parser_checks_boundary(c, ex, e.name):
                    bad14 = bad14 or (p, e)
        # R11.15
        skips = [e for e in p.events if e.kind == 'call' and e.name == 'strspn' and len(e.args) > 1 and e.args[1][0] == 'str' and e.fn == stepf.name]
        if skips:
            e = skips[-1]
            behind = ('idx', e.args[0], e.res)
            nul_behind = any(cn[0] == 'icmp' and cn[1] in ('eq', 'ne') and sym.C0 in (cn[2], cn[3]) and ((cn[1] == 'eq') == t) and
                             sym.mentions(cn, lambda v: v[0] == 'ld' and sym.norm(v[1]) == sym.norm(behind)) for cn, t, _ in p.assume[e.seq:])
            if nul_behind:
                n15 += 1
                none_skipped = any(cn[0] == 'icmp' and cn[1] in ('eq', 'ne') and sym.C0 in (cn[2], cn[3]) and e.res in (cn[2], cn[3]) and ((cn[1] == 'eq') == t) for cn, t, _ in p.assume)
                if not none_skipped:
                    bad15 = bad15 or (p, e)
    if bad14 is not None:
        p, e = bad14
        chk.fail('R11.14', 'qualifier-boundary', c.where(e.ins), '%s() goes on behind a qualifier without having tested the byte that follows it: text glued to the closing quote of a quoted '
                 'qualifier is taken for the next step (t=\'a\'v resolves like t=a|v)' % stepf.name, witness=['path condition: ' + fp.cond_text(p, 6)])
    elif n14:
        chk.ok('R11.14', '%d resolved paths through a qualifier' % n14, 'on each the byte behind the qualifier was shown to be the separator or the end of the path')
    if bad15 is not None:
        p, e = bad15
        chk.fail('R11.15', 'trailing-separator', c.where(e.ins), '%s() resolves a path on which it skipped separators and then met the end of the string, without having shown that there was '
                 'no separator to skip: "single|" and "multi=1|" resolve although nothing stands behind the separator' % stepf.name, witness=['path condition: ' + fp.cond_text(p, 6)])
    elif n15 or skips is not None:
        chk.ok('R11.15', 'resolved paths that reach the end of the string', 'none of them has skipped a separator just before')
    chk.floor('R11.14 resolved paths through a qualifier', n14, 1)


def whole_step_looked_up(c, chk, ex, sec):
    """R11.13: a step of a path names an option by its whole text up to the separator.  The name handed to the leaf lookup is a
    copy of exactly that text (strndup(name, len)) - or, when it is put into a buffer of fixed size, the path has shown that
    the step fits: a longer name would be looked up by its first bytes only, and select a sibling whose name is that prefix"""
    import re as _re
    chk.rule('R11.13', 'the step name handed to the leaf lookup is the whole step: a fixed-size buffer is used only after the step length was shown to fit into it')
    stepf, hdr = step_loop(c, sec)
    leafs = set(leaf_functions(c))
    n = 0
    bad = None
    for p in _loops.iterate(ex, stepf, hdr):
        for e in p.events:
            if e.kind != 'call' or e.name not in leafs or len(e.args) < 2:
                continue
            n += 1
            a = e.args[1]
            o = sym.object_of(a) if a[0] in ('alloca', 'idx', 'fld') else None
            if o is None or o[0] != 'alloca':
                continue
            reg = o[1].split('@')[0]
            fn_ = c.func(o[1].split('@')[1]) if '@' in o[1] else stepf
            d = fn_.defs.get(reg) if fn_ is not None else None
            m = _re.match(r'^\[(\d+) x i8\]$', (d.srcty or '').strip()) if d is not None and d.op == 'alloca' else None
            if not m:
                continue
            size = int(m.group(1))
            fits = False
            for cn, t, _ in p.assume[:e.seq]:
                if cn[0] == 'icmp' and sym.is_const(cn[3]) and sym.mentions(cn[2], lambda v: v[0] == 'call' and v[1] in ('strcspn', 'strlen')):
                    k = cn[3][1]
                    if (cn[1] in ('ult', 'slt') and t and k <= size) or (cn[1] in ('ule', 'sle') and t and k < size) or \
                            (cn[1] in ('uge', 'sge') and not t and k <= size) or (cn[1] in ('ugt', 'sgt') and not t and k < size):
                        fits = True
            if not fits:
                bad = bad or (e, size)
    if bad is not None:
        e, size = bad
        chk.fail('R11.13', 'step-name-truncated', c.where(e.ins), 'the step name is looked up from a local buffer of %d bytes without the step length having been compared with that size: '
                 'a section name of %d characters or more is looked up by its first %d only (not found, or a sibling with that shorter name is taken)' % (size, size, size - 1))
    elif n:
        chk.ok('R11.13', '%d leaf lookups in the step loop' % n, 'each with a copy of the whole step (no fixed-size buffer)')
    chk.floor('R11.13 leaf lookups in the step loop', n, 1)


def quoted_title_accepted(c, chk, ex):
    """R11.12: name='...' addresses the section with exactly that title - the empty title '' included, which has no other
    spelling in a path.  Once the closing quote of a well-formed quoted qualifier has been seen, the title parser returns
    a title (it fails only for want of memory)"""
    chk.rule('R11.12', 'the title parser returns a title on every path on which it has seen the closing quote of a quoted qualifier (an empty quoted title is a title)')
    from . import c07 as _c07
    f = c.need('parse_title')
    n = 0
    bad = None
    for p in ex.explore(f):
        if p.end != 'ret':
            continue
        quotes = 0
        from .. import bufsize as _bs

        def place(v):
            while v[0] == 'bin' and v[1] in ('sext', 'zext', 'trunc'):
                v = v[2]
            return _bs.split_ptr(v[1]) if v[0] == 'ld' else (None, None)
        backslashes = []
        for cn, t, _ in p.assume:
            if cn[0] == 'icmp' and cn[1] in ('eq', 'ne') and ('c', 92) in (cn[2], cn[3]) and ((cn[1] == 'eq') == t):
                backslashes.append(place(cn[2] if cn[3] == ('c', 92) else cn[3]))
        last_quote = -1
        for k, (cn, t, _) in enumerate(p.assume):
            if cn[0] == 'icmp' and cn[1] in ('eq', 'ne') and ('c', 39) in (cn[2], cn[3]) and ((cn[1] == 'eq') == t):
                b, o = place(cn[2] if cn[3] == ('c', 39) else cn[3])
                escaped = any(b2 is not None and b is not None and sym.norm(b2) == sym.norm(b) and o2 is not None and o is not None and o2.add(_bs.Lin(1)).eq(o)
                              for b2, o2 in backslashes)
                if not escaped:          # (a quote right behind a backslash is an escaped quote, part of the title)
                    quotes += 1
                    last_quote = k
        if quotes < 2:
            continue          # opening quote only (or no quote at all)
        # text glued to the closing quote: the qualifier is not well formed (R11.14) - a byte looked at after the closing quote
        # was shown to be neither the separator nor the end of the string
        after = p.assume[last_quote + 1:]

        def shown_not(const):
            return any(cn[0] == 'icmp' and cn[1] in ('eq', 'ne') and const in (cn[2], cn[3]) and ((cn[1] == 'ne') == t) and sym.mentions(cn, lambda v: v[0] == 'ld')
                       for cn, t, _ in after)
        if shown_not(('c', 124)) and shown_not(sym.C0):
            continue
        n += 1
        if p.retval == sym.C0 and not _c07.is_alloc_failure_path(p):
            bad = bad or p
    if bad is not None:
        chk.fail('R11.12', 'quoted-title-refused', c.where(bad.last_ins) if bad.last_ins is not None else c.where(f),
                 'parse_title() returns "no title" although it has seen the closing quote of a well-formed quoted qualifier (%s): a section whose title can only be written '
                 'in quotes - the empty title - cannot be addressed by any path' % fp.cond_text(bad, 4))
    elif n:
        chk.ok('R11.12', 'parse_title: %d paths that reach the closing quote' % n, 'each returns the title', sample=True)
    chk.floor('R11.12 paths that reach the closing quote', n, 1)


def qualifier_extent(c, chk, ex, sec):
    """R11.10: name=title means: the title is everything up to the next step separator.  The byte set at which the scan of an
    unquoted qualifier stops must therefore be the byte set the resolver skips between two steps (a title may contain
    any other byte, '=' included)"""
    chk.rule('R11.10', 'an unquoted qualifier extends to the next step separator: the scan stops at exactly the bytes that are skipped between steps')
    seps = set()
    parsers = set()
    for p in ex.explore(sec):
        for e in p.events:
            if e.kind != 'call':
                continue
            if e.name == 'strspn' and len(e.args) > 1 and e.args[1][0] == 'str':
                seps.add(e.args[1][1])
            a0 = e.args[0] if e.args else None
            if e.name not in ('strspn', 'strcspn') and c.func(e.name) is not None and a0 is not None and a0[0] == 'idx' and a0[2][0] == 'bin' and a0[2][1] == 'add' \
                    and a0[2][2][0] == 'call' and a0[2][2][1] == 'strcspn' and a0[2][3] == ('c', 1):
                parsers.add(e.name)
    scans = {}
    for pn in sorted(parsers):
        pf = c.func(pn)
        first = ('p', pf.param_names.get(pf.params[0].name, pf.params[0].name)) if pf.params else None
        for p in ex.explore(pf):
            for e in p.events:
                if e.kind == 'call' and e.name == 'strcspn' and e.args and e.args[0] in (first, ('p', pf.params[0].name)) and e.args[1][0] == 'str':
                    scans.setdefault(pn, set()).add(e.args[1][1])
    n = sum(len(v) for v in scans.values())
    chk.floor('R11.10 scans of an unquoted qualifier', n, 1)
    if len(seps) != 1:
        raise report.Broken('cfg_getopt_secidx(): the separator skipped between two steps was not found as one constant byte set (%s)' % sorted(seps))
    sep = set(list(seps)[0])
    for pn, sets in sorted(scans.items()):
        for s_ in sorted(sets):
            if set(s_) == sep:
                chk.ok('R11.10', '%s: unquoted qualifier' % pn, 'ends at %r, the bytes skipped between steps' % s_, sample=True)
            else:
                chk.fail('R11.10', 'qualifier-extent:%s' % pn, c.where(c.func(pn)), '%s() ends an unquoted qualifier at any of %r, but the steps of a path are separated by %r: '
                         'a title containing %r can no longer be addressed (the lookup stops early and may select another section)'
                         % (pn, s_, ''.join(sorted(sep)), ''.join(sorted(set(s_) - sep)) or ''.join(sorted(sep - set(s_)))))


def loads_field(f, a, sty, fld):
    if a.kind != 'reg':
        return False
    d = f.defs.get(a.name)
    if d is None or d.op != 'load' or d.ops[0].kind != 'reg':
        return False
    g = f.defs.get(d.ops[0].name)
    return g is not None and g.op == 'getelementptr' and g.srcty.strip() == sty and len(g.ops) >= 3 and g.ops[2].kind == 'int' \
        and f.module.field_name(sty, g.ops[2].ival) == fld


def is_param_store(f, ins, names):
    a = ins.ops[1]
    return a.kind == 'reg' and f.param_names.get(a.name) in names


def is_errno_store(f, ins):
    a = ins.ops[1]
    d = f.defs.get(a.name) if a.kind == 'reg' else None
    return d is not None and d.op == 'call' and d.callee_name() == '__errno_location'


def frees_own(f, ins):
    """free() of a buffer this function obtained from an allocator (directly or through parse_title)"""
    a = ins.args[0]
    for _ in range(8):
        if a.kind != 'reg':
            return False
        d = f.defs.get(a.name)
        if d is None:
            return False
        if d.op == 'call':
            return (d.callee_name() or '') in ('strdup', 'strndup', 'malloc', 'calloc', 'parse_title')
        if d.op in ('bitcast',):
            a = d.ops[0]
            continue
        if d.op == 'phi':
            return all(x.kind == 'null' or (x.kind == 'reg' and frees_own_val(f, x)) for x in d.ops)
        return False
    return False


def frees_own_val(f, x):
    d = f.defs.get(x.name)
    while d is not None and d.op == 'bitcast':
        y = d.ops[0]
        d = f.defs.get(y.name) if y.kind == 'reg' else None
    return d is not None and d.op == 'call' and (d.callee_name() or '') in ('strdup', 'strndup', 'malloc', 'calloc', 'parse_title')


def flatten(v, base):
    """terms added to base in a pointer expression, or None if v is not base + terms"""
    terms = []
    cur = v
    for _ in range(12):
        if cur == base:
            return terms
        if cur[0] == 'idx':
            t = cur[2]
            if t[0] == 'bin' and t[1] == 'add':
                terms.extend([t[2], t[3]])
            else:
                terms.append(t)
            cur = cur[1]
        elif cur[0] == 'bin' and cur[1] == 'add':
            terms.append(cur[3])
            cur = cur[2]
        else:
            return None
    return None


def advances(p, nxt, base):
    if nxt is None:
        return None
    terms = flatten(nxt, base)
    if terms is None:
        return None
    const = sum(t[1] for t in terms if sym.is_const(t))
    if const >= 1 and all(not (sym.is_const(t) and t[1] < 0) for t in terms):
        return 'constant %d' % const
    nf = {}
    for cn, t, _ in p.assume:
        na = fp.is_null_assumption(cn, t)
        if na:
            nf[sym.norm(na[0])] = na[1]
    for t in terms:
        if sym.is_const(t):
            continue
        if nf.get(sym.norm(t)) is False:
            return 'length %s tested non-zero' % sym.render(t)
    # strspn lemma
    for t in terms:
        if t[0] == 'call' and t[1] == 'strspn':
            ev = next((e for e in p.events if e.kind == 'call' and e.res == t), None)
            if ev is None:
                continue
            s_arg, accept = ev.args[0], ev.args[1]
            if accept[0] != 'str' or not accept[1]:
                continue
            # s_arg = base + strcspn(base, R) with R subset of accept, and base[strcspn] != 0 assumed
            st = flatten(s_arg, base)
            if st is None:
                continue
            for u in st:
                if u[0] == 'call' and u[1] == 'strcspn':
                    ce = next((e for e in p.events if e.kind == 'call' and e.res == u), None)
                    if ce is None or ce.args[0] != base or ce.args[1][0] != 'str':
                        continue
                    R = ce.args[1][1]
                    if not set(R) <= set(accept[1]):
                        continue
                    # base[strcspn] != 0 on this path
                    here = sym.norm(('ld', ('idx', base, u)))
                    for cn, tt, _ in p.assume:
                        if cn[0] == 'icmp' and sym.is_const(cn[3]) and cn[3][1] == 0:
                            x = sym.norm(cn[2])
                            if x[0] == 'ld' and x == here[:2] + () or sym.render(cn[2]) == sym.render(('ld', ('idx', base, u), 0)):
                                if (cn[1] == 'ne') == tt:
                                    return 'strspn() after a strcspn() that stopped on one of its characters'
    return None
