"""C12 - with ignore-unknown set, undeclared items are skipped cleanly.

The discard sub-parser is extracted from the IR as a transition table over
(state, skipper variable, forced?, token) and the *extracted model* is run over
every well-formed unknown item the reference grammar derives up to the bound.
"""
import itertools

from .. import sym, parsermodel as pm, report, cfg as _cfg

EXPLANATION = (
    'Static analysis: the transition table of the discard sub-parser is extracted from the LLVM IR of '
    'cfg_parse_internal by constant propagation with the state, the token, the skipper variable(s), level and '
    'force_state seeded; recursion of the skipper is followed in the model. The extracted model (not the code) is then '
    'run over every token-class string of a well-formed undeclared item that the reference grammar below derives up to '
    'the bound (assignment, list, append, call, plain/titled section with nested content, empty or not); each must end '
    'in "expecting a name" at the original level exactly at the end of the item with no error exit and no diagnostic. '
    'Also: every skipper state examines its token, the unknown-name arm without the flag reaches a diagnostic and the '
    'error exit, the skipper writes no option state, and skipper recursion is bounded.')

T = pm.TOKENS
SKIP_VARS = ('ignore',)


class SimError(Exception):
    pass


class Sim(object):
    def __init__(self, model):
        self.m = model
        self.nsteps = 0
        self.used = set()
        self._alt = None

    def alt(self):
        """the same model with the function-call helper analysed as part of the parser: what call_function() answers for a
        NULL option is then a fact of the path, not an opaque verdict"""
        if self._alt is None:
            import copy
            a = copy.copy(self.m)
            a.ex = sym.Explorer(self.m.ctx.modules, inline=pm.callback_wrappers(self.m.ctx) | {'call_function'}, max_visits=2, max_paths=20000,
                                mod_sets=self.m.mod_sets, once=('cfg_yylex',))
            a._table = {}
            self._alt = a
        return self._alt

    def pick(self, state, tok, seeds, child, model=None):
        """the unique outcome of (state, tok) under the seeds; child(pos) runs a nested frame"""
        trs = (model or self.m).transitions(state, tok, seeds)
        self.used.add((state, tok, tuple(sorted(seeds.items()))))
        groups = {}
        for tr in trs:
            rec = tr.calls('cfg_parse_internal')
            sig = (tr.kind, tr.next_state, tr.ret, tuple(sorted((k, v) for k, v in tr.next.items() if k in SKIP_VARS)),
                   tuple(tr.errors()), len(rec))
            groups.setdefault(sig, []).append(tr)
        return groups

    def run(self, toks, state, vars_, forced, level, pos=0, depth=0):
        """simulate one activation of cfg_parse_internal on toks[pos:]; returns (kind, value, pos)
        kind: 'ret' (value = return code), 'state0' (reached state 0 at the outer level; value = pos)"""
        if depth > 12:
            raise SimError('recursion depth > 12 in the model')
        while True:
            if not forced and state == 0:
                return ('state0', vars_, pos)
            tok = toks[pos] if pos < len(toks) else T['EOF']
            pos += 1
            self.nsteps += 1
            seeds = dict(vars_)
            seeds['force_state'] = 10 if forced else -1
            seeds['level'] = level
            groups = self.pick(state, tok, seeds, None)
            # resolve recursion
            cand = list(groups.items())
            chosen = None
            if any(sig[5] for sig, _ in cand):
                # every residual path calls the skipper recursively (the call precedes the branch on its result)
                tr0 = cand[0][1][0]
                rc = tr0.calls('cfg_parse_internal')[0]
                a = rc.args
                # arguments: cfg, level, force_state, force_opt
                lvl = a[1][1] if sym.is_const(a[1]) else level + 1
                fs = a[2][1] if sym.is_const(a[2]) else None
                if fs is None:
                    raise SimError('recursive call with a non-constant forced state')
                kind, val, pos = self.run(toks, fs, {k: 0 for k in SKIP_VARS}, True, lvl, pos, depth + 1)
                if kind != 'ret':
                    raise SimError('nested activation did not return')
                res = rc.res
                for sig, trs in cand:
                    for tr in trs:
                        if consistent(tr, res, val):
                            chosen = (sig, tr)
                            break
                    if chosen:
                        break
                if not chosen:
                    raise SimError('no residual path consistent with the nested result %d' % val)
            else:
                sigs = set(sig for sig, _ in cand)
                if len(sigs) != 1 and seeds.get('opt') == 0 and hasattr(self.m, 'ctx'):
                    groups = self.pick(state, tok, seeds, None, model=self.alt())
                    cand = list(groups.items())
                    sigs = set(sig for sig, _ in cand)
                if len(sigs) != 1:
                    raise sym.AnalysisIncomplete('state %d token %s: residual paths disagree under seeds %r: %s'
                                                 % (state, pm.TOKNAME.get(tok, tok), seeds, sorted(map(str, sigs))))
                chosen = (cand[0][0], cand[0][1][0])
            sig, tr = chosen
            if sig[4]:
                return ('diag', (state, tok, sig[4]), pos)
            if tr.kind == 'ret':
                return ('ret', tr.ret, pos)
            if tr.kind != 'next' or tr.next_state is None:
                raise sym.AnalysisIncomplete('state %d token %s: successor state is not a constant' % (state, pm.TOKNAME.get(tok, tok)))
            state = tr.next_state
            nv = {}
            for k in SKIP_VARS:
                v = tr.next.get(k)
                if v is None:
                    nv[k] = vars_.get(k, 0)
                elif sym.is_const(v):
                    nv[k] = v[1]
                elif v == ('p', k):
                    nv[k] = vars_.get(k, 0)
                else:
                    raise sym.AnalysisIncomplete('skipper variable %s becomes %s' % (k, sym.render(v)))
            # the parser's current option while an undeclared item is skipped: NULL from the unknown-name arm on (R12.7), for as
            # long as no step assigns it (what a state does with a NULL option is what it does while skipping)
            if 'opt' in vars_:
                vo = tr.next.get('opt')
                if vo is None or vo == ('p', 'opt') or vo == sym.C0:
                    nv['opt'] = 0
            vars_ = nv


def consistent(tr, res, val):
    for cnd, truth, ins in tr.assume:
        if cnd[0] == 'icmp' and (cnd[2] == res or cnd[3] == res):
            other = cnd[3] if cnd[2] == res else cnd[2]
            if not sym.is_const(other):
                return False
            r = {'eq': val == other[1], 'ne': val != other[1], 'sgt': val > other[1], 'slt': val < other[1],
                 'sge': val >= other[1], 'sle': val <= other[1]}.get(cnd[1])
            if r is None or r != truth:
                return False
    return True


# ---- reference grammar of a well-formed undeclared item ------------------------

def gen_items(depth, width, full=False):
    """(token-class tuple, description) of items, *after* the name token.  Bodies of sections are
    sequences of up to `width` items of the next lower depth; unless `full`, inner section bodies
    are restricted to the empty body, every single item and consecutive pairs (a covering subset)."""
    S, EQ, PE, LB, RB, LP, RP, CM = T['STR'], T['='], T['+='], T['{'], T['}'], T['('], T[')'], T[',']
    vals = []
    for n in range(0, width + 1):
        seq = []
        for i in range(n):
            if i:
                seq.append(CM)
            seq.append(S)
        vals.append(tuple(seq))
    out = []
    for op in (EQ, PE):
        out.append(((op, S), 'N %s V' % pm.TOKNAME[op]))
        for v in vals:
            out.append(((op, LB) + v + (RB,), 'N %s {%s}' % (pm.TOKNAME[op], ' '.join('V' if t == S else ',' for t in v))))
    for v in vals:
        out.append(((LP,) + v + (RP,), 'N (%s)' % ' '.join('V' if t == S else ',' for t in v)))
    if depth > 0:
        inner = gen_items(depth - 1, width, full)
        bodies = [((), '')]
        combos = []
        for it in inner:
            combos.append((it,))
        if full or depth == 1:
            for n in range(2, width + 1):
                combos.extend(itertools.product(inner, repeat=n))
        else:
            combos.extend(itertools.product(inner, repeat=2)) if len(inner) <= 40 else None
            if len(inner) > 40:
                for i in range(len(inner)):
                    combos.append((inner[i], inner[(i + 1) % len(inner)]))
                    combos.append((inner[i], inner[(i * 7 + 3) % len(inner)]))
        for combo in combos:
            toks = ()
            txt = []
            for it, d in combo:
                toks += (S,) + it
                txt.append(d)
            bodies.append((toks, ' '.join(txt)))
        for title in (False, True):
            for b_, d in bodies:
                out.append((((S,) if title else ()) + (LB,) + b_ + (RB,), 'N %s{ %s }' % ('V ' if title else '', d)))
    return out


def run(c, chk):
    chk.explanation = EXPLANATION
    chk.rule('R12.1', 'the extracted skipper, run over every well-formed unknown item up to the bound, ends in "expecting a name" exactly at the item\'s end, silently')
    chk.rule('R12.2', 'every skipper state examines the current token on every path before changing state')
    chk.rule('R12.3', 'without the flag an unknown name reaches a diagnostic and the error exit')
    chk.rule('R12.4', 'skipper recursion is bounded (or absent)')
    chk.rule('R12.5', 'the skipper writes no option state')
    chk.trusted = ['clang/opt IR', 'reference item grammar in lcverif/props/c12.py (from the property text)']
    chk.assumptions = ['bounded enumeration of item shapes (nesting/width in the evidence); token values are irrelevant to the skipper']
    # R12.4 first: a helper of the parser that reads tokens and calls itself (one C stack frame per nesting level of the
    # input) cannot be presented as transitions of the state machine; it is what the rule forbids
    pi = c.need('cfg_parse_internal')
    for g in c.deep_funcs(pi):
        if g is pi:
            continue
        if any(True for _ in g.calls(g.name)) and any(True for x in c.deep_funcs(g) for _ in x.calls('cfg_yylex')):
            chk.fail('R12.4', 'unbounded-skipper-recursion:%s' % g.name, c.where(g), '%s() reads tokens and calls itself once per nested "{" of the input with no depth bound: '
                     'skipping a deeply nested undeclared section or list overflows the stack' % g.name)
            return
    model = pm.ParserModel(c)
    thorough = chk.tier == 'thorough'
    flag_reaches_sections(c, chk)
    skipped_item_leaves_nothing(c, chk)
    if not isinstance(chk, report.SubCheck):
        # R12.13: a refused text (an undeclared name without the flag) leaves nothing behind that makes a later text with the flag
        # fail: no counter or level kept in a static outside the reset disciplines (rule R8.0 of C08)
        from . import c08 as _c08g
        chk.rule('R12.13', 'no scanner or parser state outlives a refused text: every mutable global falls under a reset discipline (rule R8.0 of C08)')
        _c08g.classified_globals(c, chk, rid='R12.13', rid5='R12.13')
    depth, width = (2, 2)
    # which states form the skipper: reachable from the unknown-name arm of state 0
    entry = None
    for tr in model.transitions(0, T['STR']):
        if tr.kind == 'next' and tr.assumes('cfg->flags has IGNORE_UNKNOWN') and tr.next_state not in (None,):
            conds = tr.cond()
            if any(pm.NOTFOUND.match(x) for x in conds):
                entry = tr.next_state
                entry_tr = tr
    if entry is None:
        raise report.Broken('the unknown-name arm of the "expecting a name" state was not found')
    chk.analysed = {'parser_states': len(model.states), 'skipper_entry_state': entry, 'nesting_bound': depth, 'width_bound': width}
    chk.rule('R12.7', 'when an unknown name is met the option completed before it is let go (no second deprecation report, no value attributed to it)')
    nxo = entry_tr.next.get('opt')
    if nxo == sym.C0 or (nxo is not None and nxo != ('p', 'opt') and nxo[0] == 'call'):
        chk.ok('R12.7', 'unknown-name arm', 'the parser\'s current option becomes %s' % sym.render(nxo))
    else:
        chk.fail('R12.7', 'stale-option', c.where(model.fn), 'after an unknown name the parser keeps pointing at the option it completed before (%s): '
                 'once the unknown item is skipped that option is handled a second time (e.g. its deprecation is reported again)' % (sym.render(nxo) if nxo else 'unchanged'))
    if entry_tr.errors():
        chk.fail('R12.1', 'entry-diagnostic', c.where(model.fn), 'entering the skipper emits a diagnostic %r' % entry_tr.errors())

    # ---- R12.1 -------------------------------------------------------------------
    sim = Sim(model)
    entry_vars = {k: 0 for k in SKIP_VARS}
    if nxo == sym.C0 or (nxo is not None and nxo != ('p', 'opt') and nxo[0] == 'call'):      # (the lookup result, NULL on this arm)
        entry_vars['opt'] = 0
    items = gen_items(depth, width, full=thorough)
    nitems = 0
    failures = {}
    for toks, desc in items:
        for level in (0, 1):
            nitems += 1
            try:
                # follow with a known name token to detect over-consumption
                kind, val, pos = sim.run(list(toks) + [T['STR']], entry, dict(entry_vars), False, level)
            except SimError as e:
                kind, val, pos = 'simerror', str(e), -1
            except sym.AnalysisIncomplete:
                # the simulation cannot go on from here (an outcome depends on more than tokens).  The states it has gone
                # through so far are states of the skipper all the same: what they do to the configuration is decided
                # before the analysis gives up
                skipper_effects(c, chk, model, sorted(set(s_ for s_, _, _ in sim.used if s_ != 0)))
                raise
            good = (kind == 'state0' and pos == len(toks))
            if not good:
                if kind == 'state0':
                    why = 'skipping stops after %d of %d tokens' % (pos, len(toks)) if pos < len(toks) else 'skipping runs past the end of the item'
                elif kind == 'diag':
                    why = 'diagnostic %r in state %d on token %s' % (val[2], val[0], pm.TOKNAME.get(val[1], val[1]))
                elif kind == 'ret':
                    why = 'the parser returns %s in the middle of the item' % pm.RET.get(val, val)
                else:
                    why = str(val)
                short = desc
                failures.setdefault(why_class(why), []).append((len(toks), short, why, level))
    # two items in a row: the skipper must not carry state from one item into the next.  The second item
    # starts with whatever the first left in the skipper variables.
    reps = [it for it in gen_items(1, 1)]
    npairs = 0
    for toks1, d1 in reps:
        try:
            k1, vars1, pos1 = sim.run(list(toks1) + [T['STR']], entry, dict(entry_vars), False, 0)
        except SimError:
            continue
        if k1 != 'state0' or pos1 != len(toks1):
            continue
        for toks2, d2 in reps:
            npairs += 1
            try:
                kind, val, pos = sim.run(list(toks2) + [T['STR']], entry, dict(vars1), False, 0)
            except SimError as e:
                kind, val, pos = 'simerror', str(e), -1
            if not (kind == 'state0' and pos == len(toks2)):
                if kind == 'state0':
                    why = 'skipping stops after %d of %d tokens' % (pos, len(toks2)) if pos < len(toks2) else 'skipping runs past the end of the item'
                elif kind == 'diag':
                    why = 'diagnostic %r in state %d on token %s' % (val[2], val[0], pm.TOKNAME.get(val[1], val[1]))
                elif kind == 'ret':
                    why = 'the parser returns %s in the middle of the item' % pm.RET.get(val, val)
                else:
                    why = str(val)
                failures.setdefault('after-item:' + why_class(why), []).append((len(toks1) + len(toks2), '%s ; %s' % (d1, d2), 'as the second unknown item: ' + why, 0))
    chk.extra['item_pairs'] = npairs
    for cls, lst in sorted(failures.items()):
        lst.sort()
        n, short, why, level = lst[0]
        chk.fail('R12.1', 'shape:%s' % short, c.where(model.fn),
                 'under CFGF_IGNORE_UNKNOWN the undeclared item "%s" is not skipped cleanly: %s (%d enumerated shapes fail this way)'
                 % (short, why, len(lst)),
                 witness=['shortest failing shapes: ' + '; '.join(x[1] for x in lst[:6])])
    if not failures:
        chk.ok('R12.1', 'all %d item shapes (nesting<=%d, width<=%d) x 2 levels' % (len(items), depth, width),
               'the extracted skipper ends in state 0 exactly at the end of each item, no diagnostic, %d model steps' % sim.nsteps, sample=True)
    for toks, desc in items[:8]:
        chk.ok('R12.1', 'shape %s' % desc, 'skipped exactly' if not failures else 'enumerated', nontrivial=False)
    chk.floor('R12.1 item shapes', nitems, 100)
    chk.extra['item_shapes'] = nitems
    chk.extra['model_steps'] = sim.nsteps

    # skipper states = states used by the simulation other than 0
    skip_states = sorted(set(s for s, _, _ in sim.used if s != 0))
    chk.analysed['skipper_states'] = skip_states

    # ---- R12.2 -------------------------------------------------------------------
    tokvals = sorted(v for v in T.values() if v not in (T['EOF'], T['ERR'], T['COMMENT']))
    for s in skip_states:
        # a state examines its token iff what it does depends on the token: identical behaviour for every
        # token class means the token was consumed blindly
        outcomes = set()
        for tok in tokvals:
            for var in (0, 1, 2):
                try:
                    trs = model.transitions(s, tok, {'ignore': var, 'force_state': -1, 'level': 0})
                except sym.AnalysisIncomplete:
                    continue
                for tr in trs:
                    outcomes.add((tok, var, tr.kind, tr.next_state, tr.ret, str(tr.next.get('ignore')), tuple(tr.errors())))
        per_tok = {}
        for o in outcomes:
            per_tok.setdefault(o[0], set()).add(o[1:])
        distinct = set(frozenset(v) for v in per_tok.values())
        if len(distinct) > 1:
            chk.ok('R12.2', 'skipper state %d' % s, 'behaviour differs between token classes (%d distinct behaviours over %d classes)' % (len(distinct), len(per_tok)))
        else:
            chk.fail('R12.2', 'blind-state:%d' % s, c.where(model.fn),
                     'skipper state %d behaves identically for every token class: it consumes a token without looking at it' % s)

    # ---- R12.3 -------------------------------------------------------------------
    unk = [tr for tr in model.transitions(0, T['STR'])
           if any(pm.NOTFOUND.match(x) for x in tr.cond()) and tr.assumes('cfg->flags has IGNORE_UNKNOWN', False)
           and tr.assumes('cfg->flags has KEYSTRVAL', False)]
    if not unk:
        chk.fail('R12.3', 'no-unknown-arm', c.where(model.fn), 'no residual path for an unknown name without the flag')
    for tr in unk:
        if not (tr.kind == 'ret' and tr.ret == 1):
            chk.fail('R12.3', 'unknown-accepted', c.where(model.fn), 'an unknown name without CFGF_IGNORE_UNKNOWN does not reach the error exit: %s' % tr.outcome(),
                     witness=[tr.describe()])
            break
    else:
        if unk:
            why = resolver_reports(c)
            if why is True:
                chk.ok('R12.3', 'unknown name, flag off', 'returns STATE_ERROR; the resolver has emitted "no such option" on every flag-off not-found path')
            else:
                chk.fail('R12.3', 'unknown-silent', c.where(c.need('cfg_getopt_secidx')), why)

    # ---- R12.12: with the flag the lookup itself says nothing --------------------------
    chk.rule('R12.12', 'with the flag set the name lookup reports nothing: every diagnostic of the resolver lies behind a test that showed CFGF_IGNORE_UNKNOWN clear')
    loud = resolver_silent_under_flag(c)
    if loud is True:
        chk.ok('R12.12', 'cfg_getopt_secidx: every path that calls cfg_error()', 'has shown the flag clear before the call')
    else:
        chk.fail('R12.12', 'resolver-loud-under-flag', loud[0], loud[1], witness=loud[2])

    # ---- R12.4 -------------------------------------------------------------------
    from . import c02
    recs = [call for call in model.fn.calls('cfg_parse_internal')]
    nskip = 0
    for call in recs:
        a = call.args[2]
        if a.kind == 'int' and a.ival == entry:
            nskip += 1
            v = c02.recursion_bound(c, model.fn, call, 'cfg_parse_internal')
            if v:
                chk.ok('R12.4', 'skipper recursion @%s' % c.where(call), v)
            else:
                chk.fail('R12.4', 'unbounded-skipper-recursion', c.where(call),
                         'the skipper recurses once per nested unknown section with no depth bound (stack overflow on deep nesting)')
    if nskip == 0:
        chk.ok('R12.4', 'skipper recursion', 'the skipper does not recurse: nesting is tracked without using the C stack')

    # ---- R12.5 -------------------------------------------------------------------
    skipper_effects(c, chk, model, skip_states)

    # R12.9: a well-formed item may carry comments between any two of its tokens: the skipper states are transparent to them
    if not isinstance(chk, report.SubCheck):
        from . import c15
        chk.rule('R12.9', 'a comment between two tokens of an undeclared item is passed over in every skipper state (rule R15.1 of C15)')
        sub = report.SubCheck(chk, 'R12.9', 'C15', only=('R15.1',))
        c15.run(c, sub)
        sub.done('comments inside a skipped item')
        # R12.11: every name - the empty one included - goes through the lookup before anything is reported about it
        from . import c01 as _c01g, c08 as _c08g
        chk.rule('R12.11', 'the name state of the parser equals the reference automaton under every flag combination (rule R1.1 of C01): no name is refused before the ignore-unknown flag was consulted')
        _c01g.grammar(c, _c08g.chk_proxy(chk, {'R1.1': 'R12.11'}), model)
        # R12.10: what counts as "undeclared" is decided by the name lookup: a name is declared only if it equals a declared name
        from . import c11
        chk.rule('R12.10', 'a name is declared only if it equals a declared name as a whole (one leaf comparison; a length-limited comparison tests the end of the name: rule R11.1 of C11)')
        sub = report.SubCheck(chk, 'R12.10', 'C11', only=('R11.1',))
        c11.run(c, sub)
        sub.done('name lookup')
        # R12.14: "without the flag the item is rejected with a diagnostic": the diagnostic of an undeclared item inside a section
        # reaches the error function of the context (rule R6.5 of C06: a section is handed its parent's error function before its body)
        from . import c06 as _c06h
        chk.rule('R12.14', 'a section body is parsed with the error function of its parent (rule R6.5 of C06): the rejection of an undeclared item inside a section is delivered, not dropped')
        sub = report.SubCheck(chk, 'R12.14', 'C06', only=('R6.5',))
        _c06h.run(c, sub)
        sub.done('section hand-over')
        # R12.15: skipping an undeclared item writes nothing outside the parser's own variables: what the parser keeps about the
        # item (its name, say) in a local array stays inside that array whatever the length of the name (rule R2.19 of C02)
        from . import c02 as _c02l
        _c02l.local_arrays_in_bounds(c, _c08g.chk_proxy(chk, {'R2.19': 'R12.15'}), rid='R2.19', only_funcs={'cfg_parse_internal'})


def why_class(why):
    import re
    return re.sub(r'\d+ of \d+', 'k of n', why)


def state_examines_token(model, lbl, tokreg):
    """from the case label, every path to the loop header / a return passes a compare (icmp or switch) on tok
    before any store to the state phi's incoming... approximated as: the case's entry block region is dominated
    by a token test, i.e. no path from lbl reaches the header without crossing a block that tests tok"""
    fn = model.fn
    testers = set()
    for b in fn.order:
        for ins in fn.blocks[b].instrs:
            if ins.op in ('icmp', 'switch') and any(o.kind == 'reg' and o.name == tokreg for o in ins.ops):
                testers.add(b)
    # reachability from lbl to header / exits avoiding tester blocks
    seen = set()
    work = [lbl]
    while work:
        b = work.pop()
        if b in seen:
            continue
        seen.add(b)
        if b in testers:
            continue
        blk = fn.blocks[b]
        if blk.term.op == 'ret':
            continue
        for s in blk.succs:
            if s == model.header:
                # reached the back edge without testing tok: blind, unless this block is only cleanup after an error
                return False
            work.append(s)
    return True


def skipper_effects(c, chk, model, skip_states):
    """R12.5: no state the skipper goes through stores into the configuration or calls a setter"""
    bad = None
    nt = 0
    for s in skip_states:
        for tok in sorted(T.values()):
            for tr in model.transitions(s, tok):
                nt += 1
                for e in tr.events:
                    if e.kind == 'store' and sym.object_of(e.addr)[0] != 'alloca':
                        bad = (s, tok, e)
                    if e.kind == 'call' and e.name in ('cfg_setopt', 'cfg_addval', 'cfg_free_value', 'cfg_opt_setcomment', 'cfg_addopt',
                                                       'call_function', 'cfg_getopt'):
                        if e.name == 'cfg_free_value' and e.args and sym.object_of(e.args[0])[0] == 'alloca':
                            continue          # cleanup of a local aggregate on the error exit
                        bad = (s, tok, e)
    if bad:
        s, tok, e = bad
        chk.fail('R12.5', 'skipper-effect:%d' % s, c.where(e.ins), 'skipper state %d on token %s has an effect on the configuration: %r' % (s, pm.TOKNAME.get(tok, tok), e))
    else:
        chk.ok('R12.5', 'skipper states %s' % skip_states, '%d residual paths: no store to option/context state, no setter call' % nt)


def resolver_reports(c):
    """cfg_getopt_secidx(index == NULL): on every path that returns NULL with the flag off and a non-empty,
    successfully duplicated name, cfg_error() has been called"""
    fn = c.need('cfg_getopt_secidx')
    ex = sym.Explorer(c.modules, max_visits=2, mod_sets=c.mod_sets, max_paths=50000)
    idx = fn.params[2].name
    paths = ex.explore(fn, env={idx: sym.C0}, neq={('p', 'cfg'): {0}})
    n = 0
    for p in paths:
        if p.end != 'ret' or p.retval != sym.C0:
            continue
        conds = [pm.describe_cond(cnd) if t else '!' + pm.describe_cond(cnd) for cnd, t, _ in p.assume]
        flag_off = any(x in ('!cfg->flags has IGNORE_UNKNOWN', 'not(cfg->flags has IGNORE_UNKNOWN)') for x in conds)
        if not flag_off:
            continue
        n += 1
        if not p.calls('cfg_error'):
            return 'cfg_getopt_secidx() can return "not found" with the flag off without a diagnostic (%s)' % ' && '.join(conds[-4:])
    if n == 0:
        raise sym.AnalysisIncomplete('no flag-off not-found path found in the resolver')
    return True


def resolver_silent_under_flag(c):
    """R12.12: True, or (where, text, witness) for a resolver path that reports although the flag was not shown to be clear"""
    fn = c.need('cfg_getopt_secidx')
    ex = sym.Explorer(c.modules, max_visits=2, mod_sets=c.mod_sets, max_paths=50000)
    n = 0
    for p in ex.explore(fn, neq={('p', 'cfg'): {0}}):
        errs = p.calls('cfg_error')
        if not errs:
            continue
        n += 1
        first = min(e.seq for e in errs)
        off = False
        for cnd, t, _ in p.assume[:first]:
            x = pm.describe_cond(cnd) if t else '!' + pm.describe_cond(cnd)
            if x in ('!cfg->flags has IGNORE_UNKNOWN', 'not(cfg->flags has IGNORE_UNKNOWN)'):
                off = True
        if not off:
            e = [e for e in errs if e.seq == first][0]
            fmt = e.args[1][1] if len(e.args) > 1 and e.args[1][0] == 'str' else '?'
            conds = [pm.describe_cond(cnd) if t else '!' + pm.describe_cond(cnd) for cnd, t, _ in p.assume[:first]]
            return (c.where(e.ins), 'the name lookup reports %r without having looked at CFGF_IGNORE_UNKNOWN: an undeclared item that the parser then skips '
                    'has already produced a diagnostic' % fmt, ['path condition: ' + ' && '.join(conds[-5:])])
    if n == 0:
        raise sym.AnalysisIncomplete('no reporting path found in the resolver')
    return True


def flag_reaches_sections(c, chk):
    """R12.6: the flag is a property of the context that every section inherits: a section takes the parent's flag
    word when it is created, and a new context's flag word is final before its first sections are created"""
    from .c01 import construct_before_use
    chk.rule('R12.6', 'a section inherits the context flags (including ignore-unknown) at creation; a new context\'s flags are final before sections are created from it')
    construct_before_use(c, chk, 'R12.6', only_fields={'flags'}, define_rule=False)
    fn = c.need('cfg_setopt')
    ex = sym.Explorer(c.modules, max_visits=2, mod_sets=c.mod_sets, max_paths=200000)
    n = 0
    bad = None
    for p in ex.explore(fn):
        if p.end != 'ret' or p.retval in (sym.C0, None):
            continue
        fresh = [e.res for e in p.events if e.kind == 'call' and e.name == 'calloc' and any(
            x.kind == 'store' and x.addr[0] == 'fld' and x.addr[2] == 'cfg_t' and x.addr[1] == e.res for x in p.events)]
        for obj in fresh:
            n += 1
            st = [x for x in p.events if x.kind == 'store' and x.addr == ('fld', obj, 'cfg_t', 'flags')]
            whole = [x for x in st if sym.mentions(x.val, lambda v: v[0] == 'ld' and v[1] == ('fld', ('p', 'cfg'), 'cfg_t', 'flags'))
                     and not sym.mentions(x.val, lambda v: v[0] == 'bin' and v[1] == 'and')]
            if not whole:
                bad = bad or (p, obj, st)
    if bad:
        p, obj, st = bad
        chk.fail('R12.6', 'section-flags', c.where(st[0].ins if st else fn), 'cfg_setopt() creates a section whose flag word is not the parent context\'s flag word (%s): '
                 'inside that section the ignore-unknown setting of the context is lost' % (sym.render(st[0].val) if st else 'never assigned'))
    else:
        chk.ok('R12.6', 'cfg_setopt: %d section-creating paths' % n, 'the new section\'s flags start as the whole flag word of the parent context', sample=True)
    chk.floor('R12.6 section-creating paths', n, 2)


def skipped_item_leaves_nothing(c, chk):
    """R12.8: skipping an unknown item is a no-op also for what the parser holds: a pending comment or title released on
    the way into the skipper is not kept for a later iteration"""
    from . import c07, c08
    chk.rule('R12.8', 'nothing the parser has released while skipping an unknown item is still referenced afterwards (pending comment, title)')

    class OnlyDangling(c08.chk_proxy):
        def fail(self, rule, key, *a, **kw):
            if rule == 'R7.2':
                return self._chk.fail('R12.8', key, *a, **kw)
            return None

        def ok(self, rule, *a, **kw):
            return self._chk.ok('R12.8', *a, **kw)

        def floor(self, *a, **kw):
            return None
    c07.parser_ownership(c, OnlyDangling(chk, {}))
