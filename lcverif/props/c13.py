"""C13 - including a file equals reading its text in place (mechanism obligations only)."""
import re

from .. import sym, failpaths as fp, parsermodel as pm, report, cfg as _cfg
from . import c06, c07, c08, c17

EXPLANATION = (
    'Static analysis of the include mechanism (a push/pop of scanner sources). Decided: the push and pop sites save and '
    'restore the same position fields and the included file starts at line 1; every write into the include stack is '
    'guarded by a failing return for index >= N where N is the array length taken from the IR type; every failing '
    'return of the include function carries a diagnostic and returns the parse-error code, and the built-in include() '
    'rejects a wrong argument count with a diagnostic; parse and include resolve names with the same idiom; the '
    'scanner cannot terminate the process on a read error; the parse bracket restores the include stack on every exit; '
    'the end-of-file action pops only sources the include function pushed and closes what it pops. That an include has '
    'the same effect on option values as the inline text is NOT decided (values).')


def run(c, chk):
    chk.explanation = EXPLANATION
    chk.rule('R13.1', 'include push/pop save and restore the same position fields; the included file starts at line 1')
    chk.rule('R13.2', 'every write into the include stack is guarded by a failing return for index >= array length')
    chk.rule('R13.3', 'every failing return of the include function is diagnosed and returns the parse-error code; include() checks its argument count')
    chk.rule('R13.4', 'top-level parse and include use the same name resolution')
    chk.rule('R13.5', 'a read error in the scanner cannot terminate the process')
    chk.rule('R13.6', 'include capacity is restored on every exit of the parse bracket')
    chk.rule('R13.7', 'the end-of-file action pops only sources pushed by include() and closes what it pops')
    chk.trusted = ['flex tables', 'clang/opt IR']
    chk.assumptions = ['equality of option values between split and flat text is behavioural and not decided']
    lex = c.lex
    ex = sym.Explorer(c.modules, max_visits=2, mod_sets=c.mod_sets, max_paths=50000)
    P = c08.chk_proxy

    # R13.1
    c06.include_position(c, P(chk, {'R6.5': 'R13.1'}), lex)

    # R13.12: "parsing continues in the including source with its own file name": a section opened after (or inside) an
    # include takes the name of the file being read now, also when it was first opened in another file
    from .. import parsermodel as _pm
    chk.rule('R13.12', 'every entry into a section body hands the current file name, line and error function to the section (the hand-over rules of C06 R6.5)')
    c06.section_handover(c, P(chk, {'R6.5': 'R13.12'}), _pm.ParserModel(c))
    # R13.13: "never a lasting loss of include capacity": what limits includes is the stack depth, which the parse bracket restores
    # (R13.6); any other counter or budget would have to be a mutable global under a reset discipline (rule R8.0 of C08)
    if not isinstance(chk, report.SubCheck):
        from . import c08 as _c08g
        chk.rule('R13.13', 'no include budget survives a parse: neither unit has a mutable global outside the reset disciplines (rule R8.0 of C08)')
        _c08g.classified_globals(c, chk, rid='R13.13', rid5='R13.13')
        # R13.14: a failure inside an included file is an ordinary error: what the unwinding released is not released again by the entry
        # point (rule R7.2 of C07: no double release, no dangling owner)
        from . import c07 as _c07g, c02 as _c02g
        chk.rule('R13.14', 'after a parse refused inside an included file nothing is released twice (rule R7.2 of C07)')
        sub7 = report.SubCheck(chk, 'R13.14', 'C07', only=('R7.2',))
        _c07g.run(c, sub7)
        sub7.done('released pointers')
        # R13.15: the scratch buffer is released at the end of an included file; the first comment or string after it finds none and
        # must get one (rule R2.4 of C02: every token value is provably non-null)
        chk.rule('R13.15', 'a token read after the end of an included file has a value: the scratch buffer is (re)created by the write that needs it (rule R2.4 of C02)')
        sub2 = report.SubCheck(chk, 'R13.15', 'C02', only=('R2.4',))
        _c02g.run(c, sub2)
        sub2.done('token values')

    # R13.11: an include is resolved through the search path every section borrows from the root: nothing that happens to a
    # section between two includes (replaced by a repeated title, removed) may release that list
    from . import c07 as _c07
    chk.rule('R13.11', 'replacing or removing a section never releases the search path it only borrows from the root (the next include would walk a freed list)')
    _c07.searchpath_rule(c, P(chk, {'R7.3': 'R13.11'}), sym.Explorer(c.modules, max_visits=2, mod_sets=c.mod_sets, max_paths=200000))

    # R13.10: a refused include costs nothing lasting: file closed, name released, include stack as deep as before
    chk.rule('R13.10', 'every failing exit of the include function has closed the file, released the name and left the include stack as deep as it found it (no lasting loss of include capacity)')
    c08.refused_include_leaves_nothing(c, P(chk, {'R8.7': 'R13.10'}))

    # R13.2
    g = c.lexer.globals.get('@cfg_include_stack')
    if g is None:
        raise report.Broken('global cfg_include_stack not found')
    m = re.match(r'^\[(\d+) x ', g['ty'])
    if not m:
        raise report.Broken('cfg_include_stack is not an array (%s)' % g['ty'])
    N = int(m.group(1))
    fn = c.lexer.funcs.get('cfg_lexer_include')
    if fn is None:
        raise report.Broken('cfg_lexer_include() not found')
    lexex = sym.Explorer([c.lexer], max_visits=2, mod_sets=lex.mod_sets)
    nst = 0
    bad = None
    for p in lexex.explore(fn):
        if p.end != 'ret':
            continue
        for e in p.events:
            if e.kind == 'store' and sym.root_of(e.addr) == ('g', '@cfg_include_stack'):
                nst += 1
                idx = e.addr
                while idx[0] == 'fld':
                    idx = idx[1]
                i = idx[2] if idx[0] == 'idx' else sym.C0
                # guard: an earlier assumption bounds i below N
                bounded = False
                for cn, t, ins in p.assume[:e.seq]:
                    if cn[0] == 'icmp' and sym.norm(cn[2]) == sym.norm(i) and sym.is_const(cn[3]):
                        k = cn[3][1]
                        if (cn[1] in ('sge', 'uge') and not t and k <= N) or (cn[1] in ('sgt', 'ugt') and not t and k < N) or \
                                (cn[1] in ('slt', 'ult') and t and k <= N) or (cn[1] in ('sle', 'ule') and t and k < N):
                            bounded = True
                if not bounded:
                    bad = (e, i, p)
    if bad:
        e, i, p = bad
        chk.fail('R13.2', 'include-stack-bound', c.where(e.ins), 'cfg_lexer_include() writes cfg_include_stack[%s] without having established %s < %d (the array length): '
                 'nesting one level too deep writes past the array' % (sym.render(i), sym.render(i), N), witness=['path condition: ' + fp.cond_text(p, 4)])
    else:
        chk.ok('R13.2', 'cfg_lexer_include: %d stack writes' % nst, 'all under the guard index < %d = length of cfg_include_stack' % N, sample=True)
    chk.floor('R13.2 include stack writes', nst, 3)
    # pop side: index is ptr-1 after testing ptr > 0
    for scn, aps in lex.eof_actions.items():
        for ap in aps:
            if any(x[0] == 'call' and x[1] == 'cfg_scan_fp_end' for x in ap.effects):
                okp = any(cn[0] == 'icmp' and sym.render(cn[2]) == 'cfg_include_stack_ptr' and cn[3] == sym.C0 and ((cn[1] == 'sgt') == t)
                          for cn, t, _ in ap.path.assume)
                if not okp:
                    chk.fail('R13.2', 'pop-underflow:%s' % scn, 'src/lexer.l:%d' % lex.dfa.eof_line.get(scn, 0), 'the end-of-file action pops an include level without testing that one is open')
                    return

    # R13.3
    fa = fp.FailAnalysis(c, diagnosing={'cfg_lexer_include'})
    summ = fa.summary(fn, lambda v: v != sym.C0)
    nfail = 0
    for p, cls, det in summ.paths:
        nfail += 1
        if cls != 'diagnosed':
            chk.fail('R13.3', 'include-silent:%s' % fp.cond_key(p), c.where(p.last_ins), 'cfg_lexer_include() fails without a diagnostic when %s' % fp.cond_text(p))
        elif p.retval != ('c', 1):
            chk.fail('R13.3', 'include-code:%s' % fp.cond_key(p), c.where(p.last_ins), 'cfg_lexer_include() reports an error but returns %s instead of CFG_PARSE_ERROR' % sym.render(p.retval))
    chk.ok('R13.3', 'cfg_lexer_include: %d failing returns' % nfail, 'each after cfg_error(), each returning CFG_PARSE_ERROR (nesting limit, not found, tilde failure, open failure, directory)', sample=True)
    chk.floor('R13.3 failing returns of cfg_lexer_include', nfail, 4)
    inc = c.need('cfg_include')
    okc = False
    for p in ex.explore(inc):
        if p.end != 'ret':
            continue
        if any(cn[0] == 'icmp' and sym.render(cn[2]) == 'argc' and cn[3] == ('c', 1) and ((cn[1] == 'ne') == t) for cn, t, _ in p.assume):
            if p.calls('cfg_error') and p.retval != sym.C0 and not p.calls('cfg_lexer_include'):
                okc = True
            else:
                okc = False
                break
    if okc:
        chk.ok('R13.3', 'cfg_include', 'argc != 1 -> diagnostic + failure, no file is opened')
    else:
        chk.fail('R13.3', 'include-argc', c.where(inc), 'the built-in include() does not reject a wrong number of arguments with a diagnostic')

    # R13.4: shared with C17
    class Only(object):
        def __init__(self, chk):
            self.chk = chk
    sub = P(chk, {'R17.6': 'R13.4'})
    c17.resolution_idiom(c, sub, ex)

    # R13.8
    section_path(c, chk)

    buffer_sizes(c, chk)

    # R13.9: an include names its file the way a top-level parse does: the resolution rules of C17 are obligations here too
    chk.rule('R13.9', 'the name given to include() is resolved by the rules of C17 (regular-file test, search order, tilde expansion)')
    sub = report.SubCheck(chk, 'R13.9', 'C17')
    c17.run(c, sub)
    sub.done('file name resolution')

    # R13.5
    term = False
    ffe = c.lexer.funcs.get('yy_fatal_error')
    for f in c.lexer.funcs.values():
        for call in f.calls('yy_fatal_error'):
            msg = c.string_arg(call, 0) or ''
            if 'input in flex scanner failed' in msg or 'read' in msg.lower():
                term = True
                chk.fail('R13.5', 'read-error-exits', c.where(call), 'the scanner calls exit() when reading the source fails (%r): include("/some/dir") kills the process' % msg)
    if not term:
        chk.ok('R13.5', 'scanner input', 'no fatal-error site for read failures is left in the generated scanner (YY_INPUT treats a read error as end of input)', sample=True)
    # a directory is reported at open time
    isdir = any(True for p in lexex.explore(fn) if p.end == 'ret' and p.retval == ('c', 1) and p.calls('fstat') and p.calls('cfg_error') and p.calls('fclose'))
    if isdir:
        chk.ok('R13.5', 'directory as include target', 'fstat() + S_ISDIR: diagnostic, fclose(), CFG_PARSE_ERROR')
    else:
        chk.fail('R13.5', 'directory-unreported', c.where(fn), 'a directory given to include() is not reported as a parse error (it reads as an empty file)')

    # R13.6 / R13.7
    c07.include_rule(c, P(chk, {'R7.6': 'R13.6'}), ex)
    npop = 0
    for scn, aps in lex.eof_actions.items():
        pops = [ap for ap in aps if any(x[0] == 'call' and x[1] == 'cfg_scan_fp_end' for x in ap.effects)]
        keeps = [ap for ap in aps if ap.returns and ap.retval == ('c', -1) and ap.of('incptr')]
        if not pops:
            continue
        npop += 1
        # the "not mine" arm: fp != yyin -> undo the decrement and return EOF
        own_test = any(any(sym.render(cn[2]).endswith('.f0') or 'cfg_include_stack' in sym.render(cn[2]) for cn, t, _ in ap.path.assume if cn[0] == 'icmp' and 'cfg_yyin' in sym.render(cn[3]))
                       for ap in pops + keeps)
        if not own_test:
            chk.fail('R13.7', 'pop-foreign:%s' % scn, 'src/lexer.l:%d' % lex.dfa.eof_line.get(scn, 0),
                     'the end-of-file action pops an include level without checking that the finished source is the one include() pushed (nested default-value scans would pop a real include)')
            return
    if npop:
        chk.ok('R13.7', '<<EOF>> action', 'pops only when the finished source is the FILE stored by include() (fp == yyin); otherwise restores the pointer and returns EOF; closes what it pops (R13.6)')
    chk.floor('R13.7 start conditions with a popping EOF action', npop, 1)




def section_path(c, chk):
    """an include written inside a section resolves its name like one at top level: whenever the parser enters a
    section body the section carries the search path of the context being parsed"""
    chk.rule('R13.8', 'on entry to a section body the section is given the search path of the enclosing context (sections created before a path was added included)')
    model = pm.ParserModel(c)
    LB = pm.TOKENS['{']
    n = 0
    for s in model.states:
        for tr in model.transitions(s, LB):
            rec = tr.calls('cfg_parse_internal')
            if not rec or tr.kind != 'next':
                continue
            n += 1
            ri = tr.events.index(rec[0])
            sec = rec[0].args[0]
            ok = any(e.kind == 'store' and e.addr[0] == 'fld' and e.addr[3] == 'path' and sym.norm(e.addr[1]) == sym.norm(sec)
                     and sym.norm(e.val) == ('ld', ('fld', ('p', 'cfg'), 'cfg_t', 'path')) for e in tr.events[:ri])
            if not ok:
                chk.fail('R13.8', 'section-path', c.where(rec[0].ins),
                         'the parser enters a section body without giving the section the current search path: include() inside a section that existed before '
                         'cfg_add_searchpath() was called (every section created by cfg_init()) looks the file up without the search path')
                return
    if n:
        chk.ok('R13.8', 'section entry: %d transitions' % n, 'section->path = cfg->path before the recursive parse', sample=True)
    chk.floor('R13.8 section-entry transitions', n, 1)


def buffer_sizes(c, chk, rid='R13.16'):
    """an included file is read completely whatever its size - the empty file included: the scanner buffer a source is read
    through has a positive size (flex's refill loop makes no progress with a buffer of size 0: the scanner never returns)"""
    chk.rule(rid, 'every scanner buffer is created with a positive size: a constant, or a value shown to be greater than 0 on that path (a buffer sized after an empty file makes the scanner spin)')
    ex = sym.Explorer(c.modules, max_visits=2, mod_sets=c.mod_sets, max_paths=20000)
    n = 0
    bad = None
    for f in list(c.lexer.funcs.values()) + list(c.confuse.funcs.values()):
        if f.name in c.unknown_funcs:
            continue          # a helper is explored as part of its callers (with the sizes they pass)
        if not any(True for _ in c.deep_calls(f, 'cfg_yy_create_buffer')):
            continue
        if f.name in ('cfg_yylex', 'cfg_yyrestart', 'cfg_yy_scan_buffer', 'cfg_yy_scan_bytes', 'cfg_yy_scan_string'):
            sizes = [call for call in f.calls('cfg_yy_create_buffer')]
            for call in sizes:          # generated code: the size is the YY_BUF_SIZE constant
                n += 1
                a = call.args[1] if len(call.args) > 1 else None
                if a is None or not a.is_int() or a.ival <= 0:
                    bad = bad or (f, call, None, 'the generated scanner creates a buffer whose size is not a positive constant')
            continue
        for p in ex.explore(f):
            for e in p.events:
                if not (e.kind == 'call' and e.name == 'cfg_yy_create_buffer' and e.args and len(e.args) > 1):
                    continue
                n += 1
                sz = e.args[1]
                if sym.is_const(sz):
                    if sz[1] <= 0:
                        bad = bad or (f, e.ins, p, 'the buffer size is the constant %d' % sz[1])
                    continue
                core = sz
                while core[0] == 'bin' and core[1] in ('trunc', 'sext', 'zext'):
                    core = core[2]
                positive = False
                for cn, t, _ in p.assume:
                    if cn[0] != 'icmp' or not sym.mentions(cn, lambda v: v == core):
                        continue
                    left = sym.mentions(cn[2], lambda v: v == core)
                    other = cn[3] if left else cn[2]
                    if not sym.is_const(other):
                        continue
                    k = other[1]
                    pred = cn[1] if left else {'sgt': 'slt', 'sge': 'sle', 'slt': 'sgt', 'sle': 'sge', 'ugt': 'ult', 'uge': 'ule', 'ult': 'ugt', 'ule': 'uge'}.get(cn[1], cn[1])
                    if (pred in ('sgt', 'ugt') and t and k >= 0) or (pred in ('sge', 'uge') and t and k >= 1) or (pred in ('sle', 'ule') and not t and k >= 0) or \
                            (pred in ('slt', 'ult') and not t and k >= 1) or (pred == 'ne' and t and k == 0 and cn[1] == 'ne') or (pred == 'eq' and not t and k == 0):
                        positive = True
                if not positive:
                    bad = bad or (f, e.ins, p, 'the buffer size is %s, which nothing on the path shows to be greater than 0' % sym.render(sz))
    if bad is not None:
        f, ins, p, why = bad
        chk.fail(rid, 'buffer-size:%s' % f.name, c.where(ins), '%s() creates a scanner buffer of a size that can be 0: %s - an empty source (a 0-byte include file) is then never read to its end, '
                 'the scanner makes no progress' % (f.name, why), witness=(['path condition: ' + fp.cond_text(p, 6)] if p is not None else None))
    else:
        chk.ok(rid, '%d buffer creations' % n, 'each with a positive constant size', sample=True)
    chk.floor('%s scanner buffer creations' % rid, n, 2)
