"""C14 - user callbacks see exactly the parsed items, and their verdict binds."""
from .. import sym, parsermodel as pm, failpaths as fp, report, cfg as _cfg

EXPLANATION = (
    'Static analysis: every indirect call in confuse.c is enumerated by the struct field its function pointer was '
    'loaded from (parsecb, validcb, validcb2, func, freecb, pf, pff, errfunc; instance counts are floors). For the '
    'verdict-bearing callbacks every residual path through the call site is inspected: the non-zero arm must reach the '
    'failing return with no store to option state after the call, the zero arm must store the value the callback '
    'produced through its out-parameter; each typed arm of cfg_setopt has exactly one parse-callback call taking the '
    'token text; in the extracted parser table every successful store is followed by the guarded validation call before '
    'the loop back edge; call_function passes the buffered arguments in index order with their count; the pre-set '
    'validator dominates the setter and receives the address of the very value that is then stored; registration writes '
    'only the callback slot of the option found by the schema walker.')

T = pm.TOKENS
FLOORS = {'parsecb': 1, 'validcb': 1, 'validcb2': 1, 'func': 1, 'freecb': 1, 'pf': 1, 'pff': 1, 'errfunc': 1}


def indirect_sites(c):
    """[(fn, call instr, field name)] for every indirect call of confuse.c"""
    out = []
    for fn in c.confuse.funcs.values():
        for call in fn.calls():
            if call.callee_name() is not None or call.callee.kind != 'reg':
                continue
            out.append((fn, call, fnptr_field(fn, call.callee)))
    return out


def fnptr_field(fn, v, depth=0):
    """where a called function pointer comes from: the name of the struct field it was loaded from, 'const:<function>'
    when it is one of a fixed set of functions (a comparison routine picked by a flag, a table of built-in workers),
    or the same through a parameter when every caller passes such a value"""
    if v.kind == 'global':
        return 'const:' + v.name
    if v.kind == 'null':
        return 'const:null'
    if v.kind == 'cexpr':
        b = v.strip_casts()
        return 'const:' + b.name if b.kind == 'global' else '?'
    if v.kind != 'reg' or depth > 6:
        return '?'
    d = fn.defs.get(v.name)
    if d is None:
        # a parameter: classified by what the callers pass
        pos = next((i for i, p in enumerate(fn.params) if p.name == v.name), None)
        names = set()
        if pos is not None:
            for g in fn.module.funcs.values():
                for call in g.calls(fn.name):
                    if pos < len(call.args):
                        names.add(fnptr_field(g, call.args[pos], depth + 1))
        return _merge(names) if names else 'param:' + fn.param_names.get(v.name, v.name)
    if d.op == 'load':
        a = d.ops[0]
        if a.kind == 'reg':
            g = fn.defs.get(a.name)
            if g is not None and g.op == 'getelementptr' and g.srcty.strip().startswith('%struct.') and len(g.ops) >= 3 and g.ops[2].kind == 'int':
                sty = g.srcty.strip()
                if sty not in ('%struct.cfg_opt_t', '%struct.cfg_t'):
                    # a record type of which only constant objects exist (a table of built-in workers): not a user callback
                    objs = [x for x in fn.module.globals.values() if x.get('ty') and sty in x['ty']]
                    if objs and all(x.get('const') for x in objs):
                        return 'const:' + sty[8:] + '.' + fn.module.field_name(sty, g.ops[2].ival)
                return fn.module.field_name(sty, g.ops[2].ival)
            if g is not None and g.op == 'getelementptr' and g.ops[0].kind == 'global' and (fn.module.globals.get(g.ops[0].name) or {}).get('const'):
                return 'const:' + g.ops[0].name       # an entry of a constant table of functions
            if g is not None and g.op == 'alloca':
                # a local that holds the pointer: every value stored into it
                names = set(fnptr_field(fn, st.ops[0], depth + 1) for st in fn.instrs() if st.op == 'store' and st.ops[1].kind == 'reg' and st.ops[1].name == a.name)
                return _merge(names) if names else '?'
        return '?'
    if d.op in ('bitcast',):
        return fnptr_field(fn, d.ops[0], depth + 1)
    if d.op == 'call' and d.callee_name():
        # the pointer is what a function of this unit returns: classified by its return values
        h = next((m.funcs[d.callee_name()] for m in [fn.module] if d.callee_name() in m.funcs), None)
        if h is not None:
            rets = [i for i in h.instrs() if i.op == 'ret' and i.ops]
            return _merge(set(fnptr_field(h, r.ops[0], depth + 1) for r in rets)) if rets else '?'
        return '?'
    if d.op in ('phi', 'select'):
        return _merge(set(fnptr_field(fn, x, depth + 1) for x in (d.ops if d.op == 'phi' else d.ops[1:])))
    return '?'


def _merge(names):
    names = set(names)
    if '?' in names or any(n.startswith('param:') for n in names):
        fields = sorted(n for n in names if n != '?' and not n.startswith('param:') and not n.startswith('const:'))
        return fields[0] if fields else '?'
    fields = sorted(n for n in names if not n.startswith('const:'))
    if fields:
        return fields[0]
    return 'const:' + ','.join(sorted(n[6:] for n in names)) if names else '?'


def fp_cond(p):
    from .. import failpaths as fp
    return fp.cond_text(p, 4)


def run(c, chk):
    chk.explanation = EXPLANATION
    chk.rule('R14.0', 'indirect call sites enumerated by callback field (instance floors)')
    chk.rule('R14.1', 'a non-zero callback verdict reaches the failing return with no further effect on option state')
    chk.rule('R14.2', 'exactly one parse-callback call per stored value, with the token text; the stored value is the one it produced')
    chk.rule('R14.3', 'after every store made by the parser the guarded validation callback runs before the next token')
    chk.rule('R14.4', 'the function callback receives the buffered arguments in order with their count; one argument per string token')
    chk.rule('R14.5', 'the pre-set validator dominates the setter, its veto returns failure directly, it receives the very value that is stored')
    chk.rule('R14.6', 'callback registration resolves through the schema walker and writes only the callback slot')
    chk.trusted = ['clang/opt IR']
    chk.assumptions = ['callbacks are opaque and do not re-enter the parser; decoding of the token text is C03\'s business']
    sites = indirect_sites(c)
    byfield = {}
    for fn, call, fld in sites:
        byfield.setdefault(fld, []).append((fn, call))
    chk.analysed = {'indirect_call_sites': len(sites), 'fields': {k: len(v) for k, v in sorted(byfield.items())}}
    for fld, floor in sorted(FLOORS.items()):
        n = len(byfield.get(fld, []))
        chk.floor('R14.0 %s call sites' % fld, n, floor)
        chk.ok('R14.0', '%s: %d call site(s)' % (fld, n), ', '.join(sorted(set(f.name for f, _ in byfield.get(fld, [])))), nontrivial=False)
    unknown = [(fn, call) for fn, call, fld in sites if not fld.startswith('const:') and (fld == '?' or fld not in FLOORS)]
    for fn, call in unknown:
        chk.fail('R14.0', 'unclassified-indirect:%s' % fn.name, c.where(call), 'indirect call in %s() through a pointer that is not one of the known callback fields' % fn.name)

    ex = sym.Explorer(c.modules, max_visits=2, mod_sets=c.mod_sets, max_paths=60000)

    # ---- R14.1 / R14.2: cfg_setopt parsecb --------------------------------------------
    sfn = c.need('cfg_setopt')
    value_param = ('p', 'value')
    paths = [p for p in ex.explore(sfn) if p.end == 'ret']
    ncb = 0
    seen_types = set()
    for p in paths:
        cbs = [e for e in p.events if e.kind == 'call' and e.name == 'indirect:parsecb']
        if not cbs:
            continue
        ncb += 1
        ty = next((pm.describe_cond(cn).split(' eq ')[-1] for cn, t, _ in p.assume if t and pm.describe_cond(cn).startswith('opt->type eq ')), '?')
        key = 'parsecb:%s' % ty
        if len(cbs) != 1:
            chk.fail('R14.2', key + ':count', c.where(cbs[1].ins), 'cfg_setopt() calls the parse callback %d times for one value (%s option)' % (len(cbs), ty))
            continue
        cb = cbs[0]
        if len(cb.args) < 4 or cb.args[2] != value_param:
            chk.fail('R14.2', key + ':text', c.where(cb.ins), 'the parse callback of a %s option does not receive the token text (gets %s)' % (ty, sym.render(cb.args[2]) if len(cb.args) > 2 else '?'))
            continue
        verdict = None
        for cn, t, _ in p.assume:
            if cn[0] == 'icmp' and cb.res in (cn[2], cn[3]) and sym.C0 in (cn[2], cn[3]):
                verdict = ((cn[1] == 'ne') == t)       # True: non-zero
        idx = p.events.index(cb)
        after = p.events[idx + 1:]
        if verdict is None:
            chk.fail('R14.1', key + ':untested', c.where(cb.ins), 'the result of the parse callback of a %s option is not tested' % ty)
            continue
        if verdict:
            eff = [e for e in after if (e.kind == 'store' and sym.object_of(e.addr)[0] != 'alloca') or (e.kind == 'call' and e.name not in ('cfg_error',))]
            if p.retval != sym.C0 or eff:
                chk.fail('R14.1', key + ':veto', c.where(cb.ins), 'a failing parse callback (%s option) does not make cfg_setopt() fail without further effect' % ty,
                         witness=[repr(e) for e in after[:5]])
                continue
        else:
            # the value stored afterwards is the out-parameter
            outp = cb.args[3]
            stores = [e for e in after if e.kind == 'store' and e.addr[0] == 'fld' and e.addr[2] in ('cfg_value_t', 'cfg_simple_t')]
            frees = [e for e in after if e.kind == 'call' and e.name == 'strdup']
            good = False
            for e in stores:
                v = e.val
                while v[0] == 'bin' and v[1] == 'trunc':
                    v = v[2]
                if v[0] == 'ld' and v[1] == outp:
                    good = True
            if ty == 'STR':
                good = any(e.args and e.args[0][0] == 'ld' and e.args[0][1] == outp for e in frees) or \
                    any(cn for cn, t, _ in p.assume if fp.is_null_assumption(cn, t) and fp.is_null_assumption(cn, t)[0][0] == 'ld'
                        and fp.is_null_assumption(cn, t)[0][1] == outp and fp.is_null_assumption(cn, t)[1])
            if not good and p.retval != sym.C0:
                chk.fail('R14.2', key + ':value', c.where(cb.ins), 'after a successful parse callback (%s option) the stored value is not the one it produced' % ty,
                         witness=[repr(e) for e in after[:6]])
                continue
        seen_types.add(ty)
    if seen_types:
        chk.ok('R14.1', 'cfg_setopt: parse callback arms %s' % sorted(seen_types), '%d residual paths: veto -> NULL without effect; success -> stored value is the out-parameter' % ncb, sample=True)
        chk.ok('R14.2', 'cfg_setopt: one parsecb call per path, third argument is the token text', 'types %s' % sorted(seen_types), sample=True)
    chk.floor('R14.2 option types with a parse-callback arm', len(seen_types), 5)

    # ---- R14.1 / R14.3: validcb in the parser ---------------------------------------------
    model = pm.ParserModel(c)
    nonnull = model.opt_nonnull_states()
    nstore = 0
    nval = 0
    for s, tok, trs in model.table():
        for tr in trs:
            if s in nonnull and tr.assumes('opt', False):
                continue
            vcs = [e for e in tr.events if e.kind == 'call' and e.name == 'indirect:validcb']
            for vc in vcs:
                nval += 1
                # a section is validated as parsed: the callback of a section option runs only once its body was read to its
                # closing brace - the result of the nested parse was compared with its "body complete" code before the call
                recs = [e for e in tr.events[:tr.events.index(vc)] if e.kind == 'call' and e.name == 'cfg_parse_internal']
                if recs:
                    rr = recs[-1].res
                    known = any(cn[0] == 'icmp' and cn[1] in ('eq', 'ne') and rr in (cn[2], cn[3]) and sym.is_const(cn[3] if cn[2] == rr else cn[2]) and ((cn[1] == 'eq') == t)
                                for cn, t, _ in tr.assume[:vc.seq])
                    if not known:
                        chk.fail('R14.3', 'validcb-before-body-verdict:state%d' % s, c.where(vc.ins), 'state %d runs the validation callback of a section before it has looked at the result of parsing the '
                                 'section\'s body: the callback is also called for a section whose body was refused (half-read, possibly after a callback inside it has vetoed)' % s,
                                 witness=[tr.describe()])
                verdict = None
                for cn, t, _ in tr.assume:
                    if cn[0] == 'icmp' and vc.res in (cn[2], cn[3]) and sym.C0 in (cn[2], cn[3]):
                        verdict = ((cn[1] == 'ne') == t)
                if verdict is None:
                    chk.fail('R14.1', 'validcb-untested:state%d' % s, c.where(vc.ins), 'state %d ignores the result of the validation callback' % s, witness=[tr.describe()])
                elif verdict:
                    after = tr.events[tr.events.index(vc) + 1:]
                    eff = [e for e in after if (e.kind == 'call' and e.name not in ('free', 'cfg_error')
                                                and not (e.name == 'cfg_free_value' and e.args and sym.object_of(e.args[0])[0] == 'alloca'))
                           or (e.kind == 'store' and sym.object_of(e.addr)[0] != 'alloca')]
                    if not (tr.kind == 'ret' and tr.ret == 1) or eff:
                        chk.fail('R14.1', 'validcb-veto:state%d' % s, c.where(vc.ins), 'state %d: a failing validation callback does not stop the parse at that point' % s, witness=[tr.describe()])
                if len(vc.args) != 2 or vc.args[1] != ('p', 'opt'):
                    chk.fail('R14.3', 'validcb-args:state%d' % s, c.where(vc.ins), 'state %d validates %s instead of the option just stored' % (s, sym.render(vc.args[1]) if len(vc.args) > 1 else '?'))
            # a successful store must be followed by the guarded validation
            so = [e for e in tr.events if e.kind == 'call' and e.name == 'cfg_setopt']
            if so and tr.kind == 'next':
                nstore += 1
                si = tr.events.index(so[-1])
                later = [e for e in tr.events[si + 1:] if e.kind == 'call' and e.name == 'indirect:validcb']
                skipped = tr.assumes('opt->validcb', False)
                if later:
                    # "with that value visible": nothing between the store and the callback takes the values away again
                    from .. import cfg as _cfgmod
                    between = tr.events[si + 1:tr.events.index(later[0])]
                    gone = [e for e in between if e.kind == 'call' and not e.inlined and c.func(e.name) is not None and ('p', 'opt') in e.args
                            and 'cfg_free_value' in _cfgmod.transitive(c.callgraph, [e.name])]
                    if gone:
                        chk.fail('R14.3', 'value-gone-before-validation:state%d' % s, c.where(gone[0].ins),
                                 'state %d calls %s() between storing the value and running the validation callback: the callback no longer sees the value it is to judge'
                                 % (s, gone[0].name), witness=[tr.describe()])
                if not later and not skipped:
                    chk.fail('R14.3', 'no-validation:state%d:%s' % (s, pm.TOKNAME.get(tok, tok)), c.where(so[-1].ins),
                             'state %d on %s stores a value and goes on without running the option\'s validation callback' % (s, pm.TOKNAME.get(tok, tok)),
                             witness=[tr.describe()])
    chk.ok('R14.3', 'parser: %d accepting store paths' % nstore, 'each runs opt->validcb (when set) after the store and before the next token', sample=True)
    chk.ok('R14.1', 'parser: %d validation call paths' % nval, 'non-zero verdict -> error exit with no further effect')
    chk.floor('R14.3 accepting store paths', nstore, 6)

    # ---- R14.4 -----------------------------------------------------------------------------
    call_function_args(c, chk, ex)
    narg = 0
    for s in model.states:
        for tr in model.transitions(s, T['STR']):
            av = [e for e in tr.events if e.kind == 'call' and e.name == 'cfg_addval']
            if not av or tr.kind != 'next':
                continue
            narg += 1
            dup = [e for e in tr.events if e.kind == 'call' and e.name == 'strdup']
            okd = len(av) == 1 and len(dup) == 1 and dup[0].args[0][0] == 'ld' and dup[0].args[0][1] == ('g', '@cfg_yylval')
            st = [e for e in tr.events if e.kind == 'store' and e.field == 'string' and e.val == (dup[0].res if dup else None)]
            if not (okd and st):
                chk.fail('R14.4', 'arg-append:state%d' % s, c.where(av[0].ins), 'state %d does not append exactly one copy of the token text to the argument vector' % s, witness=[tr.describe()])
    if narg:
        chk.ok('R14.4', 'argument states', '%d accepting paths: one cfg_addval + strdup(token text) stored into the new slot' % narg)
    chk.floor('R14.4 argument-append paths', narg, 1)
    ncallfn = 0
    for s in model.states:
        for tr in model.transitions(s, T[')']):
            cf = [e for e in tr.events if e.kind == 'call' and e.name == 'call_function']
            for e in cf:
                verdict = None
                for cn, t, _ in tr.assume:
                    if cn[0] == 'icmp' and e.res in (cn[2], cn[3]) and sym.C0 in (cn[2], cn[3]):
                        verdict = ((cn[1] == 'ne') == t)
                if verdict is None:
                    chk.fail('R14.1', 'func-untested:state%d' % s, c.where(e.ins), 'state %d ignores the result of the function callback' % s)
                elif verdict and not (tr.kind == 'ret' and tr.ret == 1):
                    chk.fail('R14.1', 'func-veto:state%d' % s, c.where(e.ins), 'state %d: a failing function callback does not stop the parse' % s)
                # the buffered arguments belong to this call only: the buffer is empty again when the parser goes on
                if tr.kind == 'next':
                    ncallfn += 1
                    after = tr.events[tr.events.index(e) + 1:]
                    emptied = any(x.kind == 'call' and x.name == 'cfg_free_value' and x.args and x.args[0] == e.args[2] for x in after)
                    if not emptied and not callee_empties_args(c, ex):
                        chk.fail('R14.4', 'args-not-reset:state%d' % s, c.where(e.ins),
                                 'after the function callback has run the argument buffer is not emptied before the parser continues: the next function call on the '
                                 'same level receives the arguments of this one in front of its own')

    chk.floor('R14.4 continuing transitions that call the function callback', ncallfn, 1)

    # ---- R14.5 -----------------------------------------------------------------------------
    for fname, setter in (('cfg_setnint', 'cfg_opt_setnint'), ('cfg_setnfloat', 'cfg_opt_setnfloat'), ('cfg_setnstr', 'cfg_opt_setnstr')):
        fn = c.need(fname)
        good = 0
        skipped = None
        for p in ex.explore(fn):
            if p.end != 'ret':
                continue
            v2 = [e for e in p.events if e.kind == 'call' and e.name == 'indirect:validcb2']
            st = [e for e in p.events if e.kind == 'call' and e.name == setter]
            if not v2:
                # the callback may only be passed over when there is none (or no option)
                none = False
                for cn, t, _ in p.assume:
                    if cn[0] == 'icmp' and cn[1] in ('eq', 'ne') and sym.C0 in (cn[2], cn[3]) and ((cn[1] == 'eq') == t):
                        o = cn[3] if cn[2] == sym.C0 else cn[2]
                        if (o[0] == 'ld' and o[1][0] == 'fld' and o[1][3] == 'validcb2') or (o[0] == 'call' and o[1] in ('cfg_getopt', 'cfg_getopt_secidx')) \
                                or o in (('p', 'cfg'), ('p', 'name'), ('p', 'opt')):
                            none = True
                if not none:
                    skipped = skipped or p
                continue
            vc = v2[0]
            verdict = None
            for cn, t, _ in p.assume:
                if cn[0] == 'icmp' and vc.res in (cn[2], cn[3]) and sym.C0 in (cn[2], cn[3]):
                    verdict = ((cn[1] == 'ne') == t)
            if verdict is None:
                chk.fail('R14.5', 'validcb2-untested:%s' % fname, c.where(vc.ins), '%s() ignores the verdict of the pre-set validation callback' % fname)
                continue
            if verdict:
                if st or p.retval != ('c', -1):
                    chk.fail('R14.5', 'validcb2-veto:%s' % fname, c.where(vc.ins), '%s(): a vetoing pre-set validation callback does not return failure before the store' % fname)
                    continue
            else:
                if not st or p.events.index(st[0]) < p.events.index(vc):
                    chk.fail('R14.5', 'validcb2-order:%s' % fname, c.where(vc.ins), '%s() stores before asking the pre-set validation callback' % fname)
                    continue
                arg = vc.args[2]
                val = st[0].args[1]
                same = False
                if fname == 'cfg_setnstr':
                    same = (arg == val)
                else:
                    # callback gets &value, setter gets the (possibly rewritten) value loaded from it afterwards
                    same = arg[0] == 'alloca' and val[0] == 'ld' and val[1] == arg
                if not same:
                    chk.fail('R14.5', 'validcb2-value:%s' % fname, c.where(vc.ins),
                             '%s(): the value handed to the pre-set validation callback (%s) is not the one that is stored (%s)' % (fname, sym.render(arg), sym.render(val)))
                    continue
            good += 1
        if skipped is not None:
            chk.fail('R14.5', 'validcb2-bypassed:%s' % fname, c.where(skipped.last_ins) if skipped.last_ins is not None else c.where(fn),
                     '%s() can return %s without consulting the pre-set validation callback although one may be installed (%s): the callback cannot veto or rewrite that call'
                     % (fname, sym.render(skipped.retval) if skipped.retval is not None else '', fp_cond(skipped)))
        elif good:
            chk.ok('R14.5', fname, '%d paths: validcb2 before %s(); veto returns CFG_FAIL; stored value is the validated one' % (good, setter), sample=True)
        else:
            chk.fail('R14.5', 'validcb2-missing:%s' % fname, c.where(fn), '%s() never consults the pre-set validation callback' % fname)

    # ---- R14.10: a value the parse callback accepted is stored: nothing after the callback judges it by what is in errno
    chk.rule('R14.10', 'no decision of the value store reads errno unless the library stored a value into it first on that path (an accepting parse callback may leave anything there)')
    from . import c08 as _c08e
    if not _c08e.errno_reads(c, _c08e.chk_proxy(chk, {'R8.6': 'R14.10'}), 'R8.6', funcs={'cfg_setopt'}):
        chk.ok('R14.10', 'cfg_setopt', 'does not read errno', nontrivial=False)

    # ---- R14.9: "the stored value is the one it produced": what a parse callback returns is copied before anything of the
    # option is released (the callback may hand back the option's own current string)
    from . import c09 as _c09, c08 as _c08
    _c09.copy_before_release(c, _c08.chk_proxy(chk, {'R9.6': 'R14.9'}), ex)

    # ---- R14.6 -----------------------------------------------------------------------------
    walker_template(c, chk, ex)
    # ---- R14.11: a callback registered by path lands on the option of that name, not on one whose name begins the same or is
    # spelled in another case (the rules for name comparisons of C11: R11.1 whole names, R11.16 case folding only by the flag)
    if not isinstance(chk, report.SubCheck):
        from . import c11 as _c11
        chk.rule('R14.11', 'registration by path compares whole names, case-folding only under CFGF_NOCASE (rules R11.1, R11.16 of C11): the callback lands on the option named')
        sub11 = report.SubCheck(chk, 'R14.11', 'C11', only=('R11.1', 'R11.16'))
        _c11.run(c, sub11)
        sub11.done('name comparisons')
    callbacks_travel(c, chk)
    for fname, fld in (('cfg_set_validate_func', 'validcb'), ('cfg_set_validate_func2', 'validcb2')):
        fn = c.need(fname)
        walker = [x for x in c.deep_calls(fn, 'cfg_getopt_array')]        # (also through a lookup helper shared by the two)
        stores = set()
        for g_ in c.deep_funcs(fn):
            for ins in g_.instrs():
                if ins.op == 'store':
                    from ..summaries import store_key
                    k = store_key(g_, ins)
                    if not k.startswith('local:') and k != 'errno':
                        stores.add(k)
        if len(walker) != 1:
            chk.fail('R14.6', 'register-walker:%s' % fname, c.where(fn), '%s() does not resolve the option through the schema walker' % fname)
        elif stores != {fld}:
            chk.fail('R14.6', 'register-writes:%s' % fname, c.where(fn), '%s() writes %s, expected only the %s slot' % (fname, sorted(stores), fld))
        else:
            chk.ok('R14.6', fname, 'one cfg_getopt_array() lookup; writes only ->%s' % fld)


def call_function_args(c, chk, ex):
    fn = c.need('call_function')
    good = 0
    for p in ex.explore(fn):
        if p.end != 'ret':
            continue
        cb = [e for e in p.events if e.kind == 'call' and e.name == 'indirect:func']
        if not cb:
            continue
        e = cb[0]
        al = [x for x in p.events if x.kind == 'call' and x.name in ('calloc', 'malloc')]
        if not al or len(e.args) != 4:
            chk.fail('R14.4', 'func-args', c.where(e.ins), 'call_function() does not pass (cfg, opt, argc, argv)')
            return
        argc, argv = e.args[2], e.args[3]
        okc = sym.render(argc) == 'funcopt->nvalues'
        okv = argv == al[0].res
        fills = [x for x in p.events if x.kind == 'store' and ((x.addr[0] == 'idx' and x.addr[1] == al[0].res) or x.addr == al[0].res)]
        okf = True
        for f_ in fills:
            i = f_.addr[2] if f_.addr[0] == 'idx' and f_.addr != al[0].res else sym.C0
            v = f_.val
            want = 'funcopt->values[%s]->string' % sym.render(i) if i != sym.C0 else '*funcopt->values->string'
            if sym.render(v) != want:
                okf = False
        # "a non-zero result makes the parse fail": whatever the callback answers that is not zero comes out of here as not zero
        rv = p.retval
        zero_shown = any(cn[0] == 'icmp' and cn[1] in ('eq', 'ne') and e.res in (cn[2], cn[3]) and sym.C0 in (cn[2], cn[3]) and ((cn[1] == 'eq') == t) for cn, t, _ in p.assume)
        if rv is not None and rv != e.res and sym.is_const(rv) and rv[1] == 0 and not zero_shown:
            chk.fail('R14.1', 'func-verdict-lost', c.where(p.last_ins) if p.last_ins is not None else c.where(fn),
                     'call_function() returns 0 on a path where the function callback was not shown to have returned 0 (%s): a callback that reports failure with a '
                     'positive code (as cfg_include() does) no longer stops the parse' % fp_cond(p))
            return
        if rv is not None and rv != e.res and not sym.is_const(rv):
            chk.fail('R14.1', 'func-verdict-lost', c.where(fn), 'call_function() returns %s instead of the verdict of the function callback' % sym.render(rv))
            return
        if okc and okv and okf:
            good += 1
        else:
            chk.fail('R14.4', 'func-args', c.where(e.ins), 'call_function(): argc is %s, argv[i] := %s' % (sym.render(argc), sym.render(fills[0].val) if fills else 'nothing'))
            return
    if good:
        chk.ok('R14.4', 'call_function', 'func(cfg, opt, funcopt->nvalues, argv) with argv[i] = funcopt->values[i]->string on %d paths' % good, sample=True)
    else:
        chk.fail('R14.4', 'func-missing', c.where(fn), 'call_function() never calls the function callback')


def callee_empties_args(c, ex):
    """does call_function() release the buffered arguments on every returning path on which it called the callback"""
    fn = c.need('call_function')
    n = 0
    for p in ex.explore(fn):
        if p.end != 'ret':
            continue
        cb = [i for i, e in enumerate(p.events) if e.kind == 'call' and e.name == 'indirect:func']
        if not cb:
            continue
        n += 1
        if not any(x.kind == 'call' and x.name == 'cfg_free_value' and x.args and x.args[0] == ('p', 'funcopt') for x in p.events[cb[0]:]):
            return False
    return n > 0


def walker_template(c, chk, ex):
    """registration on a path through a multi section must land in the section template (the option's sub-option
    table), from which every later instance is built - never in the private copy of one existing instance"""
    from .. import loops as _loops
    chk.rule('R14.7', 'the schema walker descends into an existing instance only for a single (non-multi) section, decided on that section option\'s own flags')
    fn = c.need('cfg_getopt_array')
    n = 0
    bad = None
    def descents():
        # the walk goes on in another option table: by the loop variable, or by calling itself on the rest of the path
        for h in sorted(_cfg.natural_loops(fn)):
            for p in _loops.iterate(ex, fn, h):
                if p.end == 'stop' and p.next.get('opts') is not None:
                    yield p, p.next.get('opts')
        for p in ex.explore(fn):
            for e in p.events:
                if e.kind == 'call' and e.name == fn.name and e.args:
                    yield p, e.args[0]
    if True:
        for p, nxt in descents():
            if nxt is None or not sym.mentions(nxt, lambda v: v[0] == 'call' and v[1] == 'cfg_opt_getnsec'):
                continue
            n += 1
            inst = next(e for e in p.events if e.kind == 'call' and e.name == 'cfg_opt_getnsec' and sym.mentions(nxt, lambda v: v == e.res))
            secopt = inst.args[0]
            want = ('ld', ('fld', secopt, 'cfg_opt_t', 'flags'))
            single = False
            for cn, t, _ in p.assume:
                d = pm.describe_cond(cn)
                if d.endswith('has MULTI') and sym.mentions(sym.norm(cn), lambda v: v == sym.norm(want)) and t is False:
                    single = True
                if d.startswith('not(') and d.endswith('has MULTI)') and sym.mentions(sym.norm(cn), lambda v: v == sym.norm(want)) and t is True:
                    single = True
            if not single:
                bad = bad or (p, inst)
    if bad:
        p, inst = bad
        chk.fail('R14.7', 'walker-instance', c.where(inst.ins),
                 'cfg_getopt_array() continues in the option table of an existing section instance without having established that the section option is not '
                 'CFGF_MULTI (%s): a callback registered through a multi section lands on that one instance only and sections stored later never run it'
                 % fp_cond(p))
    elif n:
        chk.ok('R14.7', 'cfg_getopt_array: %d descending paths' % n, 'instance table used only under !CFGF_MULTI of the section option itself; otherwise the template', sample=True)
    chk.floor('R14.7 paths descending into an instance', n, 1)


def fp_cond(p):
    from .. import failpaths as fp
    return fp.cond_text(p, 5)


def callbacks_travel(c, chk):
    """R14.8: a callback set in the schema reaches every context and section instance built from it: the duplicator
    copies every callback member (it copies whole records, or names each of them)"""
    from . import c16
    from .. import report as _report
    chk.rule('R14.8', 'the option duplicator carries every callback member (parse, validate, pre-set validate, print, release, function) into the copy')

    class OnlyMembers(object):
        def __init__(self, chk):
            self._chk = chk
            self.tier = chk.tier
            self.rules = {}
            self.analysed = {}
            self.extra = {}
            self.explanation = ''
            self.assumptions = []
            self.trusted = []
            self.hits = 0

        def rule(self, *a):
            pass

        def ok(self, *a, **kw):
            pass

        def floor(self, *a, **kw):
            pass

        def fail(self, rule, key, where, msg, witness=None, site=None):
            if key.startswith('member-dropped:') and key.split(':', 1)[1] in ('func', 'parsecb', 'validcb', 'validcb2', 'pf', 'freecb'):
                self.hits += 1
                self._chk.fail('R14.8', key, where, msg, witness=witness)
    o = OnlyMembers(chk)
    c16.run(c, o)
    if not o.hits:
        chk.ok('R14.8', 'cfg_dupopt_array', 'records are copied whole (or every callback member is named)', sample=True)
