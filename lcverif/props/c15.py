"""C15 - comments are transparent; annotations stick to the next option."""
import re
from .. import sym, lexmodel, parsermodel as pm, report
from . import c02

EXPLANATION = (
    'Static analysis: the parser transition table is extracted from the LLVM IR of cfg_parse_internal by '
    'path-sensitive constant propagation with the state variable and the token seeded; for every parser state and '
    'every residual path the comment token must lead back to the same state with no diagnostic, no change of any '
    'loop-carried variable other than the pending annotation and no call other than the annotation bookkeeping. The '
    'scanner side (white space rules never return, every comment form returns a non-null trimmed comment token in the '
    'INITIAL start condition) comes from the flex DFA and the action summaries. Annotation attach/print is checked as '
    'must-call facts on the value-stored paths. No code is executed; annotation text is not computed.')

ALLOWED_ON_COMMENT = {'cfg_yylex', 'cfg_handle_deprecated', 'free', 'strdup'}


def token_fetchers(c, chk, rid='R15.11'):
    """R15.11: the automaton deals with the comment token where it fetches tokens, for every state at once (R15.1).  A function
    other than the automaton that fetches tokens itself (a helper that reads the rest of a statement) has to do the same: when the
    token it fetched is a comment, the next thing it does is fetch another one - it neither reports, nor returns, nor takes the
    comment for the token it was waiting for"""
    chk.rule(rid, 'every function that fetches tokens passes over a comment token: on the path where the fetched token is CFGT_COMMENT it fetches again, with no diagnostic and no return')
    n = 0
    bad = None
    for f in c.confuse.funcs.values():
        if f.name == 'cfg_parse_internal' or not any(True for _ in f.calls('cfg_yylex')):
            continue
        ex = sym.Explorer(c.modules, max_visits=2, mod_sets=c.mod_sets, max_paths=20000, once=('cfg_yylex',))
        for p in ex.explore(f, call_results={'cfg_yylex': [('c', pm.TOKENS['COMMENT'])]}):
            if not p.calls('cfg_yylex'):
                continue
            n += 1
            tokv = ('c', pm.TOKENS['COMMENT'])
            handed_on = p.end == 'ret' and not p.calls('cfg_error') and (p.retval == tokv or any(
                e.kind == 'store' and e.val == tokv and sym.root_of(e.addr)[0] == 'p' for e in p.events))
            if handed_on:
                continue          # the fetch of the automaton itself, split off: the comment goes to the automaton (R15.1 judges what it does with it)
            if p.end != 'yield' or p.calls('cfg_error'):
                bad = bad or (f, p)
    if bad is not None:
        f, p = bad
        chk.fail(rid, 'comment-not-passed-over:%s' % f.name, c.where(p.last_ins) if p.last_ins is not None else c.where(f), '%s() fetches a token and, when that token is a comment, %s instead of '
                 'fetching the next one: a comment between two tokens of the statement it reads makes the text fail (or is taken for a token of the statement)'
                 % (f.name, 'reports "%s"' % (p.calls('cfg_error')[0].args[1][1] if p.calls('cfg_error') and p.calls('cfg_error')[0].args[1][0] == 'str' else 'an error') if p.calls('cfg_error') else 'returns'))
    else:
        chk.ok(rid, 'token fetches outside the automaton', '%d paths: none' % n if n == 0 else '%d paths fetch again on a comment' % n, nontrivial=False)


def run(c, chk):
    chk.explanation = EXPLANATION
    chk.rule('R15.1', 'in every parser state the comment token loops back to the same state with no error and no effect '
                      'other than replacing the pending annotation')
    chk.rule('R15.2', 'white-space rules never return a token; inside comments every byte has a rule')
    chk.rule('R15.3', 'every comment form returns the comment token with a non-null value and leaves the scanner in INITIAL')
    chk.rule('R15.4', 'after a value is stored for a scalar / first list element the pending annotation is attached, then released and cleared; '
                      'attach duplicates it and sets the bit the printer tests; the printer writes it before the option')
    chk.trusted = ['flex tables', 'clang/opt IR']
    chk.assumptions = ['annotation text (trimming) is not computed']
    token_fetchers(c, chk)
    model = pm.ParserModel(c)
    lex = c.lex
    dfa = lex.dfa
    trailing_trim(c, chk, 'R15.5')
    from . import c03 as _c03
    _K = {r: lexmodel.classify(lex, r) for r in lex.actions}
    _bad = _c03.c_comment_extent(lex, _K)
    if _bad:
        chk.fail('R15.3', 'comment-extent', 'src/lexer.l', 'the C comment %r is not read as one comment ending at its first "*/": %s - what follows it is swallowed or mis-tokenised' % _bad)
    else:
        chk.ok('R15.3', 'C comment extent', 'every "/*" body "*/" over {*,/,a,blank,newline} up to 3 bytes of body is one comment token ending at the first "*/"', sample=True)
    chk.analysed = {'parser_states': len(model.states), 'lexer_rules': dfa.num_rules}
    COMMENT = pm.TOKENS['COMMENT']

    # ---- R15.1 -----------------------------------------------------------------
    npaths = 0
    for s in model.states:
        trs = model.transitions(s, COMMENT)
        bad = None
        for tr in trs:
            npaths += 1
            if tr.kind != 'next' or tr.next_state != s:
                bad = (tr, 'leaves state %d: %s' % (s, tr.outcome()))
                break
            if tr.errors():
                bad = (tr, 'emits a diagnostic %r' % tr.errors())
                break
            extra = [n for n in tr.call_names() if n not in ALLOWED_ON_COMMENT]
            if extra:
                bad = (tr, 'calls %s' % ', '.join(extra))
                break
            if 'strdup' in tr.call_names() and not tr.assumes('cfg->flags has COMMENTS'):
                bad = (tr, 'keeps the comment although annotation support is off')
                break
            for var in ('opt', 'opttitle', 'ignore', 'num_values'):
                v = tr.next.get(var)
                if v is not None and v != ('p', var):
                    bad = (tr, 'changes the parser variable %s to %s' % (var, sym.render(v)))
                    break
            if bad:
                break
            st = [e for e in tr.events if e.kind == 'store' and sym.object_of(e.addr)[0] != 'alloca']
            if st:
                bad = (tr, 'writes %s' % sym.render(st[0].addr))
                break
        if bad:
            tr, why = bad
            chk.fail('R15.1', 'comment-in-state:%d' % s, c.where(model.fn, tr.path.last_ins.line if tr.path.last_ins is not None else None),
                     'parser state %d is not transparent to a comment token: %s' % (s, why),
                     witness=['path: ' + tr.describe()])
        else:
            chk.ok('R15.1', 'state %d x COMMENT' % s, '%d residual path(s), all loop back to state %d without effect' % (len(trs), s),
                   sample=(s in (0, 2, 4, 13)))
    chk.floor('R15.1 parser states', len(model.states), 15)

    # ---- R15.2 -------------------------------------------------------------------
    for data in (b' ', b'\t', b' \t  ', b'\n'):
        r, ln = dfa.match('INITIAL', data + b'x')
        k = lexmodel.classify(lex, r)
        want = ['skip+line1'] if data == b'\n' else ['skip']
        if ln == len(data) and k == want:
            chk.ok('R15.2', 'white space %r' % data, '%s: %s' % (lex.rule_name(r), k[0]))
        else:
            chk.fail('R15.2', 'ws:%r' % data, 'src/lexer.l:%d' % dfa.rule_line.get(r, 0),
                     'white space %r selects %s over %d byte(s) with effect %s' % (data, lex.rule_name(r), ln, k))
    fr = dfa.firing_rules('comment')
    if dfa.default_rule in fr:
        chk.fail('R15.2', 'comment-hole', 'src/lexer.l:<comment>', 'inside a comment, input %r has no rule' % fr[dfa.default_rule])
    else:
        chk.ok('R15.2', '<comment> totality', 'every byte string inside a comment has a rule (%d rules)' % len(fr))

    # ---- R15.3 -------------------------------------------------------------------
    forms = [b'#', b'# text', b'##', b'//', b'// text', b'////']
    nforms = 0
    for text in forms:
        r, ln = dfa.match('INITIAL', text + b'\nx')
        nforms += 1
        check_comment_return(c, chk, lex, r, ln == len(text), repr(text))
    # C comments: walk the <comment> condition
    for body in (b'*/', b'**/', b' */', b'x*/', b'x\ny */', b'* x */'):
        nforms += 1
        pos = 0
        last = None
        while pos < len(body):
            r, ln = dfa.match('comment', body[pos:])
            pos += ln
            last = r
        check_comment_return(c, chk, lex, last, True, repr(b'/*' + body))
    chk.floor('R15.3 comment forms', nforms, 10)

    # ---- R15.4 -------------------------------------------------------------------
    STR = pm.TOKENS['STR']
    for s, what in ((2, 'value / first list element'), (3, 'bare list value')):
        if s not in model.states:
            continue
        for tr in model.transitions(s, STR):
            if tr.kind != 'next':
                continue
            if not tr.calls('cfg_setopt'):
                continue
            names = tr.call_names()
            cleared = tr.next.get('comment') == sym.C0
            attached = 'cfg_opt_setcomment' in names
            if attached and cleared:
                sc = tr.calls('cfg_opt_setcomment')[0]
                okargs = len(sc.args) == 2 and sc.args[1] == ('p', 'comment')
                freed = [e for e in tr.calls('free') if e.args and e.args[0] == ('p', 'comment')]
                if okargs and (freed or tr.assumes('comment', False)):
                    chk.ok('R15.4', 'state %d (%s): %s' % (s, what, ' && '.join(tr.cond()[-2:])), 'pending annotation attached, released, cleared')
                else:
                    chk.fail('R15.4', 'attach-args:%d' % s, c.where(sc.ins), 'state %d: the pending annotation is not the one attached / not released' % s,
                             witness=[tr.describe()])
            else:
                chk.fail('R15.4', 'no-attach:state%d' % s, c.where(tr.calls('cfg_setopt')[0].ins),
                         'parser state %d (%s) stores a value but %s: a comment written before this option sticks to a later one'
                         % (s, what, 'does not attach the pending annotation' if not attached else 'does not clear the pending annotation'),
                         witness=[tr.describe()])
    pending_survives(c, chk, model)
    if not isinstance(chk, report.SubCheck):
        from . import c11 as _c11
        chk.rule('R15.8', 'the comment getter finds the option like every by-name call does (one resolver: rule R11.1 of C11), also through a multi section')
        sub11 = report.SubCheck(chk, 'R15.8', 'C11', only=('R11.1',))
        _c11.run(c, sub11)
        sub11.done('name resolution')
        # R15.9: a comment leaves nothing behind in the scanner but its token: no flag or counter set while a comment is collected
        # is still there when the next string is read (a mutable global under no reset discipline: rule R8.0 of C08)
        from . import c08 as _c08g
        chk.rule('R15.9', 'a comment leaves no scanner state behind: neither unit has a mutable global outside the reset disciplines (rule R8.0 of C08)')
        _c08g.classified_globals(c, chk, rid='R15.9', rid5='R15.9')
        # R15.10: "annotations stick": an option that is assigned again keeps its annotation when the old values are dropped
        from . import c01 as _c01d
        chk.rule('R15.10', 'dropping the old values of an option under CFGF_RESET keeps its annotation: the mark is cleared after the release, not before (rule R10.4 of C10)')
        _c01d.defaults_dropped_under_reset(c, chk, 'R15.10')
        # R15.12: "the annotation is the comment's text, trimmed": what a comment rule of the scanner hands over is what the
        # reference table says (rule R3.5 of C03: marker skipped, text copied whole, terminated, trimmed at both ends)
        from . import c03 as _c03c
        chk.rule('R15.12', 'the comment token carries the comment text as the reference table has it (rule R3.5 of C03): the annotation is that text, without marker and surrounding blanks')
        sub3 = report.SubCheck(chk, 'R15.12', 'C03', only=('R3.5',))
        _c03c.run(c, sub3)
        sub3.done('comment text')
    marker_only(c, chk)
    attach_function(c, chk)
    printer_emits(c, chk)


def pending_survives(c, chk, model):
    """R15.6: the comment read before an option's name is still pending when the option's value is stored: no step of the
    statement in between (the name - of a declared option or of a key created on the fly -, '=', '+=', '{') releases,
    clears or replaces it.  (Where the name turns out to be undeclared and is skipped, the comment is dropped.)"""
    chk.rule('R15.6', 'from the name of an option (declared, or created on the fly in a key=value section) to the store of its value no parser step releases or replaces the pending annotation')
    nonnull = model.opt_nonnull_states()
    n = 0
    bad = None
    for s, tok, trs in model.table():
        for tr in trs:
            if tr.kind != 'next' or tr.next_state not in nonnull or tr.calls('cfg_opt_setcomment'):
                continue
            if s in nonnull and tr.assumes('opt', False):
                continue
            n += 1
            v = tr.next.get('comment')
            freed = [e for e in tr.calls('free') if e.args and e.args[0] == ('p', 'comment')]
            if (v is not None and v != ('p', 'comment')) or freed:
                bad = bad or (s, tok, tr)
    if bad is not None:
        s, tok, tr = bad
        chk.fail('R15.6', 'pending-dropped:state%d:%s' % (s, pm.TOKNAME.get(tok, tok)), c.where(model.fn, tr.path.last_ins.line if tr.path.last_ins is not None else None),
                 'parser state %d on %s goes on to state %d (an option is being assigned) but has %s the pending annotation (%s): the comment written before this '
                 'option never becomes its annotation' % (s, pm.TOKNAME.get(tok, tok), tr.next_state, 'released' if tr.calls('free') else 'replaced', ' && '.join(tr.cond()[-3:])),
                 witness=[tr.describe()])
    else:
        chk.ok('R15.6', '%d steps inside an option\'s statement' % n, 'the pending annotation is untouched on each', sample=True)
    chk.floor('R15.6 steps inside a statement', n, 10)


def marker_only(c, chk):
    """R15.7: the text of a one-line comment is what follows its marker (a run of '#', or of '/').  The action of such a rule
    may therefore single out, at the start of the text, only the character that opened the comment: a comment whose text
    starts with the OTHER marker character ("#/run/x.sock", "//#rrggbb") keeps that character"""
    chk.rule('R15.7', 'the action of a one-line comment rule compares the text only with the rule\'s own marker character (nothing else is stripped from the start of the annotation)')
    lex = c.lex
    dfa = lex.dfa
    n = 0
    for sample in (b'# x', b'// x'):
        r, ln = dfa.match('INITIAL', sample + b'\nz')
        if r is None or ln != len(sample):
            raise report.Broken('one-line comment %r is not matched by one rule' % sample)
        marker = sample[0]
        others = set()
        where = None

        def yy(v):
            return sym.mentions(v, lambda x: x == ('g', '@cfg_yytext'))
        for ap in lex.actions[r]:
            for cn, t, ins in ap.path.assume:
                if cn[0] != 'icmp':
                    continue
                if yy(cn[2]) and yy(cn[3]) and any(sym.mentions(x, lambda v: v[0] == 'ld' and v[1] == ('ld', ('g', '@cfg_yytext'), (0, 0)) or
                                                                 (v[0] == 'ld' and v[1][0] == 'ld' and v[1][1] == ('g', '@cfg_yytext'))) for x in (cn[2], cn[3])):
                    n += 1          # compared with the first byte of the match: the marker itself
                    continue
                for a, b in ((cn[2], cn[3]), (cn[3], cn[2])):
                    if sym.is_const(b) and yy(a) and 0 < (b[1] & 0xff) < 256 and b[1] != 0:
                        n += 1
                        if (b[1] & 0xff) != marker:
                            others.add(b[1] & 0xff)
                            where = where or ins
            for e in ap.events:
                if e.kind == 'call' and e.name in ('strspn', 'strcspn', 'strchr', 'strpbrk', 'memchr') and e.args and yy(e.args[0]):
                    n += 1
                    s_ = e.args[1] if len(e.args) > 1 else None
                    chars = set(s_[1].encode('latin-1')) if s_ is not None and s_[0] == 'str' else ({s_[1] & 0xff} if s_ is not None and sym.is_const(s_) else {0x100})
                    if chars - {marker}:
                        others |= chars - {marker}
                        where = where or e.ins
        if others:
            chk.fail('R15.7', 'marker-strip:%s' % chr(marker), 'src/lexer.l:%d' % dfa.rule_line.get(r, 0),
                     'the action of %s looks for %s at the start of the comment text, not only for its own marker %r: an annotation that begins with such a '
                     'character loses it (and stays wrong after print and re-parse)' % (lex.rule_name(r), ', '.join(repr(chr(x)) if x < 256 else 'a non-constant set' for x in sorted(others)), chr(marker)))
        else:
            chk.ok('R15.7', lex.rule_name(r), 'text bytes are compared with %r only' % chr(marker), sample=True)
    chk.floor('R15.7 comparisons of comment text with constants', n, 2)


def check_comment_return(c, chk, lex, r, full, what):
    dfa = lex.dfa
    aps = [ap for ap in lex.actions.get(r, []) if ap.returns]
    if not aps or not full:
        chk.fail('R15.3', 'comment-form:%s' % what, 'src/lexer.l:%d' % dfa.rule_line.get(r, 0),
                 'comment %s does not end in a returning action (%s)' % (what, lex.rule_name(r)))
        return
    for ap in aps:
        ok = ap.retval == ('c', pm.TOKENS['COMMENT']) and (ap.final_begin() == 0 or
                                                           (ap.final_begin() is None and set(dfa.rule_conditions().get(r, ())) == {'INITIAL'}))
        nn = c02.yylval_nonnull(ap, lex)
        if not ok:
            chk.fail('R15.3', 'comment-token:%s' % dfa.rule_text.get(r), 'src/lexer.l:%d' % dfa.rule_line.get(r, 0),
                     'comment %s: %s returns %s / start condition %s' % (what, lex.rule_name(r), sym.render(ap.retval), ap.final_begin()),
                     witness=[ap.describe()])
            return
        if not nn[0]:
            chk.fail('R15.3', 'comment-null:%s' % dfa.rule_text.get(r), 'src/lexer.l:%d' % dfa.rule_line.get(r, 0),
                     'comment %s can yield a NULL token value: %s' % (what, nn[1]), witness=[ap.describe()])
            return
    chk.ok('R15.3', 'comment %s' % what, '%s: token CFGT_COMMENT, non-null trimmed value, back in INITIAL on %d path(s)' % (lex.rule_name(r), len(aps)),
           sample=(what in ("b'#'", "b'/**/'")))


def attach_function(c, chk):
    fn = c.need('cfg_opt_setcomment')
    ex = sym.Explorer(c.modules, max_visits=2, mod_sets=c.mod_sets)
    good = 0
    for p in ex.explore(fn):
        if p.end != 'ret' or p.retval != sym.C0:
            continue
        dup = p.calls('strdup')
        st = [e for e in p.stores('comment')]
        fl = [e for e in p.stores('flags')]
        okdup = dup and dup[0].args[0] == ('p', 'comment') and st and st[-1].val == dup[0].res
        from .c01 import flag_store
        okflag = any(flag_store(e, 2048) == 'set' for e in fl)
        if okdup and okflag:
            good += 1
        else:
            chk.fail('R15.4', 'setcomment', c.where(fn), 'cfg_opt_setcomment() success path does not store a private copy and set CFGF_COMMENTS',
                     witness=[repr(e) for e in p.events])
    if good:
        chk.ok('R15.4', 'cfg_opt_setcomment', 'duplicates the text, stores it, sets CFGF_COMMENTS on %d success path(s)' % good)
    else:
        chk.fail('R15.4', 'setcomment-none', c.where(fn), 'cfg_opt_setcomment() has no success path')


def printer_emits(c, chk):
    """the per-option printer writes the annotation first, indented like the option, and unchanged"""
    from .. import outmodel
    fn = c.need('cfg_opt_print_pff_indent')
    ex = sym.Explorer(c.modules, max_visits=3, mod_sets=c.mod_sets, max_paths=200000)
    marks = ('cfg_indent', 'cfg_print_quoted', 'cfg_print_pff_indent', 'cfg_opt_nprint_var', 'indirect:')
    seen = 0
    for p in ex.explore(fn):
        if p.end != 'ret':
            continue
        toks = outmodel.tokens(p.events, calls=marks)
        text, index = outmodel.render(toks)
        a = text.find('/*')
        if a < 0:
            continue
        b = text.find('*/', a + 2)
        if b < 0:
            chk.fail('R15.4', 'printer-unterminated', c.where(toks[index[a]][-1].ins), 'the annotation is opened with "/*" but never closed on this path')
            return
        seen += 1
        inner = [toks[k] for k in sorted(set(index[a + 2:b]))]
        body = text[a + 2:b]
        args = [t for t in inner if t[0] == 'arg']
        other = [t for t in inner if t[0] == 'call']
        from_comment = args and all(sym.mentions(t[2], lambda v: v[0] == 'fld' and v[3] == 'comment') for t in args)
        if other or not from_comment or not re.match(r'^ ?(%s|%c)+ ?$', body):
            t = (other or [x for x in inner if x[0] == 'lit'] or inner)[0]
            chk.fail('R15.4', 'printer-alters-annotation', c.where(t[-1].ins),
                     'between "/*" and "*/" the printer writes %r: something other than the stored annotation goes into the comment, so it does not read back as it was' % body)
            return
        head = text[:a]
        if head != '\x00cfg_indent\x00':
            if head == '':
                chk.fail('R15.4', 'printer-indent', c.where(toks[index[a]][-1].ins), 'the annotation is not indented like its option')
            else:
                chk.fail('R15.4', 'printer-order', c.where(toks[index[a]][-1].ins), 'the annotation is not the first thing written for an option (%r comes first)' % head.replace('\x00', '|'))
            return
        ind = toks[0][2]
        if ind.args[1] != ('p', 'indent'):
            chk.fail('R15.4', 'printer-indent', c.where(ind.ins), 'the annotation is indented by %s instead of the current depth' % sym.render(ind.args[1]))
            return
    if not seen:
        chk.fail('R15.4', 'printer-no-annotation', c.where(fn), 'the per-option printer never writes the annotation')
        return
    chk.ok('R15.4', 'printer', 'on all %d paths that write it the annotation comes first, after cfg_indent(fp, indent), as "/*" + the stored text + "*/"' % seen)



def _isspace_of(cn):
    """(character value) if cn is the test  (*__ctype_b_loc())[ch] & _ISspace  else None"""
    if cn[0] != 'icmp' or cn[3] != sym.C0:
        return None
    a = cn[2]
    if not (a[0] == 'bin' and a[1] == 'and' and sym.is_const(a[3]) and a[3][1] == 8192):
        return None
    t = a[2]
    while t[0] == 'bin' and t[1] in ('zext', 'sext', 'trunc'):
        t = t[2]
    if t[0] == 'ld' and t[1][0] == 'idx' and sym.mentions(t[1][1], lambda v: v[0] == 'call' and v[1] == '__ctype_b_loc'):
        ch = t[1][2]
        while ch[0] == 'bin' and ch[1] in ('zext', 'sext', 'trunc'):
            ch = ch[2]
        return ch
    return None


def trailing_trim(c, chk, rid):
    """the comment text handed to the parser does not end in white space: where trim_whitespace() stores the terminator,
    the byte in front of it was tested and found not to be white space (or nothing is left to trim).  Otherwise every
    print/parse cycle of an annotation ("/* text */") adds a blank."""
    from .. import bufsize
    chk.rule(rid, 'comment text is cut right after its last non-blank byte: the terminator goes where the byte before it was tested non-blank')
    f = c.lexer.funcs.get('trim_whitespace')
    if f is None:
        raise report.Broken('trim_whitespace() not found')
    ex = sym.Explorer([c.lexer], max_visits=3, mod_sets=c.lex.mod_sets)
    n = 0
    bad = None
    for p in ex.explore(f):
        if p.end != 'ret':
            continue
        cuts = [e for e in p.events if e.kind == 'store' and e.val == sym.C0 and e.addr[0] == 'idx' and e.addr[1] == ('p', 'str')]
        if not cuts:
            continue
        n += 1
        K = bufsize.lin(cuts[-1].addr[2])
        if K is None:
            bad = bad or (p, 'at a position the analysis cannot express')
            continue
        ok = False
        nonspace = set()
        nonzero = set()
        for cn, t, _ in p.assume:
            ch = _isspace_of(cn)
            if ch is not None and ch[0] == 'ld' and ch[1][0] == 'idx' and ch[1][1] == ('p', 'str'):
                truth = ((cn[1] == 'ne') == t)
                x = bufsize.lin(ch[1][2])
                if x is not None and not truth:
                    nonspace.add(repr(x))
            if cn[0] == 'icmp' and cn[1] in ('eq', 'ne') and cn[3] == sym.C0 and cn[2][0] == 'ld' and cn[2][1][0] == 'idx' and cn[2][1][1] == ('p', 'str'):
                if (cn[1] == 'ne') == t:
                    x = bufsize.lin(cn[2][1][2])
                    if x is not None:
                        nonzero.add(repr(x))
            # nothing left to trim: the loop bound (position > 1) failed for this position
            if cn[0] == 'icmp' and cn[1] in ('ugt', 'sgt') and cn[3] == ('c', 1) and not t:
                x = bufsize.lin(cn[2])
                if x is not None and x.eq(K):
                    ok = True
        if repr(K.add(bufsize.Lin(-1))) in nonspace:
            ok = True
        if repr(K) in nonspace and repr(K) in nonzero:
            ok = True         # a non-blank character right at the cut (the scanner never passes such a length)
        if not ok:
            bad = bad or (p, 'although the byte in front of that position was not shown to be non-blank')
    if bad:
        p, why = bad
        chk.fail(rid, 'trailing-blanks', c.where(f), 'trim_whitespace() ends the text %s: trailing white space of a comment survives, and an annotation '
                 'grows by a blank every time it is printed ("/* text */") and read back' % why, witness=['path condition: ' + ' && '.join(
                     ('' if t else '!') + sym.render(cn)[:80] for cn, t, _ in p.assume[-4:])])
    elif n:
        chk.ok(rid, 'trim_whitespace: %d cutting paths' % n, 'the terminator is stored right after a byte tested non-blank, or at the minimum length', sample=True)
    chk.floor('%s cutting paths of trim_whitespace' % rid, n, 2)
