"""C16 - a context owns a private copy of its schema and shares nothing."""
import re

from .. import sym, report, ir, cfg as _cfg
from ..summaries import store_key

EXPLANATION = (
    'Static analysis: deep-copy completeness as a three-way agreement, all three sides derived from the code. L = the '
    'pointer-typed members of the option record (taken from the IR struct layout and DWARF member names, recursively '
    'through the default-value record) minus function pointers, the user-storage pointer and the value vector; D = the '
    'members the duplicator clears in the memcpy\'d copy and then fills with strdup()/a recursive duplicate of the '
    'SAME member of the source; F = the members the release function frees. L, D and F must be equal. Every store to a '
    'context\'s option array must come from the duplicator (or the reallocation of itself), every store to its name, '
    'title and file name from a fresh string or an ownership transfer, and the caller\'s declaration array must not '
    'escape from the constructor.')

SHARED_BY_DESIGN = {'func', 'parsecb', 'validcb', 'validcb2', 'pf', 'freecb',   # function pointers
                    'simple_value',                                                # user storage
                    'values'}                                                      # empty in a declaration, filled per instance


def pointer_members(mod, sty, prefix=''):
    out = {}
    ftys = mod.structs.get(sty)
    names = mod.struct_fields.get(sty)
    if ftys is None or names is None:
        raise report.Broken('layout of %s not available' % sty)
    for ty, nm in zip(ftys, names):
        ty = ty.strip()
        if ty.startswith('%struct.') and not ty.endswith('*'):
            out.update(pointer_members(mod, ty, prefix + nm + '.'))
        elif ty.endswith('*'):
            out[prefix + nm] = ty
    return out


def run(c, chk):
    chk.explanation = EXPLANATION
    chk.rule('R16.1', 'pointer members of the option record = members the duplicator deep-copies = members the release function frees')
    chk.rule('R16.2', 'every store to a context\'s option array / name / title / file name takes a private copy or an ownership transfer')
    chk.rule('R16.3', 'the caller\'s declaration array does not escape from the constructor or the duplicator')
    chk.trusted = ['clang/opt IR + DWARF member names', 'the shared-by-design member list (function pointers, user storage, value vector)']
    chk.assumptions = ['independence under interleavings follows from R16.2 and C08 R8.5 and is not separately decided']
    value_origins.ctx = c
    mod = c.confuse
    allptr = pointer_members(mod, '%struct.cfg_opt_t')
    L = set()
    for nm, ty in allptr.items():
        base = nm.split('.')[0]
        if base in SHARED_BY_DESIGN:
            continue
        if '(' in ty:          # function pointer
            continue
        L.add(nm.split('.')[-1] if nm.startswith('def.') else nm)
    L = set('def.' + x if ('def.' + x) in allptr else x for x in L)
    chk.analysed = {'pointer_members': len(allptr), 'owned_members': sorted(L)}

    ex = sym.Explorer(c.modules, max_visits=2, mod_sets=c.mod_sets, max_paths=50000)
    dup = c.need('cfg_dupopt_array')
    # per success path and per copied entry: after the raw copy of the caller's record, the LAST value stored into each
    # owned member must be NULL or a fresh duplicate of the same member of the source
    verdict = {}          # member -> set of problems ('' = fine)
    crossed = {}
    npaths = 0
    for p in ex.explore(dup):
        if p.end != 'ret' or p.retval in (sym.C0, None):
            continue
        npaths += 1
        raw = {}              # entry (or whole array object) -> event index of the raw copy
        last = {}             # (entry, member) -> (index, value)
        for i, e in enumerate(p.events):
            if e.kind == 'call' and (e.name or '').startswith('llvm.memcpy') and sym.root_of(e.args[0])[0] == 'call' and sym.root_of(e.args[1])[0] == 'p' \
                    and e.args[0][0] != 'fld':
                raw[e.args[0]] = i
            elif e.kind == 'store' and e.addr[0] == 'fld' and sym.root_of(e.addr)[0] == 'call':
                ent = e.addr
                while ent[0] == 'fld':
                    ent = ent[1]
                last[(ent, member_name(e.addr))] = (i, e.val)
        entries = set(k[0] for k in last) | set(k for k in raw if k[0] == 'idx')
        for ent in entries:
            ri = raw.get(ent, raw.get(sym.root_of(ent), raw.get(sym.object_of(ent))))
            if ri is None:
                continue          # built from zeroed memory only: nothing of the caller's is in it
            for m in L:
                got = last.get((ent, m))
                if got is None or got[0] < ri:
                    verdict.setdefault(m, set()).add('is not given a private value after the caller\'s record was copied in')
                    continue
                v = got[1]
                if v == sym.C0:
                    # NULL in the copy is right only where the caller's record has NULL (an empty string is a value, too)
                    from .. import failpaths as _fp
                    srcnull = False
                    for cn, t, _ in p.assume:
                        na = _fp.is_null_assumption(cn, t)
                        if not na or not na[1]:
                            continue
                        x = na[0]
                        if x[0] == 'ld' and x[1][0] == 'fld' and sym.root_of(x[1])[0] == 'p' and member_name(x[1]) == m:
                            se = x[1]
                            while se[0] == 'fld':
                                se = se[1]
                            if se[0] != 'idx' or ent[0] != 'idx' or sym.norm(se[2]) == sym.norm(ent[2]):
                                srcnull = True
                    verdict.setdefault(m, set()).add('' if srcnull else 'is left NULL on a path where the same member of the caller\'s record was not shown to be NULL '
                                                     '(a value such as the empty string "" is lost: an option declared with the default "" reads back as NULL)')
                    continue
                ev = next((x for x in p.events if x.kind == 'call' and x.res == v), None)
                if ev is None or ev.name not in ('strdup', 'cfg_dupopt_array') and ev.name not in c.fresh_returning:
                    verdict.setdefault(m, set()).add('ends up as %s, not a fresh duplicate' % sym.render(v))
                    continue
                src = ev.args[0]
                srcnm = member_name(src[1]) if src[0] == 'ld' and src[1][0] == 'fld' else None
                if srcnm != m:
                    crossed.setdefault(m, set()).add(srcnm)
                    verdict.setdefault(m, set()).add('is filled from %s of the source instead of the same member' % srcnm)
                else:
                    verdict.setdefault(m, set()).add('')
    # a record built member by member (no raw copy): every member that is not an owned pointer travels verbatim
    dropped = set()
    allm = all_members(mod, '%struct.cfg_opt_t')
    for p in ex.explore(dup):
        if p.end != 'ret' or p.retval in (sym.C0, None):
            continue
        rawc = [e for e in p.events if e.kind == 'call' and (e.name or '').startswith('llvm.memcpy') and sym.root_of(e.args[0])[0] == 'call' and sym.root_of(e.args[1])[0] == 'p']
        if any(e.args[0][0] != 'fld' for e in rawc):
            continue          # whole records are copied raw: nothing can be left out
        byent = {}
        for e in rawc:
            ent = e.args[0]
            while ent[0] == 'fld':
                ent = ent[1]
            byent.setdefault(ent, set()).add(full_member_name(e.args[0]))
        for e in p.events:
            if e.kind == 'store' and e.addr[0] == 'fld' and sym.root_of(e.addr)[0] == 'call':
                ent = e.addr
                while ent[0] == 'fld':
                    ent = ent[1]
                byent.setdefault(ent, set()).add(full_member_name(e.addr))
        for ent, got in byent.items():
            if len(got) < 3:
                continue          # the end marker / a cleared slot
            for m in allm:
                if m in ('nvalues', 'values'):
                    continue      # per-instance state, empty in a declaration
                if m in L or any(m == o or m.startswith(o + '.') or o.startswith(m + '.') for o in got):
                    continue
                dropped.add(m)
    for m in sorted(dropped):
        chk.fail('R16.1', 'member-dropped:%s' % m, c.where(dup), 'the duplicator builds the copy member by member and leaves out "%s": every context and every section instance '
                 'made from the copy has lost what the declaration said there (e.g. a callback registered on the template)' % m)
    D = set(m for m, v in verdict.items() if v == {''} or v == {'', ''})
    filled = dict((m, {m}) for m in D)
    cleared = set(D)
    problems = dict((m, sorted(x for x in v if x)) for m, v in verdict.items() if any(v - {''}))
    fr = c.need('cfg_free_opt_array')
    F = set()
    for p in ex.explore(fr):
        if p.end != 'ret':
            continue
        for e in p.events:
            if e.kind == 'call' and e.name in ('free', 'cfg_free_opt_array') and e.args:
                a = e.args[0]
                if a[0] == 'ld' and a[1][0] == 'fld':
                    F.add(member_name(a[1]))
    for nm in sorted(L | D | F):
        inL, inD, inF = nm in L, nm in D, nm in F
        if inL and inD and inF:
            chk.ok('R16.1', 'member %s' % nm, 'owned pointer: after the raw copy its final value is NULL or a duplicate of the same member (all %d paths); released by cfg_free_opt_array()' % npaths, sample=True)
        elif inL and not inD:
            why = '; '.join(problems.get(nm, [])) or 'is not deep-copied by cfg_dupopt_array()'
            chk.fail('R16.1', 'not-duplicated:%s' % nm, c.where(dup), 'pointer member "%s" of the option record %s%s' % (nm, why, '' if 'left NULL' in why else ': the context keeps pointing into the caller\'s declaration'))
        elif inL and not inF:
            chk.fail('R16.1', 'not-freed:%s' % nm, c.where(fr), 'pointer member "%s" is duplicated for every context but never released by cfg_free_opt_array()' % nm)
        elif not inL:
            chk.fail('R16.1', 'unexpected-owner:%s' % nm, c.where(dup), 'member "%s" is duplicated/released but is not an owned pointer member of the record' % nm)
    chk.floor('R16.1 owned pointer members', len(L), 5)
    whole_array_copy_protected(c, chk, 'R16.1', L)

    # ---- R16.2 ---------------------------------------------------------------------------
    want = {'opts': {'cfg_dupopt_array', 'reallocarray'},
            'name': {'strdup'}, 'title': {'strdup'},
            'filename': {'strdup', 'cfg_searchpath', 'cfg_tilde_expand', 'include-stack', 'null'}}
    nst = 0
    for m in c.modules:
        for f in m.funcs.values():
            for ins in f.instrs():
                if ins.op != 'store' or ins.ops[1].kind != 'reg':
                    continue
                g = f.defs.get(ins.ops[1].name)
                if g is None or g.op != 'getelementptr' or g.srcty.strip() != '%struct.cfg_t' or len(g.ops) < 3 or g.ops[2].kind != 'int':
                    continue
                fld = m.field_name('%struct.cfg_t', g.ops[2].ival)
                if fld not in want:
                    continue
                nst += 1
                org = value_origins(f, ins.ops[0], set())
                ok_src = set(want[fld])
                if fld != 'opts':
                    ok_src |= set(c.fresh_returning)
                bad = sorted(o for o in org if o not in ok_src and o != 'null')
                if bad:
                    chk.fail('R16.2', 'shared-%s:%s' % (fld, f.name), c.where(ins),
                             '%s() stores %s into a context\'s "%s": the context does not own a private copy' % (f.name, ', '.join(bad), fld))
                else:
                    chk.ok('R16.2', '%s: cfg->%s' % (c.where(ins), fld), 'value from %s' % ', '.join(sorted(org)), sample=(fld == 'opts'))
    chk.floor('R16.2 stores to opts/name/title/filename', nst, 10)

    # ---- R16.4: what is registered later goes to the template every new instance is copied from ----------
    from . import c08, c14
    chk.rule('R16.4', 'a schema change made by path (callback registration) reaches the section template that later instances are copied from, not the private copy of one instance')
    c14.walker_template(c, c08.chk_proxy(chk, {'R14.7': 'R16.4'}), ex)

    defaults_for_every_context(c, chk, ex)
    chk.rule('R16.6', 'a context\'s flag word (inherited wholesale by every section created in it) is written only while the context is being built')
    flag_words(c, chk, rid_ctx='R16.6')
    from . import c02 as _c02
    _c02.table_growth(c, chk, 'R16.8')
    # R16.12: the private copy is reallocated and freed by its context: nothing else holds a pointer into it
    from . import c07 as _c07t
    _c07t.table_pointers_not_kept(c, chk, rid='R16.12')
    if not isinstance(chk, report.SubCheck):
        # R16.13: what a context shares with its sections by reference (the search path) is not released with one of them
        from . import c08 as _c08q, c19 as _c19q
        chk.rule('R16.13', 'replacing or removing a section instance never releases the search path the instances share with their root (rule R7.3 of C07)')
        _c07t.searchpath_rule(c, _c08q.chk_proxy(chk, {'R7.3': 'R16.13'}), sym.Explorer(c.modules, max_visits=2, mod_sets=c.mod_sets, max_paths=200000))
        # R16.14: a callback set on one instance is invisible in its siblings: the print filter in force for an instance is its own or
        # the inherited one, never a sibling's
        chk.rule('R16.14', 'the print filter applied in an instance is its own, else the inherited one (rule R19.2 of C19): a filter set on one instance does not reach the next')
        sub19 = report.SubCheck(chk, 'R16.14', 'C19', only=('R19.2',))
        _c19q.run(c, sub19)
        sub19.done('print filters')
    # R16.11: the scanner is shared by all contexts: where one leaves it must not matter to the next
    if not isinstance(chk, report.SubCheck):
        chk.rule('R16.11', 'every scan begins in the initial start condition (rule R8.1 of C08): a context is not read as the continuation of a comment another context ended in')
        from . import c08 as _c08s
        sub8 = report.SubCheck(chk, 'R16.11', 'C08', only=('R8.1',))
        _c08s.run(c, sub8)
        sub8.done('scanner start state')
    # R16.10: "every section instance created later still gets the declared sub-options and defaults"
    from . import c01 as _c01, c08 as _c08
    _c01.section_store(c, _c08.chk_proxy(chk, {'R1.11': 'R16.10'}), sym.Explorer(c.modules, max_visits=2, mod_sets=c.mod_sets, max_paths=60000))
    # R16.9: instances disappear only when the application removes them
    chk.rule('R16.9', 'sections are removed only through the removal calls of the API: neither the parser nor a setter takes an instance out of an option')
    from .. import cfg as _cfgm
    removers = {'cfg_opt_rmnsec', 'cfg_rmnsec', 'cfg_opt_rmtsec', 'cfg_rmtsec', 'cfg_rmsec'}
    callers = sorted(set(o for f in c.all_funcs() for call in f.calls() if call.callee_name() in removers for o in c.owners(f.name)) - removers)
    if callers:
        chk.fail('R16.9', 'remover-called:%s' % ','.join(callers), c.where(c.func(callers[0])), '%s() removes a section instance: which sibling instances exist is no longer decided by '
                 'the application alone (e.g. the parser taking "the last" instance out hits an unrelated sibling when a title was redefined)' % ', '.join(callers))
    else:
        chk.ok('R16.9', 'callers of the section removers', 'only the removal API itself')

    # ---- R16.3 ---------------------------------------------------------------------------
    for fname, pname, allowed in (('cfg_init', 'opts', {'cfg_dupopt_array'}),
                                  ('cfg_dupopt_array', 'opts', {'cfg_numopts', 'llvm.memcpy.p0i8.p0i8.i64', 'strdup', 'cfg_dupopt_array', 'llvm.dbg.value'})):
        f = c.need(fname)
        preg = next((r for r, n in f.param_names.items() if n == pname), None)
        if preg is None:
            raise report.Broken('%s(): parameter %s not found' % (fname, pname))
        esc = escapes(f, preg, allowed)
        if esc:
            chk.fail('R16.3', 'decl-escapes:%s' % fname, c.where(esc), '%s() lets the caller\'s declaration array escape (stored or passed on)' % fname)
        else:
            chk.ok('R16.3', '%s(%s)' % (fname, pname), 'only read and handed to %s' % sorted(x for x in allowed if not x.startswith('llvm')))


def all_members(mod, sty, prefix=''):
    out = []
    ftys = mod.structs.get(sty)
    names = mod.struct_fields.get(sty)
    if ftys is None or names is None:
        return out
    for ty, nm in zip(ftys, names):
        ty = ty.strip()
        if (ty.startswith('%struct.') or ty.startswith('%union.')) and not ty.endswith('*') and ty.startswith('%struct.'):
            out.extend(all_members(mod, ty, prefix + nm + '.'))
        else:
            out.append(prefix + nm)
    return out


def full_member_name(addr):
    parts = []
    a = addr
    while a[0] == 'fld':
        parts.append(a[3])
        a = a[1]
    parts.reverse()
    return '.'.join(parts)


def member_name(addr):
    """'name' / 'def.parsed' for a field address"""
    parts = []
    a = addr
    while a[0] == 'fld':
        parts.append(a[3])
        a = a[1]
        if a[0] != 'fld':
            break
    parts.reverse()
    if len(parts) >= 2 and parts[-2] == 'def':
        return 'def.' + parts[-1]
    return parts[-1]


def value_origins(f, v, seen):
    if v.kind == 'null':
        return {'null'}
    if v.kind != 'reg':
        return {v.kind}
    if v.name in seen:
        return set()
    seen = seen | {v.name}
    d = f.defs.get(v.name)
    if d is None:
        ctx_ = getattr(value_origins, 'ctx', None)
        if ctx_ is not None and f.name in ctx_.unknown_funcs:
            # a helper introduced by refactoring: the value is whatever its callers pass
            k = [p_.name for p_ in f.params].index(v.name)
            out = set()
            for g in ctx_.all_funcs():
                for call in g.calls(f.name):
                    if k < len(call.args):
                        out |= value_origins(g, call.args[k], set())
            if out:
                return out
        return {'parameter %s' % f.param_names.get(v.name, v.name)}
    if d.op == 'call':
        ctx_ = getattr(value_origins, 'ctx', None)
        n_ = d.callee_name()
        if ctx_ is not None and n_ in ctx_.unknown_funcs and ctx_.func(n_) is not None and len(seen) < 12:
            # a helper introduced by refactoring: the value is whatever it returns
            h = ctx_.func(n_)
            out = set()
            for r in h.instrs():
                if r.op == 'ret' and r.ops:
                    out |= value_origins(h, r.ops[0], set())
            if out:
                return out
        return {n_ or 'indirect call'}
    if d.op == 'bitcast':
        return value_origins(f, d.ops[0], seen)
    if d.op == 'phi':
        out = set()
        for x in d.ops:
            out |= value_origins(f, x, seen)
        return out
    if d.op == 'select':
        return value_origins(f, d.ops[1], seen) | value_origins(f, d.ops[2], seen)
    if d.op == 'load':
        a = d.ops[0]
        b = a
        if a.kind == 'cexpr':
            b = a.strip_casts()
        if b.kind == 'global' and b.name == '@cfg_include_stack':
            return {'include-stack'}
        if a.kind == 'reg':
            g = f.defs.get(a.name)
            # a member of a local record (an out-parameter block filled by a helper): whatever was stored into that member
            if g is not None and g.op == 'getelementptr' and g.ops[0].kind == 'reg' and len(g.ops) == 3 and g.ops[2].kind == 'int':
                rec = f.defs.get(g.ops[0].name)
                if rec is not None and rec.op == 'alloca':
                    vals = _member_stores(f, g.ops[0].name, g.srcty.strip(), g.ops[2].ival, 0)
                    if vals:
                        out = set()
                        for f2, v2 in vals:
                            out |= value_origins(f2, v2, seen if f2 is f else set())
                        return out
            while g is not None and g.op in ('getelementptr', 'bitcast'):
                base = g.ops[0]
                bb = base.strip_casts() if base.kind == 'cexpr' else base
                if bb.kind == 'global' and bb.name == '@cfg_include_stack':
                    return {'include-stack'}
                g = f.defs.get(base.name) if base.kind == 'reg' else None
            # the entry was handed out by an accessor of the stack (a helper that returns the address of an entry)
            if g is not None and g.op == 'call' and g.callee_name() and _returns_stack_entry(f.module.funcs.get(g.callee_name()), 0):
                return {'include-stack'}
        return {'a pointer loaded from %s' % describe(f, a)}
    return {d.op}


def _returns_stack_entry(h, depth):
    """does the helper h return the address of an entry of the include stack (on every path that returns a pointer at all)?"""
    if h is None or depth > 3:
        return False
    seen_entry = False
    for r in h.instrs():
        if r.op != 'ret' or not r.ops:
            continue
        work = [r.ops[0]]
        done = set()
        while work:
            v = work.pop()
            if v.kind in ('null',) or (v.kind == 'int' and v.ival == 0):
                continue
            if v.kind == 'cexpr':
                b = v.strip_casts()
                if b.kind == 'global' and b.name == '@cfg_include_stack':
                    seen_entry = True
                    continue
                return False
            if v.kind == 'global':
                if v.name == '@cfg_include_stack':
                    seen_entry = True
                    continue
                return False
            if v.kind != 'reg' or v.name in done:
                if v.kind != 'reg':
                    return False
                continue
            done.add(v.name)
            d = h.defs.get(v.name)
            if d is None:
                return False
            if d.op in ('getelementptr', 'bitcast'):
                work.append(d.ops[0])
            elif d.op == 'phi':
                work.extend(x for x, _ in d.incoming) if d.incoming else work.extend(d.ops)
            elif d.op == 'select':
                work.extend(d.ops[1:3])
            elif d.op == 'call' and d.callee_name() and _returns_stack_entry(h.module.funcs.get(d.callee_name()), depth + 1):
                seen_entry = True
            else:
                return False
    return seen_entry


def _member_stores(f, reg, sty, idx, depth):
    """[(function, value operand)] of every store into member idx of the record reg points to: in f and in the functions
    of the unit that f hands the record to"""
    out = []
    if depth > 3:
        return out
    for ins in f.instrs():
        if ins.op == 'store' and ins.ops[1].kind == 'reg':
            g = f.defs.get(ins.ops[1].name)
            if g is not None and g.op == 'getelementptr' and g.ops[0].kind == 'reg' and g.ops[0].name == reg and len(g.ops) == 3 \
                    and g.ops[2].kind == 'int' and g.ops[2].ival == idx and g.srcty.strip() == sty:
                out.append((f, ins.ops[0]))
        if ins.op == 'call' and ins.callee_name():
            h = f.module.funcs.get(ins.callee_name())
            if h is None:
                continue
            for k, a in enumerate(ins.args):
                if a.kind == 'reg' and a.name == reg and k < len(h.params):
                    out.extend(_member_stores(h, h.params[k].name, sty, idx, depth + 1))
    return out


def describe(f, a):
    from .c02 import describe_arg
    return describe_arg(f, a)


def escapes(f, reg, allowed_callees, _stack=()):
    """first instruction through which the pointer in `reg` (or a pointer derived by offset) escapes"""
    work = [reg]
    seen = set()
    while work:
        r = work.pop()
        if r in seen:
            continue
        seen.add(r)
        for ins in f.instrs():
            uses = [o for o in (ins.ops or []) if o.kind == 'reg' and o.name == r]
            if not uses:
                continue
            if ins.op == 'store':
                if ins.ops[0].kind == 'reg' and ins.ops[0].name == r:
                    return ins
            elif ins.op == 'call':
                if ins.is_dbg():
                    continue
                cn_ = ins.callee_name() or '?'
                ctx_ = getattr(value_origins, 'ctx', None)
                if ctx_ is not None and cn_ in ctx_.unknown_funcs and cn_ not in _stack:
                    # a helper introduced by refactoring: follow the pointer into it
                    g = ctx_.func(cn_)
                    inner = None
                    for k, a in enumerate(ins.args):
                        if a.kind == 'reg' and a.name == r and k < len(g.params):
                            inner = inner or escapes(g, g.params[k].name, allowed_callees, _stack + (cn_,))
                    if inner is not None:
                        return inner
                    continue
                if cn_ not in allowed_callees:
                    return ins
            elif ins.op == 'ret':
                return ins
            elif ins.op in ('getelementptr', 'bitcast', 'phi', 'select'):
                if ins.res:
                    # a GEP into the array yields the address of an element: loads from it are reads
                    work.append(ins.res)
            elif ins.op in ('load', 'icmp'):
                pass
    return None


def owned_members(c):
    allptr = pointer_members(c.confuse, '%struct.cfg_opt_t')
    L = set()
    for nm, ty in allptr.items():
        base = nm.split('.')[0]
        if base in SHARED_BY_DESIGN or '(' in ty:
            continue
        L.add(nm.split('.')[-1] if nm.startswith('def.') else nm)
    return set('def.' + x if ('def.' + x) in allptr else x for x in L)


def whole_array_copy_protected(c, chk, rid, L):
    """If the duplicator starts from a raw copy of the caller's whole array, every owned pointer member of EVERY entry
    must have been cleared before the first allocation that can fail: the failure path releases the copy, and an entry
    that still holds the caller's pointers would have those freed."""
    dup = c.need('cfg_dupopt_array')
    for f in c.deep_funcs(dup):
        raw = [x for x in f.calls() if (x.callee_name() or '').startswith('llvm.memcpy') and x.args[2].kind != 'int']
        if not raw:
            continue
        dom = _cfg.dominators(f)
        loops = _cfg.natural_loops(f)
        # loops that clear members of the copy, with the members they clear
        clearing = {}
        for h, body in loops.items():
            flds = set()
            for b in body:
                for ins in f.blocks[b].instrs:
                    if ins.op == 'store' and ins.ops[0].kind == 'null':
                        k = store_key(f, ins)
                        if k and not k.startswith('local:') and k not in ('[]', '*'):
                            flds.add(k)
            if flds:
                clearing[h] = (body, flds)
        fallible = [x for x in f.calls() if (x.callee_name() or '') in ('strdup', 'strndup', 'malloc', 'calloc', 'cfg_dupopt_array')
                    or ((x.callee_name() or '') in c.unknown_funcs and any((y.callee_name() or '') in ('strdup', 'strndup', 'malloc', 'calloc', 'realloc', 'cfg_dupopt_array')
                                                                      for y in c.deep_calls(c.func(x.callee_name()))))]
        fallible = [x for x in fallible if any(raw_.block.label in dom.get(x.block.label, ()) for raw_ in raw) and x.block is not raw[0].block
                    or (x.block is raw[0].block and x.idx > raw[0].idx)]
        short = set(m.split('.')[-1] for m in L)
        for x in fallible:
            ok = False
            for h, (body, flds) in clearing.items():
                exits = set(s_ for b in body for s_ in f.blocks[b].succs if s_ not in body)
                if x.block.label not in body and any(e in dom.get(x.block.label, ()) or e == x.block.label for e in exits) and short <= flds:
                    ok = True
            if not ok:
                chk.fail(rid, 'raw-copy-unprotected:%s' % f.name, c.where(x),
                         '%s() starts from a raw copy of the caller\'s array and reaches %s(), which can fail, before a loop has cleared %s in every entry: '
                         'the failure path releases the copy and with it the caller\'s own strings of the entries not yet reached'
                         % (f.name, x.callee_name(), sorted(short)))
                return
        chk.ok(rid, '%s: raw array copy' % f.name, 'a loop clearing %s of every entry is left before the first allocation that can fail' % sorted(short), sample=True)


def defaults_for_every_context(c, chk, ex):
    """R16.5: every context - also every section instance created later, whatever its flags - gets the defaults of its
    own option table: cfg_init_defaults() returns only after its walk over the table has reached the end marker"""
    chk.rule('R16.5', 'cfg_init_defaults() leaves only when its walk over the option table reached the end (no early exit that skips the defaults of some contexts)')
    fn = c.need('cfg_init_defaults')
    n = 0
    bad = None
    for p in ex.explore(fn):
        if p.end != 'ret':
            continue
        n += 1
        ended = False
        for cn, t, _ in p.assume:
            na = None
            if cn[0] == 'icmp' and cn[1] in ('eq', 'ne') and cn[3] == sym.C0:
                isnull = (cn[1] == 'eq') == t
                v = cn[2]
                # cfg->opts == NULL, or the name of the entry the walk stands on is NULL: the end marker
                if isnull and v[0] == 'ld' and v[1][0] == 'fld' and v[1][3] == 'opts' and v[1][1] == ('p', 'cfg'):
                    ended = True
                if isnull and v[0] == 'ld' and v[1][0] == 'fld' and v[1][3] == 'name' and sym.mentions(v[1][1], lambda x: x[0] == 'fld' and x[3] == 'opts'):
                    ended = True
        if not ended:
            bad = bad or p
    if bad is not None:
        conds = ' && '.join(('' if t else '!') + sym.render(cn) for cn, t, _ in bad.assume[-3:])
        chk.fail('R16.5', 'defaults-skipped', c.where(fn), 'cfg_init_defaults() can return without having walked the option table to its end (%s): '
                 'contexts and section instances for which that holds never get their declared defaults and pre-created sections' % (conds or 'unconditionally'))
    elif n:
        chk.ok('R16.5', 'cfg_init_defaults: %d returning paths' % n, 'each ends at the end marker of the table (or the table is NULL)', sample=True)
    chk.floor('R16.5 returning paths of cfg_init_defaults', n, 2)


# the bits of an option's flag word that record what happened to the option (everything else in the word is declaration)
OPTION_STATE_BITS = {
    64: 'CFGF_RESET (the next value replaces the current ones)',
    128: 'CFGF_DEFINIT (the defaults of this section option were applied)',
    4096: 'CFGF_MODIFIED (changed from its default)',
    2048: 'CFGF_COMMENTS (the option carries an annotation)',
}
ALLOC_CALLS = ('calloc', 'malloc', 'realloc', 'reallocarray')


def _flag_stores(c):
    """[(function, store instr, struct name, kind, mask, base operand)] for every store to a 'flags' member"""
    out = []
    for mod in c.modules:
        for f in mod.funcs.values():
            for ins in f.instrs():
                if ins.op != 'store' or ins.ops[1].kind != 'reg':
                    continue
                g = f.defs.get(ins.ops[1].name)
                if g is None or g.op != 'getelementptr' or not g.srcty.strip().startswith('%struct.') or len(g.ops) < 3 or g.ops[-1].kind != 'int':
                    continue
                sty = g.srcty.strip()
                if sty not in ('%struct.cfg_opt_t', '%struct.cfg_t') or len(g.ops) != 3 or mod.field_name(sty, g.ops[2].ival) != 'flags':
                    continue
                ALL = 0xffffffff

                def same_word(x):
                    # a load of the very word that is stored to
                    dx = f.defs.get(x.name) if x.kind == 'reg' else None
                    if dx is None or dx.op != 'load' or dx.ops[0].kind != 'reg':
                        return False
                    gx = f.defs.get(dx.ops[0].name)
                    return gx is not None and gx.op == 'getelementptr' and gx.srcty.strip() == sty and len(gx.ops) == 3 and gx.ops[2].kind == 'int' \
                        and gx.ops[2].ival == g.ops[2].ival and gx.ops[0].kind == g.ops[0].kind and getattr(gx.ops[0], 'name', None) == getattr(g.ops[0], 'name', None)

                def constval(x, depth=0):
                    if x.kind == 'int':
                        return x.ival & ALL
                    dx = f.defs.get(x.name) if x.kind == 'reg' else None
                    if dx is None or depth > 6 or dx.op not in ('and', 'or', 'xor') or len(dx.ops) != 2:
                        return None
                    a_, b_ = constval(dx.ops[0], depth + 1), constval(dx.ops[1], depth + 1)
                    if a_ is None or b_ is None:
                        return None
                    return {'and': a_ & b_, 'or': a_ | b_, 'xor': a_ ^ b_}[dx.op] & ALL

                def maybits(x, depth=0):
                    # bits that can be set in a value that does not come from the word itself
                    if constval(x) is not None:
                        return constval(x)
                    dx = f.defs.get(x.name) if x.kind == 'reg' else None
                    if dx is None or depth > 6:
                        return ALL
                    if dx.op == 'and':
                        return maybits(dx.ops[0], depth + 1) & maybits(dx.ops[1], depth + 1)
                    if dx.op == 'or':
                        return maybits(dx.ops[0], depth + 1) | maybits(dx.ops[1], depth + 1)
                    return ALL

                def changed(x, depth=0):
                    # (bits that may differ from the word's old value, does x derive from the word at all)
                    if same_word(x):
                        return 0, True
                    dx = f.defs.get(x.name) if x.kind == 'reg' else None
                    if dx is None or depth > 6 or dx.op not in ('and', 'or'):
                        return ALL, False
                    (ca, da), (cb, db) = changed(dx.ops[0], depth + 1), changed(dx.ops[1], depth + 1)
                    if dx.op == 'and':
                        if da and not db:
                            return ca | (~maybits(dx.ops[1]) & ALL), True
                        if db and not da:
                            return cb | (~maybits(dx.ops[0]) & ALL), True
                    else:
                        if da and not db:
                            return ca | maybits(dx.ops[1]), True
                        if db and not da:
                            return cb | maybits(dx.ops[0]), True
                    if da and db:
                        return ca | cb, True
                    return ALL, False
                ch, derived = changed(ins.ops[0])
                if not derived or ch == ALL:
                    kind, mask = 'assign', None
                else:
                    kind, mask = 'set', ch          # ('set' or 'clear': the bits that can change)
                out.append((f, ins, sty[8:], kind, mask, g.ops[0]))
    return out


def _is_fresh(c, f, v, depth=0):
    """is this pointer an object that was allocated in this function (or, for a parameter, in every caller)?"""
    if depth > 4:
        return False
    if v.kind != 'reg':
        return False
    d = f.defs.get(v.name)
    if d is None:
        pos = next((i for i, p in enumerate(f.params) if p.name == v.name), None)
        if pos is None:
            return False
        sites = [(g, call) for m in c.modules for g in m.funcs.values() for call in g.calls(f.name)]
        return bool(sites) and all(pos < len(call.args) and _is_fresh(c, g, call.args[pos], depth + 1) for g, call in sites)
    if d.op == 'alloca':
        return True          # a local scratch record
    if d.op == 'bitcast':
        return _is_fresh(c, f, d.ops[0], depth)
    if d.op == 'getelementptr':
        return _is_fresh(c, f, d.ops[0], depth)       # an element of a fresh array
    if d.op == 'call':
        n = d.callee_name()
        if n in ALLOC_CALLS:
            return True
        g = c.func(n) if n else None
        if g is None:
            return False
        if n in fresh_returning_names(c):
            return True
        # a constructor helper: whatever it returns (other than NULL) was allocated inside it
        rets = [r.ops[0] for r in g.instrs() if r.op == 'ret' and r.ops]
        return bool(rets) and all(r.kind == 'null' or _is_fresh(c, g, r, depth + 1) for r in rets) and any(r.kind != 'null' for r in rets)
    if d.op == 'phi':
        return all(x.kind == 'null' or _is_fresh(c, f, x, depth + 1) for x in d.ops) and any(x.kind != 'null' for x in d.ops)
    return False


def fresh_returning_names(c):
    if not hasattr(c, '_fresh_ret_names'):
        from .. import summaries
        try:
            c._fresh_ret_names = set(summaries.fresh_returning(c))
        except Exception:
            c._fresh_ret_names = set()
    return c._fresh_ret_names


def flag_words(c, chk, rid_ctx=None, rid_opt=None):
    """R16.6 (rid_ctx): a section inherits the flag word of the context it is created in, wholesale.  So a context's flag word
    is written only while the context is being built: a bit set later on one instance would leak into every instance
    created inside it, and a bit set on the enclosing context changes all its later children.
    R8.8 (rid_opt): the library writes only the state bits of an option's flag word; the declaration bits (list, multi,
    deprecated, drop, ...) belong to the schema and must read the same in every later parse."""
    stores = _flag_stores(c)
    nc = no = 0
    for f, ins, sty, kind, mask, base in stores:
        if sty == 'cfg_t' and rid_ctx:
            nc += 1
            if _is_fresh(c, f, base):
                chk.ok(rid_ctx, '%s: store to a context\'s flags' % f.name, 'the context was allocated in this function (or in every caller of this helper)')
            else:
                chk.fail(rid_ctx, 'context-flags-written:%s' % f.name, c.where(ins),
                         '%s() writes the flag word of a context that already exists (%s): sections created in it afterwards inherit the word wholesale, '
                         'so the change spreads to instances that have nothing to do with the one at hand' % (f.name, 'changes bits 0x%x' % mask if kind == 'set' else 'assigns it'))
        if sty == 'cfg_opt_t' and rid_opt:
            no += 1
            allowed = 0
            for b in OPTION_STATE_BITS:
                allowed |= b
            if kind == 'assign':
                if _is_fresh(c, f, base):
                    chk.ok(rid_opt, '%s: whole flag word of a new option record' % f.name, 'fresh object')
                else:
                    chk.fail(rid_opt, 'option-flags-assigned:%s' % f.name, c.where(ins), '%s() overwrites the whole flag word of an existing option (declaration bits included)' % f.name)
            elif mask & ~allowed:
                chk.fail(rid_opt, 'declaration-bit-written:%s:0x%x' % (f.name, mask & ~allowed), c.where(ins),
                         '%s() %s bit(s) 0x%x of an option\'s flag word, which are part of its declaration: the change stays in the context\'s own '
                         'option table, so every later parse into this context sees a different schema than the first one did'
                         % (f.name, 'changes', mask & ~allowed))
            else:
                chk.ok(rid_opt, '%s: %s 0x%x' % (f.name, kind, mask), 'state bits only', nontrivial=False)
    if rid_ctx:
        chk.floor('%s stores to a context\'s flag word' % rid_ctx, nc, 1)
    if rid_opt:
        chk.floor('%s stores to an option\'s flag word' % rid_opt, no, 10)
