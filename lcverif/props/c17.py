"""C17 - file names resolve deterministically via search path and tilde (code-shape clauses)."""
from .. import sym, ownership as ow, failpaths as fp, parsermodel as pm, report

EXPLANATION = (
    'Static analysis of the path-resolution functions in the LLVM IR of confuse.c. Every residual path of '
    'cfg_searchpath that returns non-NULL must pass stat()==0 and the regular-file test on the very pointer it returns, '
    'which must be a fresh allocation; the add/search order discipline must be one of the two consistent pairs '
    '(prepend + search the rest of the list first, or append + own directory first); an absolute name must reach the '
    'test without directory joining; every malloc\'ed buffer handed to a string-consuming routine must have been '
    'NUL-terminated on that path (strncpy is not a terminating writer); the tilde result buffer must be sized '
    'strlen(home)+strlen(rest)+1 for the two strings then copied into it, and an unknown user yields a copy of the '
    'input; parse and include must use the same resolution idiom. File-system outcomes are not decided.')

S_IFMT, S_IFREG = 0o170000, 0o100000
TERMINATING_WRITERS = {'strcpy': 0, 'snprintf': 0, 'sprintf': 0, 'strcat': 0}
NONTERMINATING_WRITERS = {'strncpy': 0, 'memcpy': 0, 'llvm.memcpy.p0i8.p0i8.i64': 0, 'memmove': 0}
STRING_CONSUMERS = {'getpwnam': (0,), 'strcat': (0, 1), 'strlen': (0,), 'fopen': (0,), 'stat': (0,), 'strdup': (0,), 'strcmp': (0, 1),
                    'strcpy': (1,), 'getenv': (0,), 'strchr': (0,), 'strcspn': (0,), 'cfg_searchpath': (1,), 'cfg_tilde_expand': (0,)}


def run(c, chk):
    chk.explanation = EXPLANATION
    chk.rule('R17.1', 'a non-NULL result of the search is a fresh allocation that passed stat()==0 and the regular-file test')
    chk.rule('R17.2', 'directories are searched in the order they were added (consistent add/search discipline)')
    chk.rule('R17.3', 'an absolute name bypasses the directory list')
    chk.rule('R17.4', 'no heap buffer is read as a string before it has been NUL-terminated on that path')
    chk.rule('R17.5', 'tilde expansion: unknown user -> copy of the input; result buffer sized for exactly the two strings copied into it')
    chk.rule('R17.6', 'top-level parse and include resolve names with the same idiom')
    chk.trusted = ['stat()/S_ISREG, getpwnam(), strcpy/strcat semantics', 'clang/opt IR']
    chk.assumptions = ['file-system state is not modelled']
    ex = sym.Explorer(c.modules, max_visits=2, mod_sets=c.mod_sets, max_paths=50000)

    # ---- R17.1 / R17.3 -----------------------------------------------------------------------
    fn = c.need('cfg_searchpath')
    # helpers of the search that wrap the file test are analysed as part of it
    helpers = set()
    for call in fn.calls():
        g = c.func(call.callee_name() or '')
        if g is not None and g is not fn and any(x.callee_name() in ('stat', '__xstat', 'stat64', 'lstat', 'fstat') for x in g.calls()):
            helpers.add(g.name)
    # the walk over the directory list may be a function of its own that calls itself (not analysed in place): it is a
    # member of the search like cfg_searchpath() - what it returns is judged by the same rule
    family = [fn]
    work = [fn]
    while work:
        g0 = work.pop()
        for call in g0.calls():
            g = c.func(call.callee_name() or '')
            if g is not None and g not in family and g.name in c.unknown_funcs and g.retty == 'i8*' and any(True for _ in g.calls(g.name)):
                family.append(g)
                work.append(g)
            if g is not None and g is not g0 and any(x.callee_name() in ('stat', '__xstat', 'stat64', 'lstat', 'fstat') for x in g.calls()):
                helpers.add(g.name)
    fam = set(g.name for g in family)
    exs = sym.Explorer(c.modules, inline=helpers, max_visits=3, mod_sets=c.mod_sets, max_paths=50000)
    exs.inline -= (fam - {fn.name})
    paths = [p for g in family for p in exs.explore(g) if p.end == 'ret']
    nret = 0
    okall = True
    abs_ok = None
    for p in paths:
        v = p.retval
        if v == sym.C0 or v is None:
            continue
        nret += 1
        ev = next((e for e in p.events if e.kind == 'call' and e.res == v), None)
        if ev is None:
            okall = False
            chk.fail('R17.1', 'searchpath-returns-nonfresh', c.where(p.last_ins), 'cfg_searchpath() returns %s, which is not a freshly allocated path' % sym.render(v))
            continue
        if ev.name in fam:
            continue          # the recursive result: covered inductively
        if ev.name not in ('strdup', 'cfg_make_fullpath'):
            okall = False
            chk.fail('R17.1', 'searchpath-origin:%s' % ev.name, c.where(ev.ins), 'cfg_searchpath() returns the result of %s()' % ev.name)
            continue
        st = [e for e in p.events if e.kind == 'call' and e.name in ('stat', '__xstat', 'stat64') and v in e.args]
        tested = False
        reg = False
        if st:
            res = st[-1].res
            for cn, t, _ in p.assume:
                if cn[0] == 'icmp' and res in (cn[2], cn[3]) and sym.C0 in (cn[2], cn[3]) and ((cn[1] == 'eq') == t):
                    tested = True
                if cn[0] == 'icmp' and ((cn[1] == 'eq') == t):
                    for side, other in ((cn[2], cn[3]), (cn[3], cn[2])):
                        if side[0] == 'bin' and side[1] == 'and' and sym.is_const(side[3]) and side[3][1] == S_IFMT and other == ('c', S_IFREG):
                            reg = True
        if not (st and tested and reg):
            okall = False
            chk.fail('R17.1', 'searchpath-untested:%s' % ev.name, c.where(p.last_ins),
                     'cfg_searchpath() can return a name (from %s()) that has not passed %s' % (ev.name, 'stat()' if not (st and tested) else 'the regular-file test'),
                     witness=['path condition: ' + fp.cond_text(p, 6)])
        # absolute names
        if ev.name == 'strdup':
            isabs = any(sym.render(cn[2]) == '*file' and cn[3] == ('c', ord('/')) and ((cn[1] == 'eq') == t) for cn, t, _ in p.assume if cn[0] == 'icmp')
            joined = any(e.kind == 'call' and (e.name == 'cfg_make_fullpath' or e.name in fam) for e in p.events)
            abs_ok = (abs_ok is not False) and isabs and not joined and ev.args[0] == ('p', 'file')
    if okall and nret:
        chk.ok('R17.1', 'cfg_searchpath: %d non-NULL returns' % nret, 'each is strdup()/cfg_make_fullpath() output that passed stat()==0 && S_ISREG (or the recursive result)', sample=True)
    if abs_ok:
        chk.ok('R17.3', 'absolute names', 'file[0]==\'/\' : strdup(file) goes straight to the test, no joining, no recursion', sample=True)
    else:
        chk.fail('R17.3', 'absolute-name', c.where(fn), 'an absolute file name does not bypass the directory list (no direct strdup(file) -> test path)')
    chk.floor('R17.1 non-NULL return paths', nret, 3)

    # ---- R17.12: a miss in the older directories is never the end of the search --------------------------------
    chk.rule('R17.12', 'when the rest of the directory list has no such file, the directory at hand is still tried (no reason for the miss - not a directory, not a regular file - ends the search)')
    nmiss = 0
    badm = None
    for p in paths:
        rec = [e for e in p.events if e.kind == 'call' and e.name in fam and e.args and sym.render(e.args[0]) == 'p->next']
        for e in rec:
            missed = any((lambda na: na is not None and na[0] == e.res and na[1])(fp.is_null_assumption(cn, t)) for cn, t, _ in p.assume)
            if not missed:
                continue
            nmiss += 1
            later = [x for x in p.events[p.events.index(e) + 1:] if x.kind == 'call' and x.name == 'cfg_make_fullpath']
            if not later:
                badm = badm or (p, e)
    if badm is not None:
        p, e = badm
        chk.fail('R17.12', 'search-gives-up', c.where(p.last_ins) if p.last_ins is not None else c.where(fn),
                 'after the older directories had no such file the search can return without trying the directory at hand (%s): a directory entry that is a plain file, '
                 'or a name that exists there as a directory, hides the regular file in a directory added later' % fp.cond_text(p, 4))
    elif nmiss:
        chk.ok('R17.12', '%d paths on which the rest of the list missed' % nmiss, 'each goes on to cfg_make_fullpath(p->dir, file)', sample=True)
    chk.floor('R17.12 paths with a miss in the rest of the list', nmiss, 1)

    # ---- R17.2 ---------------------------------------------------------------------------------
    add = c.need('cfg_add_searchpath')
    prepend = append = False
    for p in ex.explore(add):
        if p.end != 'ret' or p.retval != sym.C0:
            continue
        nxt = [e for e in p.events if e.kind == 'store' and e.field == 'next']
        head = [e for e in p.events if e.kind == 'store' and e.field == 'path' and sym.root_of(e.addr) == ('p', 'cfg')]
        if nxt and head and sym.render(nxt[-1].val) == 'cfg->path' and head[-1].val[0] == 'call':
            prepend = True
        elif head or nxt:
            append = True
    recurse_first = own_first = False
    for p in paths:
        names = [e.name for e in p.events if e.kind == 'call']
        rec_ = [k for k, n_ in enumerate(names) if n_ in fam and sym.render(p.events[[i_ for i_, e_ in enumerate(p.events) if e_.kind == 'call'][k]].args[0]) == 'p->next']
        if rec_ and 'cfg_make_fullpath' in names:
            if rec_[0] < names.index('cfg_make_fullpath'):
                recurse_first = True
            else:
                own_first = True
        # iterative form: the directories are joined in list order, head first
        dirs = [sym.render(e.args[0]) for e in p.events if e.kind == 'call' and e.name == 'cfg_make_fullpath']
        if len(dirs) >= 2 and dirs[0] == 'p->dir' and dirs[1] == 'p->next->dir':
            own_first = True
    rec_arg_ok = all(sym.render(e.args[0]) in ('p->next', 'p') for p in paths for e in p.events if e.kind == 'call' and e.name in fam) and \
        any(sym.render(e.args[0]) == 'p->next' for p in paths for e in p.events if e.kind == 'call' and e.name in fam)
    if prepend and append:
        chk.fail('R17.2', 'entries-relinked', c.where(add), 'cfg_add_searchpath() links a freshly allocated entry in front of the list on some successful paths and rearranges existing '
                 'entries on others: a directory that is on the list already changes its place, so the order of the search is no longer the order in which the directories were first added')
    elif prepend and recurse_first and not own_first and rec_arg_ok:
        chk.ok('R17.2', 'order', 'add prepends; search visits p->next (older directories) before its own directory: oldest first', sample=True)
    elif append and own_first and not recurse_first and not prepend:
        chk.ok('R17.2', 'order', 'add appends; search tests its own directory before the rest: oldest first')
    elif (prepend and own_first) or (append and recurse_first):
        chk.fail('R17.2', 'search-order', c.where(fn), 'directories are searched newest-first: add %s but the search %s'
                 % ('prepends' if prepend else 'appends', 'tests its own directory before the rest of the list' if own_first else 'visits the rest of the list first'))
    elif (prepend or append) and not recurse_first and not own_first and not any(e.kind == 'call' and e.name in fam and sym.render(e.args[0]) == 'p->next' for p in paths for e in p.events):
        chk.fail('R17.2', 'search-incomplete', c.where(fn), 'cfg_searchpath() never visits the rest of the directory list: only one directory is searched')
    else:
        raise report.Broken('search-path add/search shape not recognised (prepend=%s append=%s recurse_first=%s own_first=%s)' % (prepend, append, recurse_first, own_first))

    # ---- R17.4 / R17.5: every malloc()ed string buffer of confuse.c --------------------------------
    from .. import bufsize
    nbuf = 0
    seen = set()
    FILE_FUNCS = {'cfg_searchpath', 'cfg_tilde_expand', 'cfg_make_fullpath', 'cfg_add_searchpath', 'cfg_parse', 'cfg_include', 'cfg_lexer_include'}
    for f in sorted(c.confuse.funcs.values(), key=lambda x: x.name):
        if f.name in c.unknown_funcs or f.name not in FILE_FUNCS:
            continue          # buffers of other code are C02's; helpers split off these functions are explored with them
        if not any(True for _ in c.deep_calls(f, 'malloc')):
            continue
        for p in ex.explore(f):
            if p.end != 'ret':
                continue
            for b_ in bufsize.analyse(p):
                nbuf += 1
                for e, why in b_.problems:
                    rule = 'R17.4' if ('terminat' in why or 'uninitialised' in why) else 'R17.5'
                    nm = e.name if e.kind == 'call' else e.kind
                    key = '%s:%s:%s' % ('unterminated' if rule == 'R17.4' else 'buffer-size', f.name, nm)
                    if key in seen:
                        continue
                    seen.add(key)
                    chk.fail(rule, key, c.where(e.ins), '%s(): the buffer from malloc(%s) %s' % (f.name, b_.size, why),
                             witness=[repr(x) for x in p.events[:10]])
    if not any(k.startswith('unterminated') for k in seen):
        chk.ok('R17.4', '%d malloc()ed buffers on all paths' % nbuf, 'each is NUL-terminated before it is read as a string or returned', sample=True)
    if not any(k.startswith('buffer-size') for k in seen):
        chk.ok('R17.5', 'buffer sizes', 'every write through strcpy/strcat/memcpy/strncpy/snprintf/store stays within the allocated size (linear size algebra over the measured lengths)', sample=True)
    chk.floor('R17.4 malloc buffers (path instances)', nbuf, 3)

    # tilde expansion: unknown user / no tilde -> a copy of the input; expansion = home directory + rest
    te = c.need('cfg_tilde_expand')
    nexp = 0
    okexp = True
    unknown_ok = False
    for p in ex.explore(te):
        if p.end != 'ret' or p.retval in (sym.C0, None):
            continue
        v = p.retval
        if any((lambda na: na is not None and na[0] == v and na[1])(fp.is_null_assumption(cn, t)) for cn, t, _ in p.assume):
            continue          # the value returned is the NULL of a failed allocation (returned through the variable)
        ev = next((e for e in p.events if e.kind == 'call' and e.res == v), None)
        if ev is None:
            okexp = False
            chk.fail('R17.5', 'tilde-nonfresh', c.where(p.last_ins), 'cfg_tilde_expand() returns %s, not a fresh string' % sym.render(v))
            continue
        if ev.name == 'strdup':
            if ev.args[0] != ('p', 'filename'):
                okexp = False
                chk.fail('R17.5', 'tilde-copy', c.where(ev.ins), 'the not-expanded result is a copy of %s, not of the input' % sym.render(ev.args[0]))
            if any(e.kind == 'call' and e.name == 'getpwnam' for e in p.events):
                unknown_ok = True
            continue
        if ev.name == 'malloc':
            nexp += 1
            # the two pieces copied in: the home directory first, then the rest of the input
            pieces = bufsize.buffer_pieces(p, v)
            if pieces is not None:
                # an empty literal between the two (a general "join three strings" helper given "" for the middle) adds nothing
                pieces = [x for x in pieces if not ((x[0] == 'lit' and x[1] == '') or (x[0] == 'src' and x[1] == ('str', '')))]
            srcs = [sym.render(x[1]) if x[0] == 'src' else repr(x[1]) for x in (pieces or [])]
            if pieces is None or len(pieces) != 2 or pieces[0][0] != 'src' or pieces[1][0] != 'src' \
                    or not srcs[0].endswith('->pw_dir') or 'pw_dir' in srcs[1] or not sym.mentions(pieces[1][1], lambda z: z == ('p', 'filename') or (z[0] == 'call' and z[1] == 'strchr')):
                okexp = False
                chk.fail('R17.5', 'tilde-build', c.where(ev.ins), 'the expanded name is not the home directory followed by the rest of the input (copied: %s)' % srcs)
    if okexp and nexp and unknown_ok:
        chk.ok('R17.5', 'cfg_tilde_expand', '%d expanding paths: home directory then the rest of the name; unknown user / no tilde -> strdup(filename)' % nexp, sample=True)
    elif okexp and not unknown_ok:
        chk.fail('R17.5', 'tilde-unknown-user', c.where(te), 'there is no path on which an unknown user yields a copy of the input')
    chk.floor('R17.5 expanding paths', nexp, 2)

    # ---- R17.7: the user looked up is exactly the text between '~' and the rest of the name ------------
    chk.rule('R17.7', 'the name given to getpwnam() is the input from its second character up to (not including) the rest that is appended to the home directory')
    nuser = 0
    for p in ex.explore(te):
        if p.end != 'ret':
            continue
        gp = [e for e in p.events if e.kind == 'call' and e.name == 'getpwnam']
        if not gp:
            continue
        u = gp[0].args[0]
        src = n = None
        ev = next((e for e in p.events if e.kind == 'call' and e.res == u), None)
        if ev is not None and ev.name == 'strndup':
            src, n = ev.args[0], ev.args[1]
        else:
            cp = [e for e in p.events if e.kind == 'call' and e.name in ('strncpy', 'memcpy', 'llvm.memcpy.p0i8.p0i8.i64') and e.args[0] == u]
            if cp:
                src, n = cp[0].args[1], cp[0].args[2]
        # the rest of the name: the part of the input that is appended to the home directory
        rest = None
        for e in p.events:
            if e.kind == 'call' and e.name in ('strcat', 'strcpy', 'memcpy', 'llvm.memcpy.p0i8.p0i8.i64', 'snprintf', 'strlen') and e is not gp[0]:
                for a in e.args[1:] if e.name != 'strlen' else e.args:
                    if a != ('p', 'filename') and a != ('idx', ('p', 'filename'), ('c', 1)) and \
                            (sym.mentions(a, lambda v: v == ('p', 'filename')) or (a[0] == 'call' and a[1] in ('strchr', 'strpbrk'))) and a[0] in ('idx', 'call'):
                        rest = rest or a
        if src is None or n is None or rest is None:
            continue
        nuser += 1
        want = bufsize.lin(('bin', 'sub', rest, ('p', 'filename')))
        got = bufsize.lin(n)
        if src != ('idx', ('p', 'filename'), ('c', 1)):
            chk.fail('R17.7', 'tilde-user-start', c.where(gp[0].ins), 'the user name is taken from %s instead of from the character after the tilde' % sym.render(src))
            break
        if want is None or got is None or not got.eq(want.add(bufsize.Lin(-1))):
            chk.fail('R17.7', 'tilde-user-length', c.where(gp[0].ins),
                     'the user name handed to getpwnam() has %s characters, but the text between the tilde and the rest of the name (%s) has (%s) - 1: '
                     'the separator ends up in the user name (or its last character is lost) and "~user/file" is no longer expanded'
                     % (sym.render(n), sym.render(rest), sym.render(('bin', 'sub', rest, ('p', 'filename')))))
            break
    else:
        if nuser:
            chk.ok('R17.7', 'cfg_tilde_expand: %d lookups' % nuser, 'getpwnam(filename[1 .. rest)) with rest = the part appended to the home directory', sample=True)
    chk.floor('R17.7 user lookups', nuser, 1)

    # ---- R17.10: "~" and "~/x" mean the caller's own home: no lookup of a user with an empty name ---------
    chk.rule('R17.10', 'getpwnam() is reached only when the character after the tilde was shown to be neither the end of the name nor a slash (a bare "~" or "~/x" is the current user)')
    nlook = 0
    badp = None
    for p in ex.explore(te):
        gp = [e for e in p.events if e.kind == 'call' and e.name == 'getpwnam']
        if not gp:
            continue
        nlook += 1
        seq = gp[0].seq

        def second(v):
            return sym.mentions(v, lambda x: x[0] == 'ld' and x[1] == ('idx', ('p', 'filename'), ('c', 1)))
        ne = set()
        for cn, t, _ in p.assume[:seq]:
            if cn[0] == 'icmp' and cn[1] in ('eq', 'ne') and sym.is_const(cn[3]) and second(cn[2]) and ((cn[1] == 'ne') == t):
                ne.add(cn[3][1] & 0xff)
            if cn[0] == 'switch-default' and second(cn[1]):
                ne |= set(k & 0xff for k in p.neq.get(cn[1], ()))
        # a '/' found by strchr(filename, '/') on this path: the name is longer than "~"; and if that place is not filename+1, the second character is no slash
        sl = [e for e in p.events[:p.events.index(gp[0])] if e.kind == 'call' and e.name == 'strchr' and e.args[0] == ('p', 'filename') and e.args[1] == ('c', 47)]
        for e in sl:
            for cn, t, _ in p.assume[:seq]:
                na = fp.is_null_assumption(cn, t)
                if na and na[0] == e.res:
                    if na[1]:
                        ne.add(47)           # no slash anywhere
                    else:
                        ne.add(0)            # a slash somewhere behind the tilde: the name does not end after it
                if cn[0] == 'icmp' and cn[1] in ('eq', 'ne') and ((cn[1] == 'ne') == t) and \
                        {sym.norm(cn[2]), sym.norm(cn[3])} == {sym.norm(e.res), ('idx', ('p', 'filename'), ('c', 1))}:
                    ne.add(47)
        # strcspn(filename + 1, R) != 0: the character after the tilde is neither the terminator nor a member of R
        for e in p.events[:p.events.index(gp[0])]:
            if e.kind == 'call' and e.name == 'strcspn' and e.args[0] == ('idx', ('p', 'filename'), ('c', 1)) and e.args[1][0] == 'str':
                for cn, t, _ in p.assume[:seq]:
                    if cn[0] == 'icmp' and cn[1] in ('eq', 'ne') and sym.C0 in (cn[2], cn[3]) and e.res in (cn[2], cn[3]) and ((cn[1] == 'ne') == t):
                        ne.add(0)
                        ne |= set(e.args[1][1].encode('latin-1'))
        if not {0, 47} <= ne:
            badp = badp or (p, gp[0], ne)
    if badp is not None:
        p, g, ne = badp
        chk.fail('R17.10', 'tilde-empty-user', c.where(g.ins), 'getpwnam() can be reached although the character after the tilde was not shown to differ from %s (%s): '
                 'a bare "~"%s is looked up as a user with an empty name, fails, and stays unexpanded' %
                 (' and '.join(x for x, k in (('the end of the name', 0), ('a slash', 47)) if k not in ne), fp.cond_text(p, 4), '' if 0 not in ne else ' or "~/x"'))
    elif nlook:
        chk.ok('R17.10', 'cfg_tilde_expand: %d paths to getpwnam()' % nlook, 'each has established filename[1] != 0 and filename[1] != \'/\'', sample=True)
    chk.floor('R17.10 paths to getpwnam()', nlook, 1)

    # ---- R17.11: every directory that is registered takes part in the search ----------------------------------
    chk.rule('R17.11', 'a successful cfg_add_searchpath() has linked the directory into the list (or has found the very same name in it already)')
    nadd = 0
    bada = None
    for p in ex.explore(add):
        if p.end != 'ret' or p.retval != sym.C0:
            continue
        nadd += 1
        linked = any(e.kind == 'store' and e.field == 'path' and sym.root_of(e.addr) == ('p', 'cfg') and sym.root_of(e.val)[0] == 'call' for e in p.events)
        if linked:
            continue
        same = False
        for e in p.events:
            if e.kind == 'call' and e.name == 'strcmp' and len(e.args) == 2 and any(sym.mentions(a, lambda v: v[0] == 'fld' and len(v) > 3 and v[3] == 'dir') for a in e.args):
                for cn, t, _ in p.assume:
                    if cn[0] == 'icmp' and cn[1] in ('eq', 'ne') and e.res in (cn[2], cn[3]) and sym.C0 in (cn[2], cn[3]) and ((cn[1] == 'eq') == t):
                        same = True
        if not same:
            bada = bada or p
    if bada is not None:
        chk.fail('R17.11', 'searchpath-not-linked', c.where(bada.last_ins) if bada.last_ins is not None else c.where(add),
                 'cfg_add_searchpath() can report success without having put the directory into the list (%s): a file that exists only there is "not found" although '
                 'its directory was registered' % fp.cond_text(bada, 4))
    elif nadd:
        chk.ok('R17.11', 'cfg_add_searchpath: %d successful paths' % nadd, 'each links a new entry into cfg->path', sample=True)
    chk.floor('R17.11 successful paths of cfg_add_searchpath', nadd, 1)

    # ---- R17.8: the file system is consulted when a name is looked up, not when a directory is registered ---
    chk.rule('R17.8', 'registering a search directory does not look at the file system (only the lookup does): resolution depends on the file system at lookup time')
    FS = ('stat', 'lstat', '__xstat', '__lxstat', 'access', 'faccessat', 'fopen', 'open', 'opendir', 'fstat', '__fxstat', 'realpath')
    adder = c.need('cfg_add_searchpath')
    hits = [x for x in c.deep_calls(adder) if (x.callee_name() or '') in FS]
    if hits:
        chk.fail('R17.8', 'add-time-fs:%s' % hits[0].callee_name(), c.where(hits[0]), 'cfg_add_searchpath() calls %s(): whether a directory takes part in later lookups is decided by the '
                 'state of the file system when it was registered (a directory created afterwards is never searched)' % hits[0].callee_name())
    else:
        chk.ok('R17.8', 'cfg_add_searchpath', 'no file-system test; cfg_searchpath() tests candidates when a name is looked up')

    # ---- R17.9: the search path applies wherever an include is written ---------------------------------
    if not isinstance(chk, report.SubCheck):
        from . import c13 as _c13, c08 as _c08
        chk.rule('R17.9', 'the search path reaches every section: an include inside a section resolves like one at top level')
        _c13.section_path(c, _c08.chk_proxy(chk, {'R13.8': 'R17.9'}))
        # R17.14: "deterministically": the answer is a function of the name, the search path and the file system - not of what
        # was looked up before (a remembered last answer is a mutable global under no reset discipline: rule R8.0 of C08)
        chk.rule('R17.14', 'name resolution keeps no memory: neither unit has a mutable global outside the reset disciplines (rule R8.0 of C08; a cache of the last lookup is one)')
        _c08.classified_globals(c, chk, rid='R17.14', rid5='R17.14')
        # R17.15: the directory list outlives every section: resolution after a section was replaced or removed walks a live list
        from . import c07 as _c07s
        chk.rule('R17.15', 'replacing or removing a section never releases the search path it borrows from the root (rule R7.3 of C07)')
        _c07s.searchpath_rule(c, _c08.chk_proxy(chk, {'R7.3': 'R17.15'}), sym.Explorer(c.modules, max_visits=2, mod_sets=c.mod_sets, max_paths=200000))
        # R17.16: include() judges the file it resolved (the opened stream), like the top-level parse does: a directory is refused
        chk.rule('R17.16', 'the directory test of include() is made on the resolved file (rule R13.5 of C13)')
        sub13 = report.SubCheck(chk, 'R17.16', 'C13', only=('R13.5',))
        _c13.run(c, sub13)
        sub13.done('include of a directory')

    # ---- R17.6 ---------------------------------------------------------------------------------
    resolution_idiom(c, chk, ex)


def resolution_idiom(c, chk, ex):
    """both entry points: search path set -> cfg_searchpath(cfg->path, name), else cfg_tilde_expand(name)"""
    def idiom(f, namearg):
        out = set()
        for p in ex.explore(f):
            if p.end != 'ret':
                continue
            calls = [e for e in p.events if e.kind == 'call' and e.name in ('cfg_searchpath', 'cfg_tilde_expand') and e.depth <= 1]
            if not calls:
                continue
            e = calls[0]
            haspath = None
            for cn, t, _ in p.assume[:e.seq]:
                if pm.describe_cond(cn) == 'cfg->path':
                    haspath = t
            if haspath is None:
                continue
            arg = e.args[1] if e.name == 'cfg_searchpath' else e.args[0]
            first = sym.render(e.args[0]) if e.name == 'cfg_searchpath' else ''
            out.add((haspath, e.name, first, arg == ('p', namearg)))
            if len(calls) > 1:
                # a second resolution step on the same path (a miss in the search path answered by another lookup)
                out.add((haspath, '+'.join(x.name for x in calls), first, arg == ('p', namearg)))
        return out
    a = idiom(c.need('cfg_parse'), 'filename')
    b = idiom(c.need('cfg_lexer_include'), 'filename')
    want = {(True, 'cfg_searchpath', 'cfg->path', True), (False, 'cfg_tilde_expand', '', True)}
    if a == want and b == want:
        chk.ok('R17.6', 'cfg_parse / cfg_lexer_include', 'both: cfg->path ? cfg_searchpath(cfg->path, name) : cfg_tilde_expand(name)', sample=True)
    else:
        chk.fail('R17.6', 'resolution-idiom', c.where(c.need('cfg_parse')), 'parse and include resolve file names differently: parse %s, include %s' % (sorted(a), sorted(b)))
