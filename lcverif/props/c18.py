"""C18 - running out of memory yields an error return, not corruption.

Error discipline over every allocation site of confuse.c (found by callee in
the IR).  Same path engine as C07, restricted to the paths on which some
allocation is assumed to have failed.
"""
import json
import os
import re

from .. import sym, ownership as ow, parsermodel as pm, failpaths as fp, report, cfg as _cfg
from . import c07

EXPLANATION = (
    'Static error-discipline analysis over the LLVM IR of confuse.c: every call to malloc/calloc/realloc/reallocarray/'
    'strdup/strndup is an allocation site (count is a floor). On every residual path through a site: (R18.1) the '
    'result is compared with NULL before it is dereferenced, written through or passed to a string routine, and a '
    'realloc result is not stored over its own argument before that test; (R18.2) on the paths where the allocation '
    'is assumed to fail, everything the function acquired is released, no released pointer stays in a field, and a '
    'value slot appended earlier on the path is not left half-built; (R18.3) those paths end in the function\'s '
    'failure value, and every caller of a function that can fail this way tests or returns its result (deliberately '
    'ignored results are a frozen, reasoned list); (R18.4) no process terminator is reachable on such a path. '
    'Scanner-internal allocations are out of scope per the property.')

ALLOC = ('malloc', 'calloc', 'realloc', 'reallocarray', 'strdup', 'strndup')
DEREF_CALLS = {'strcpy': (0, 1), 'strcat': (0, 1), 'strncpy': (0, 1), 'strlen': (0,), 'snprintf': (0,), 'sprintf': (0,), 'memcpy': (0, 1),
               'llvm.memcpy.p0i8.p0i8.i64': (0, 1), 'llvm.memset.p0i8.i64': (0,), 'llvm.memmove.p0i8.p0i8.i64': (0, 1),
               'strcmp': (0, 1), 'strcasecmp': (0, 1), 'fopen': (0,), 'stat': (0,), 'getpwnam': (0,), 'strchr': (0,), 'strcspn': (0,)}


def load_allow(name):
    with open(os.path.join(report.VERIF, 'spec', name)) as fh:
        return json.load(fh)


def failure_value(fn, v, path=None):
    """is v a failure value for a function of this return type"""
    if fn.retty == 'void':
        return True
    if v is None:
        return False
    if fn.retty.endswith('*'):
        if v != sym.C0 and path is not None and v[0] == 'ld' and sym.root_of(v[1])[0] == 'alloca':
            # a member of a local aggregate that was filled by a structure copy (a result record returned by value): what
            # it holds on this path is not modelled - no verdict
            root = sym.root_of(v[1])
            if v[1][0] == 'fld' and any(e.kind == 'call' and e.name.startswith('llvm.memcpy') for e in path.events):
                return True
        if v != sym.C0 and path is not None:
            # the NULL result of the callee that failed, handed on as it is
            for cn, t, _ in path.assume:
                na = fp.is_null_assumption(cn, t)
                if na and na[1] and na[0] == v:
                    return True
        return v == sym.C0
    if sym.is_const(v):
        return v[1] != 0
    # result of a failing callee passed through
    return v[0] == 'call'


def run(c, chk):
    chk.explanation = EXPLANATION
    chk.rule('R18.0', 'allocation sites of confuse.c enumerated by callee (floor)')
    chk.rule('R18.1', 'an allocation result is NULL-tested before it is dereferenced or used as a string; no x = realloc(x)')
    chk.rule('R18.2', 'on allocation-failure paths nothing acquired is dropped, no released pointer stays reachable, no appended slot is left half-built')
    chk.rule('R18.3', 'allocation-failure paths end in the failure value; callers test or return the result of a function that can fail this way')
    chk.rule('R18.4', 'no process terminator is reachable on an allocation-failure path')
    chk.trusted = ['clang/opt IR', 'spec/ignored_results.allow.json (one reasoned entry per deliberately ignored result)']
    chk.assumptions = ['one failing allocation per path is enough to expose a missing unwind (paths with several failures are included anyway)',
                       'scanner-internal (flex) allocations and the hand-written scratch buffer in lexer.l are out of scope']
    mod = c.confuse
    sites = []
    for f in mod.funcs.values():
        for call in f.calls():
            if call.callee_name() in ALLOC:
                sites.append((f, call))
    chk.analysed = {'allocation_sites': len(sites), 'functions_with_sites': len(set(f.name for f, _ in sites))}
    chk.floor('R18.0 allocation sites', len(sites), 20)
    chk.ok('R18.0', '%d allocation sites in %d functions' % (len(sites), len(set(f.name for f, _ in sites))),
           ', '.join(sorted(set(f.name for f, _ in sites)))[:300], nontrivial=False)

    ex = sym.Explorer(c.modules, max_visits=2, mod_sets=c.mod_sets, max_paths=200000, record_loads=True)
    model = pm.ParserModel(c)
    allow_ign = load_allow('ignored_results.allow.json')

    # functions that can fail on allocation (computed): have a path that assumes an allocator failed and returns failure
    may_fail = {}
    pathcache = {}
    for f in sorted(mod.funcs.values(), key=lambda x: x.name):
        if f.name == 'cfg_parse_internal' or f.name in c.unknown_funcs:
            continue
        pathcache[f.name] = [p for p in ex.explore(f) if p.end == 'ret']
    for f_ in mod.funcs.values():
        RETPTR[f_.name] = f_.retty.endswith('*')
    changed = True
    failing_callees = set(ALLOC)
    while changed:
        changed = False
        for name, paths in pathcache.items():
            if name in may_fail:
                continue
            f = mod.funcs[name]
            if f.retty == 'void':
                continue
            for p in paths:
                passthrough = p.retval is not None and p.retval[0] == 'call' and p.retval[1] in failing_callees \
                    and p.retval[1] not in NULL_IS_NOT_FAILURE
                if passthrough or (alloc_failure_on(p, failing_callees) and failure_value(f, p.retval) and p.retval is not None
                                   and not (p.retval[0] == 'call')):
                    may_fail[name] = True
                    failing_callees.add(name)
                    changed = True
                    break
    may_fail['cfg_parse_internal'] = True
    failing_callees.add('cfg_parse_internal')
    chk.analysed['functions_that_can_fail_on_allocation'] = len(may_fail)

    seen = set()
    nsite_ok = 0
    nfailpaths = 0
    subjects = set()
    for f_, _ in sites:
        for o in c.owners(f_.name):
            g_ = c.func(o)
            if g_ is not None:
                subjects.add(g_)
    for f in sorted(subjects, key=lambda x: x.name):
        if f.name == 'cfg_parse_internal':
            paths = [tr.path for s, tok, trs in model.table() for tr in trs]
        else:
            paths = pathcache[f.name]
        fsites = [call for g, call in sites if f.name in c.owners(g.name)]
        site_checked = {id(call): False for call in fsites}
        site_bad = set()
        for p in paths:
            nfacts = ow.null_facts(p)
            for i, e in enumerate(p.events):
                if e.kind != 'call' or e.name not in ALLOC:
                    continue
                res = e.res
                site_checked[id(e.ins)] = True
                # ---- R18.1 ----
                tested_at = None
                for k, (cn, t, ins) in enumerate(p.assume):
                    na = fp.is_null_assumption(cn, t)
                    if na and na[0] == res:
                        tested_at = k
                        break
                if tested_at is None and p.retval != res and not (f.retty != 'void' and failure_value(f, p.retval) and p.retval is not None and p.retval[0] != 'call'):
                    target = None
                    if f.name == 'cfg_parse_internal':
                        target = next((k for k, v in p.next.items() if v == res and not k.startswith('%')), None) if hasattr(p, 'next') else None
                    a = next((x for x in allow_ign if x['function'] == f.name and x['callee'] == e.name
                              and (x.get('target') is None or x.get('target') == target)), None)
                    key = 'untested:%s:%s%s' % (f.name, e.name, (':' + target) if target else '')
                    if a is None and key not in seen and f.name != 'cfg_parse_internal' or (a is None and key not in seen and f.name == 'cfg_parse_internal'):
                        seen.add(key)
                        site_bad.add(id(e.ins))
                        chk.fail('R18.1', key, c.where(e.ins), '%s(): the result of %s() is never compared with NULL on a path that does not report failure: '
                                 'an allocation failure is silently absorbed' % (f.name, e.name), witness=['path condition: ' + fp.cond_text(p, 6)] + [repr(x) for x in p.events[i:i + 5]])
                for e2 in p.events[i + 1:]:
                    use = deref_use(e2, res)
                    if use and (tested_at is None or e2.seq <= tested_at):
                        key = 'unchecked:%s:%s' % (f.name, e.name)
                        site_bad.add(id(e.ins))
                        if key not in seen:
                            seen.add(key)
                            chk.fail('R18.1', key, c.where(e2.ins), '%s(): the result of %s() (%s) is %s before it is compared with NULL'
                                     % (f.name, e.name, c.where(e.ins), use), witness=[repr(x) for x in p.events[i:i + 6]])
                        break
                    # realloc self-assignment before the test
                    if e.name in ('realloc', 'reallocarray') and e2.kind == 'store' and e2.val == res and (tested_at is None or e2.seq <= tested_at):
                        src = e.args[0]
                        if src[0] == 'ld' and sym.norm(src[1]) == sym.norm(e2.addr):
                            key = 'realloc-self:%s' % f.name
                            site_bad.add(id(e.ins))
                            if key not in seen:
                                seen.add(key)
                                chk.fail('R18.1', key, c.where(e2.ins), '%s(): x = realloc(x, ...) - the old block is lost when the call fails' % f.name)
            # ---- alloc failure paths ----
            if not alloc_failure_on(p, failing_callees):
                continue
            nfailpaths += 1
            # R18.2
            if f.name != 'cfg_parse_internal':
                for fd in ow.analyse_path(p, f.name):
                    key = '%s:%s:%s:%s' % (fd.kind, f.name, fd.ev.name if fd.ev is not None and fd.ev.kind == 'call' else '?', re.sub(r'#\d+', '', sym.render(fd.val)))
                    if key in seen:
                        continue
                    seen.add(key)
                    chk.fail('R18.2', key, c.where(fd.ev.ins) if fd.ev is not None else c.where(f),
                             '%s(), allocation failure: %s' % (f.name, re.sub(r'#\d+', '', fd.detail)),
                             witness=['path condition: ' + fp.cond_text(p, 6)] + [repr(x) for x in p.events[-8:]])
                halfbuilt(c, chk, f, p, seen)
                # R18.3
                if not failure_value(f, p.retval, p):
                    ck = fp.cond_key(p)
                    key = 'success-after-failure:%s:%s' % (f.name, failed_callee(p, failing_callees))
                    a = next((x for x in allow_ign if x['function'] == f.name and x['callee'] == failed_callee(p, failing_callees)), None)
                    if a:
                        if key not in seen:
                            seen.add(key)
                            chk.ok('R18.3', key, 'allowed: ' + a['reason'], nontrivial=False)
                    elif key not in seen:
                        seen.add(key)
                        chk.fail('R18.3', key, c.where(p.last_ins), '%s() returns %s although %s() failed on this path: the failure is not reported to the caller'
                                 % (f.name, sym.render(p.retval) if p.retval else 'normally', failed_callee(p, failing_callees)),
                                 witness=['path condition: ' + fp.cond_text(p, 6)])
        for call in fsites:
            if site_checked[id(call)] and id(call) not in site_bad:
                nsite_ok += 1
        chk.ok('R18.1', '%s: %d site(s)' % (f.name, len(fsites)), 'every result is compared with NULL before any dereference / string use', sample=(len(fsites) > 2))
    chk.ok('R18.2', '%d allocation-failure paths' % nfailpaths, 'see violations / known findings for the exceptions', nontrivial=True, sample=True)
    chk.floor('R18.2 allocation-failure paths', nfailpaths, 300)

    # ---- R18.3 propagation -----------------------------------------------------------------
    nprop = 0
    for f in sorted(mod.funcs.values(), key=lambda x: x.name):
        for call in f.calls():
            n = call.callee_name()
            if n is None or n not in may_fail or n in ALLOC:
                continue
            nprop += 1
            if result_used(f, call):
                continue
            # a helper split off a known function is reported under that function
            own = c.owners(f.name)
            for fname_ in (sorted(own) if own else [f.name]):     # (a worker shared by several entry points: once for each of them)
                key = 'ignored-result:%s:%s' % (fname_, n)
                a = next((x for x in allow_ign if x['function'] == fname_ and x['callee'] == n), None)
                if a:
                    chk.ok('R18.3', key, 'allowed: ' + a['reason'], nontrivial=False)
                elif key not in seen:
                    seen.add(key)
                    chk.fail('R18.3', key, c.where(call), '%s() ignores the result of %s(), which fails when an allocation fails' % (fname_, n))
    chk.ok('R18.3', '%d call sites of functions that can fail on allocation' % nprop, 'result tested, returned or stored (exceptions listed)', sample=True)
    chk.floor('R18.3 propagation call sites', nprop, 30)

    # ---- R18.5 ---------------------------------------------------------------------------------
    chk.rule('R18.5', 'what an allocation-failure path releases is only what the failing function acquired: a raw copy of caller data is neutralised before anything can fail')
    from . import c16
    c16.whole_array_copy_protected(c, chk, 'R18.5', c16.owned_members(c))

    # ---- R18.6 ---------------------------------------------------------------------------------
    user_object_released(c, chk, ex)

    # ---- R18.10: a value slot that could not be made is not counted -----------------------------------------
    chk.rule('R18.10', 'cfg_addval() leaves the value count as it was on every path that returns failure (no counted NULL slot for the getters, the printer and the release code to trip over)')
    from .. import bufsize as _bs
    av = c.need('cfg_addval')
    n10 = 0
    bad10 = None
    for p in ex.explore(av):
        if p.end != 'ret' or p.retval != sym.C0:
            continue
        n10 += 1
        cnt = ('fld', ('p', 'opt'), 'cfg_opt_t', 'nvalues')
        sts = [e for e in p.events if e.kind == 'store' and e.addr == cnt]
        if sts and _bs.net_counter_change(sts, cnt) != 0:
            bad10 = bad10 or (p, sts[-1])
    if bad10 is not None:
        p, e = bad10
        chk.fail('R18.10', 'addval-counts-failed-slot', c.where(e.ins), 'cfg_addval() returns failure (%s) with opt->nvalues already increased: the option is left with a slot that is counted '
                 'but NULL - cfg_opt_getnint(), cfg_print() and cfg_free_value() dereference it' % fp.cond_text(p, 3))
    elif n10:
        chk.ok('R18.10', 'cfg_addval: %d failing paths' % n10, 'the value count is unchanged on each')
    chk.floor('R18.10 failing paths of cfg_addval', n10, 2)

    # ---- R18.9: unwinding after a failed allocation releases what the function owns, not what it borrows -------
    from . import c08 as _c08
    chk.rule('R18.9', 'no unwind path releases a context together with the search path it only borrows from the root (the failed call would leave the root with a freed list)')
    c07.searchpath_rule(c, _c08.chk_proxy(chk, {'R7.3': 'R18.9'}), sym.Explorer(c.modules, max_visits=2, mod_sets=c.mod_sets, max_paths=200000))

    # ---- R18.11: a list node that could not be completed is released alone: the releaser of the search path walks the whole list
    # behind the node it is given - a node that was already linked in front of the caller's list takes that list with it
    chk.rule('R18.11', 'the list releaser is never called on a node whose link still leads to a list the caller keeps (a half-built node is unlinked, or not yet linked, when it is released)')
    n11 = 0
    bad11 = None
    ex11 = sym.Explorer(c.modules, max_visits=2, mod_sets=c.mod_sets, max_paths=50000)
    for f in c.confuse.funcs.values():
        if f.name in c.unknown_funcs or f.name == 'cfg_free_searchpath' or not any(True for _ in c.deep_calls(f, 'cfg_free_searchpath')):
            continue
        for p in ex11.explore(f):
            for e in p.events:
                if not (e.kind == 'call' and e.name == 'cfg_free_searchpath' and e.args):
                    continue
                n11 += 1
                node = e.args[0]
                if node[0] != 'call':
                    continue          # not a node made on this path: the owner's own list (cfg_free) - R7.3 / R18.9
                link = None
                for st in p.events[:p.events.index(e)]:
                    if st.kind == 'store' and st.addr[0] == 'fld' and st.addr[1] == node and st.addr[3] == 'next':
                        link = st
                if link is not None and link.val != sym.C0 and link.val[0] == 'ld' and sym.object_of(link.val[1])[0] == 'p':
                    bad11 = bad11 or (f, p, e, link)
    if bad11 is not None:
        f, p, e, link = bad11
        chk.fail('R18.11', 'releases-callers-list:%s' % f.name, c.where(e.ins), '%s() releases the node it could not complete with cfg_free_searchpath() after it has linked the caller\'s list '
                 'behind it (%s := %s): the releaser walks the link, every directory added earlier is freed and %s keeps pointing at the freed list (%s)'
                 % (f.name, sym.render(link.addr), sym.render(link.val), sym.render(link.val[1]), fp.cond_text(p, 4)))
    else:
        chk.ok('R18.11', '%d calls of the search-path releaser' % n11, 'none on a fresh node that is linked to a list of the caller', sample=True)
    chk.floor('R18.11 calls of the search-path releaser', n11, 1)

    # ---- R18.8: an include that fails for want of memory unwinds like any other refused include ----------
    from . import c08 as _c08
    chk.rule('R18.8', 'every failing exit of the include function (allocation failures included) has closed the file, released the name and left the include stack as deep as it found it')
    _c08.refused_include_leaves_nothing(c, _c08.chk_proxy(chk, {'R8.7': 'R18.8'}))

    # ---- R18.7: a callee that fails for want of memory is a refusal like any other: the caller's revert is complete ----
    from . import c10, c08
    chk.rule('R18.7', 'when a callee reports failure (which includes an allocation that failed inside it) after the caller has started to change '
             'the option, the caller restores every touched location and releases what it built (the refusal analysis of C10)')
    n7 = c10.analyse(c, c08.chk_proxy(chk, {'R10.1': 'R18.7', 'R10.2': 'R18.7'}), 'R10.1', 'R10.2')
    chk.floor('R18.7 refusing paths', n7, 40)
    # ... and the removal API on its own allocation-failure paths: a section remover that fails for want of memory has removed nothing
    c10.analyse(c, c08.chk_proxy(chk, {'R10.1': 'R18.7', 'R10.2': 'R18.7'}), 'R10.1', 'R10.2', funcs=('cfg_opt_rmnsec', 'cfg_opt_rmtsec', 'cfg_rmnsec', 'cfg_rmtsec', 'cfg_rmsec'), alloc_paths=True)

    # ---- R18.4 ---------------------------------------------------------------------------------
    term = ('abort', 'exit', '_exit', '__assert_fail')
    nterm = 0
    for f in mod.funcs.values():
        if f.name in c.unknown_funcs:
            continue      # a helper split off a known function is explored as part of that function
        tcalls = [x for x in c.deep_calls(f) if x.callee_name() in term]
        if not tcalls:
            continue
        paths = pathcache.get(f.name)
        if f.name == 'cfg_init_defaults':
            paths = init_defaults_paths(c, f, ex)
        if paths is None:
            paths = [p for p in ex.explore(f)]
        allp = paths if f.name == 'cfg_init_defaults' else [p for p in ex.explore(f)]
        for p in allp:
            if p.end != 'unreachable':
                continue
            nterm += 1
            t = [e for e in p.events if e.kind == 'call' and e.name in term]
            if not t:
                continue
            cause = failed_callee(p, failing_callees, include_codes=True)
            if cause:
                key = 'terminate-on-alloc-failure:%s:%s' % (f.name, cause)
                if key not in seen:
                    seen.add(key)
                    chk.fail('R18.4', key, c.where(t[0].ins), '%s() calls %s() on a path where %s() failed, which an allocation failure causes'
                             % (f.name, t[0].name, cause), witness=['path condition: ' + fp.cond_text(p, 6)])
    chk.ok('R18.4', '%d terminating paths examined' % nterm, 'none other than listed depends on the failure of a function that can fail on allocation')


def deref_use(e, res):
    """how event e dereferences the object res (string) or None"""
    if e.kind == 'store' and e.addr != res and sym.root_of(e.addr) == res and e.addr[0] in ('fld', 'idx'):
        return 'written through'
    if e.kind == 'store' and e.addr == res:
        return 'written through'
    if e.kind == 'load' and sym.root_of(e.addr) == res:
        return 'read through'
    if e.kind == 'call' and e.name in DEREF_CALLS:
        for k in DEREF_CALLS[e.name]:
            if k < len(e.args) and (e.args[k] == res or (e.args[k][0] in ('idx', 'fld') and sym.root_of(e.args[k]) == res)):
                return 'passed to %s()' % e.name
    return None


NULL_IS_NOT_FAILURE = {'cfg_searchpath', 'parse_title', 'cfg_getopt', 'cfg_getopt_secidx', 'cfg_getopt_leaf', 'cfg_getopt_array',
                       'cfg_opt_getnsec', 'cfg_opt_gettsec', 'cfg_gettsec', 'cfg_getnsec', 'cfg_getsec', 'cfg_opt_getnstr'}


def failed_calls(p, failing):
    """names of callees from `failing` whose result this path assumes to be a failure value"""
    out = []
    for cn, t, _ in p.assume:
        if cn[0] != 'icmp' or cn[1] not in ('eq', 'ne'):
            continue
        for side, other in ((cn[2], cn[3]), (cn[3], cn[2])):
            if side[0] != 'call' or side[1] not in failing or not sym.is_const(other):
                continue
            name = side[1]
            if name in NULL_IS_NOT_FAILURE:
                continue
            eq = (cn[1] == 'eq') == t
            ptr = name in ALLOC or RETPTR.get(name, False)
            if ptr:
                if other[1] == 0 and eq:
                    out.append(name)
            else:
                succ = fp.SUCCESS_CODE.get(name, 0)
                if (other[1] == succ and not eq) or (other[1] != succ and eq):
                    out.append(name)
    return out


RETPTR = {}


def alloc_failure_on(p, failing):
    return bool(failed_calls(p, failing))


def failed_callee(p, failing, include_codes=False):
    fc = failed_calls(p, failing)
    return fc[0] if fc else None


def halfbuilt(c, chk, f, p, seen):
    """a slot appended by cfg_addval() earlier on this failing path must not stay in the option"""
    adds = [i for i, e in enumerate(p.events) if e.kind == 'call' and e.name == 'cfg_addval' and ow.null_facts(p).get(e.res) is not True
            and e.args and e.args[0][0] != 'alloca']
    if not adds or f.name == 'cfg_addval':
        return
    if f.retty.endswith('*') and p.retval != sym.C0:
        return
    if not f.retty.endswith('*') and not (sym.is_const(p.retval or sym.C0) and (p.retval or sym.C0)[1] != 0):
        return
    i = adds[-1]
    later = p.events[i + 1:]
    undone = any(e.kind == 'store' and e.field == 'nvalues' for e in later) or any(e.kind == 'call' and e.name == 'cfg_free_value' for e in later)
    if not undone:
        key = 'half-built-slot:%s' % f.name
        if key not in seen:
            seen.add(key)
            chk.fail('R18.2', key, c.where(p.events[i].ins), '%s(): an allocation fails after cfg_addval() appended a value slot; the function returns failure but the '
                     'half-built slot stays in the option (a NULL section/string that later code dereferences)' % f.name,
                     witness=['path condition: ' + fp.cond_text(p, 6)] + [repr(x) for x in later[:6]])


def result_used(f, call):
    if not call.res:
        return False
    for ins in f.instrs():
        if ins is call:
            continue
        for o in ins.ops or []:
            if o.kind == 'reg' and o.name == call.res:
                if ins.op == 'call' and ins.is_dbg():
                    continue
                return True
        if ins.op == 'call' and ins.callee is not None and ins.callee.kind == 'reg' and ins.callee.name == call.res:
            return True
    return False


def init_defaults_paths(c, f, ex):
    loops = _cfg.natural_loops(f)
    hdrs = [h for h in loops if not any(h in b and h != h2 for h2, b in loops.items())]
    if len(hdrs) != 1:
        return [p for p in ex.explore(f)]
    return [p for p in ex.explore(f, start=hdrs[0], stop=[hdrs[0]])]


def user_object_released(c, chk, ex):
    """R18.6: the object a parse callback made for a pointer option belongs to the library from then on: on every path
    on which cfg_setopt() does not store it, it is handed to the option's release callback (if there is one)"""
    chk.rule('R18.6', 'an object made by the parse callback is stored in the option or handed to the release callback on every path (also when an allocation fails afterwards)')
    fn = c.need('cfg_setopt')
    paths = [p for p in ex.explore(fn) if p.end == 'ret']
    # the stack slots that receive a user pointer: their content is stored into a value's "ptr" member on some path
    slots = set()
    for p in paths:
        for e in p.events:
            if e.kind == 'store' and e.addr[0] == 'fld' and e.addr[3] in ('ptr', 'string') and sym.object_of(e.addr)[0] != 'alloca' \
                    and e.val[0] == 'ld' and sym.object_of(e.val[1])[0] == 'alloca':
                slots.add(e.val[1])          # a local, or a member of a local record
    n = 0
    bad = None
    for p in paths:
        cb = [e for e in p.events if e.kind == 'call' and e.name == 'indirect:parsecb' and len(e.args) > 3 and e.args[3] in slots]
        if not cb:
            continue
        ok_cb = any(cn[0] == 'icmp' and cb[0].res in (cn[2], cn[3]) and sym.C0 in (cn[2], cn[3]) and ((cn[1] == 'eq') == t) for cn, t, _ in p.assume)
        if not ok_cb:
            continue          # the callback refused: it made nothing
        n += 1
        A = cb[0].args[3]
        stored = any(e.kind == 'store' and e.addr[0] == 'fld' and e.addr[3] in ('ptr', 'string') and e.val[0] == 'ld' and e.val[1] == A for e in p.events)
        released = any(e.kind == 'call' and e.name == 'indirect:freecb' and e.args and e.args[0][0] == 'ld' and e.args[0][1] == A for e in p.events)
        nothing = False
        for cn, t, _ in p.assume:
            na = fp.is_null_assumption(cn, t)
            if na and na[1] and ((na[0][0] == 'ld' and na[0][1] == A) or (na[0][0] == 'ld' and na[0][1][0] == 'fld' and na[0][1][3] == 'freecb')):
                nothing = True
        if not (stored or released or nothing):
            bad = bad or p
    if bad is not None:
        chk.fail('R18.6', 'user-object-dropped', c.where(bad.last_ins), 'cfg_setopt() returns %s on a path where the parse callback has made an object that is neither stored in '
                 'the option nor handed to the release callback (%s): the object is lost' % ('failure' if bad.retval == sym.C0 else 'success', fp.cond_text(bad, 5)))
    elif n:
        chk.ok('R18.6', 'cfg_setopt: %d paths after a successful pointer parse callback' % n, 'object stored, or freecb(object), or no object / no release callback', sample=True)
    chk.floor('R18.6 paths after a pointer parse callback', n, 4)
