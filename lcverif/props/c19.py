"""C19 - print emits each unfiltered option once, in order, at its depth (structural clauses)."""
from .. import outmodel, sym, cfg as _cfg, parsermodel as pm, report

EXPLANATION = (
    'Static analysis of the printing functions in the LLVM IR. One iteration of the option loop of the context printer '
    'is explored symbolically: the per-option printer must be called at most once per iteration, with the element at '
    'the induction variable, which advances by exactly one on every back edge; the skip arm must be exactly "effective '
    'filter non-NULL and it returned non-zero"; the filter handed on is the effective one (own filter, else inherited), '
    'nested sections receive it with indent+1, public entry points pass no filter. In the per-option printer every call '
    'of the built-in value writer must sit on the NULL arm of the print-callback test and every callback call on the '
    'non-NULL arm with the same (option, index, stream); opening line and closing brace of a section are indented with '
    'the current depth; an unset scalar is prefixed with the comment marker. The exact text is not computed.')


MARKS = ('cfg_indent', 'cfg_print_quoted', 'cfg_print_pff_indent', 'cfg_opt_nprint_var', 'indirect:')


def run(c, chk):
    chk.explanation = EXPLANATION
    chk.rule('R19.1', 'one visit per option, in array order: single caller loop, induction +1, skip exactly when the effective filter says so')
    chk.rule('R19.2', 'the effective filter (own, else inherited) is what is applied and handed down; public entry points pass none')
    chk.rule('R19.3', 'a section body is printed one level deeper; its opening line and closing brace use the current depth')
    chk.rule('R19.4', 'a print callback replaces the built-in formatting at every value site')
    chk.rule('R19.5', 'a scalar without a value is written commented out')
    chk.trusted = ['clang/opt IR']
    chk.assumptions = ['output text is not computed; the filter predicate itself is opaque']
    ex = sym.Explorer(c.modules, max_visits=2, mod_sets=c.mod_sets, max_paths=50000)
    pr = c.need('cfg_print_pff_indent')
    op = c.need('cfg_opt_print_pff_indent')

    # ---- R19.1 / R19.2 ----------------------------------------------------------------------
    callers = sorted(set(f.name for f in c.all_funcs() for _ in f.calls('cfg_opt_print_pff_indent')))
    extra = [x for x in callers if x not in ('cfg_print_pff_indent', 'cfg_opt_print_indent', 'cfg_opt_print')]
    if extra:
        chk.fail('R19.1', 'extra-caller:%s' % ','.join(extra), c.where(c.func(extra[0])), 'the per-option printer is also called from %s: an option can be written twice' % extra)
    else:
        chk.ok('R19.1', 'callers of the per-option printer', '%s' % callers)
    loops = _cfg.natural_loops(pr)
    if len(loops) != 1:
        raise report.Broken('cfg_print_pff_indent: expected one loop, found %d' % len(loops))
    h = list(loops)[0]
    # induction: some header phi advances by exactly +1 on every back edge, and it indexes the option array
    ind_ok = False
    for ph in pr.blocks[h].phis():
        inc = [v for v, l in ph.incoming if l in loops[h]]
        if inc and all(v.kind == 'reg' and pr.defs.get(v.name) is not None and pr.defs[v.name].op == 'add'
                       and pr.defs[v.name].ops[0].kind == 'reg' and pr.defs[v.name].ops[0].name == ph.res
                       and pr.defs[v.name].ops[1].kind == 'int' and pr.defs[v.name].ops[1].ival == 1 for v in inc):
            start = [v for v, l in ph.incoming if l not in loops[h]]
            if all(v.kind == 'int' and v.ival == 0 for v in start):
                ind_ok = True
    if not ind_ok:
        chk.fail('R19.1', 'induction', c.where(pr), 'the option loop has no index that starts at 0 and advances by exactly 1 on every back edge: options are skipped or repeated')
    # whole-function exploration, the loop unrolled over the first options: hoisted and in-loop filter
    # selection look the same
    exw = sym.Explorer(c.modules, max_visits=4, mod_sets=c.mod_sets, max_paths=200000)
    n = 0
    good = ind_ok
    for p in exw.explore(pr):
        if p.end != 'ret':
            continue
        n += 1
        conds = [('' if t else '!') + pm.describe_cond(cn) for cn, t, _ in p.assume]
        own = 'cfg->pff' in conds
        inherited = ('!cfg->pff' in conds) and ('fb_pff' in conds)
        nofilter = ('!cfg->pff' in conds) and ('!fb_pff' in conds)
        calls = [e for e in p.events if e.kind == 'call' and e.name == 'cfg_opt_print_pff_indent']
        filt = [e for e in p.events if e.kind == 'call' and e.name.startswith('indirect:')]
        visited = []
        for cn, t, _ in p.assume:
            d = pm.describe_cond(cn)
            mm = None
            if d.endswith('.name') or d.endswith('->name'):
                visited.append((d, t))
        nvis = sum(1 for d, t in visited if t)
        if not calls and not filt:
            continue
        if not (own or inherited or nofilter):
            good = False
            chk.fail('R19.2', 'filter-selection', c.where(pr), 'the print loop does not select its filter from the context\'s own filter and the inherited one (%s)' % ' && '.join(conds[:4]))
            break
        def eff_at(e):
            own_ = inh_ = None
            for cn, t, _ in p.assume[:e.seq]:
                d = pm.describe_cond(cn)
                if d == 'cfg->pff':
                    own_ = t
                elif d == 'fb_pff':
                    inh_ = t
            if own_:
                return 'cfg->pff'
            if own_ is False and inh_:
                return 'fb_pff'
            if own_ is False and inh_ is False:
                return None
            return '?'
        bykey = {}
        order = []
        for e in p.events:
            if e.kind != 'call':
                continue
            if e.name.startswith('indirect:'):
                k = sym.render(e.args[1]) if len(e.args) > 1 else '?'
                bykey.setdefault(k, {'filter': [], 'print': []})['filter'].append(e)
                if k not in order:
                    order.append(k)
                eff = eff_at(e)
                if eff == '?':
                    eff = sym.render(e.addr)
                if eff is None:
                    good = False
                    chk.fail('R19.1', 'filter-null-call', c.where(e.ins), 'a filter is called although neither the context nor its parent has one')
                elif sym.render(e.addr) != eff:
                    good = False
                    chk.fail('R19.2', 'filter-choice', c.where(e.ins), 'the filter applied is %s, expected the effective filter %s (own filter if set, else the inherited one)' % (sym.render(e.addr), eff))
                elif e.args[0] != ('p', 'cfg'):
                    good = False
                    chk.fail('R19.1', 'filter-args', c.where(e.ins), 'the filter is not called with the context being printed')
            elif e.name == 'cfg_opt_print_pff_indent':
                k = sym.render(e.args[0])
                bykey.setdefault(k, {'filter': [], 'print': []})['print'].append(e)
                if k not in order:
                    order.append(k)
                a2 = sym.render(e.args[2])
                eff = eff_at(e)
                if eff == '?':
                    good = False
                    chk.fail('R19.2', 'filter-selection', c.where(e.ins), 'an option is printed before the effective filter has been determined')
                    break
                if not (a2 == (eff or '0') or (eff is None and a2 in ('fb_pff', 'cfg->pff', '0'))):
                    good = False
                    chk.fail('R19.2', 'filter-handed-down', c.where(e.ins), 'the per-option printer receives the filter %s, expected the effective filter %s' % (a2, eff or 'NULL'))
                if e.args[1] != ('p', 'fp') or e.args[3] != ('p', 'indent'):
                    good = False
                    chk.fail('R19.1', 'printer-args', c.where(e.ins), 'the per-option printer is not called with (option, fp, filter, indent)')
        if not good:
            break
        # per visited option
        want_keys = ['cfg->opts' if i == 0 else '&cfg->opts[%d]' % i for i in range(len(order))]
        if order != want_keys[:len(order)]:
            good = False
            chk.fail('R19.1', 'visit-order', c.where(pr), 'options are visited as %s, expected the array order %s' % (order, want_keys[:len(order)]))
            break
        for k in order:
            ent = bykey[k]
            if len(ent['print']) > 1:
                good = False
                chk.fail('R19.1', 'printed-twice', c.where(ent['print'][1].ins), 'option %s is printed twice' % k)
                break
            anyev = (ent['filter'] + ent['print'])[0]
            eff = eff_at(anyev)
            if eff not in (None, '?'):
                if len(ent['filter']) != 1:
                    good = False
                    chk.fail('R19.2', 'filter-ignored', c.where(pr), 'option %s is not shown to the effective filter exactly once (%d calls)' % (k, len(ent['filter'])))
                    break
                fe = ent['filter'][0]
                verdict = None
                odd = None
                for cn, t, _ in p.assume:
                    if cn[0] == 'icmp' and fe.res in (cn[2], cn[3]) and sym.C0 in (cn[2], cn[3]):
                        verdict = ((cn[1] == 'ne') == t)
                    elif cn[0] == 'icmp' and sym.mentions(cn, lambda v: v == fe.res):
                        odd = cn          # the filter's answer is "zero / not zero": any other test of it reads it wrongly
                if odd is not None or verdict is None:
                    good = False
                    chk.fail('R19.1', 'filter-verdict-test', c.where(fe.ins), 'the answer of the print filter is not read as "zero: print, anything else: leave out"%s: '
                             'a filter that answers with a flag bit, a negative value or a comparison result no longer hides its options'
                             % (' (it is tested by %s)' % sym.render(odd) if odd is not None else ' (it is not tested at all)'))
                    break
                if verdict is True and ent['print']:
                    good = False
                    chk.fail('R19.1', 'filtered-printed', c.where(ent['print'][0].ins), 'an option the filter rejected is printed anyway')
                    break
                if verdict is False and not ent['print']:
                    good = False
                    chk.fail('R19.1', 'unfiltered-skipped', c.where(pr), 'an option the effective filter accepts is not printed')
                    break
            elif not ent['print']:
                good = False
                chk.fail('R19.1', 'unfiltered-skipped', c.where(pr), 'without any filter, option %s is not printed' % k)
                break
        if not good:
            break
        # every visited option was handled (no option silently skipped)
        if nvis > len(order):
            good = False
            chk.fail('R19.1', 'option-skipped', c.where(pr), '%d options were seen by the loop but only %d were filtered/printed' % (nvis, len(order)))
            break
    if good:
        chk.ok('R19.1', 'option loop: %d whole-function paths (loop unrolled over the first options)' % n,
               'index 0,1,2,.. in order; each option printed exactly when the effective filter is NULL or returns 0', sample=True)
        chk.ok('R19.2', 'effective filter', 'own filter if set, else the inherited one; the same value is handed to the per-option printer', sample=True)
    chk.floor('R19.1 loop paths', n, 3)
    # every call of the context printer from outside the per-option printer starts with no inherited filter
    nouter = 0
    for f in c.all_funcs():
        if c.owners(f.name) <= {'cfg_opt_print_pff_indent'}:
            continue
        for call in f.calls('cfg_print_pff_indent'):
            nouter += 1
            if call.args[2].kind != 'null':
                chk.fail('R19.2', 'public-filter:%s' % f.name, c.where(call), '%s() does not start with an empty inherited filter' % f.name)
            else:
                chk.ok('R19.2', f.name, 'passes NULL as the inherited filter', nontrivial=False)
    for fname in ('cfg_print', 'cfg_print_indent'):
        if 'cfg_print_pff_indent' not in _cfg.transitive(c.callgraph, [fname]):
            chk.fail('R19.2', 'public-filter:%s' % fname, c.where(c.need(fname)), '%s() does not print through the filtering context printer' % fname)
    chk.floor('R19.2 outer calls of the context printer', nouter, 1)

    # ---- R19.6: inheritance happens at print time only ----------------------------------------------
    chk.rule('R19.6', 'a context\'s own filter is written only by its setter: no section is given a copy of another context\'s filter (inheritance is decided when printing)')
    from ..summaries import store_key
    writers = {}
    for f in c.confuse.funcs.values():
        for ins in f.instrs():
            if ins.op == 'store' and ins.ops[1].kind == 'reg':
                g = f.defs.get(ins.ops[1].name)
                if g is not None and g.op == 'getelementptr' and (g.srcty or '').strip() == '%struct.cfg_t' and len(g.ops) >= 3 and g.ops[2].kind == 'int' \
                        and c.confuse.field_name('%struct.cfg_t', g.ops[2].ival) == 'pff':
                    for o in c.owners(f.name):
                        writers.setdefault(o, ins)
    extra = sorted(set(writers) - {'cfg_set_print_filter_func'})
    if extra:
        chk.fail('R19.6', 'filter-copied:%s' % ','.join(extra), c.where(writers[extra[0]]),
                 '%s() writes a context\'s own print filter: a section that carries a copy of its parent\'s filter keeps applying it after the parent\'s filter was changed or removed' % extra[0])
    elif 'cfg_set_print_filter_func' not in writers:
        raise report.Broken('the print filter setter was not found')
    else:
        chk.ok('R19.6', 'writers of cfg->pff', 'cfg_set_print_filter_func() only')

    filter_setter(c, chk)
    print_func_setter(c, chk)
    layout_by_type(c, chk)
    indent_writer(c, chk)
    builtin_formatter(c, chk)
    if not isinstance(chk, report.SubCheck):
        # R19.11: "a per-option print callback replaces the built-in formatting" - for the option the printer visits, which is a
        # copy of the declared one: the copy carries the callback of the declaration (rule R14.8 of C14)
        from . import c14 as _c14p, c08 as _c08p
        chk.rule('R19.11', 'a print callback set in the schema reaches every context and section instance made from it (rule R14.8 of C14: the duplicator carries every callback member)')
        class _OnlyPf(_c08p.chk_proxy):
            def fail(self, rule, key, *a, **kw):
                if key.endswith(':pf'):        # the other callback members are not this property's business
                    return _c08p.chk_proxy.fail(self, rule, key, *a, **kw)
        _c14p.callbacks_travel(c, _OnlyPf(chk, {'R14.8': 'R19.11'}))
    chk.rule('R19.8', 'a print callback registered by name lands on the option the printer will visit: the name is resolved by cfg_getopt(), not by the schema-template walker')
    spf = c.need('cfg_set_print_func')
    cal = set(x.callee_name() for x in c.deep_calls(spf))
    if 'cfg_getopt' in cal and 'cfg_getopt_array' not in cal:
        chk.ok('R19.8', 'cfg_set_print_func', 'resolves through cfg_getopt() and sets the callback with cfg_opt_set_print_func()')
    else:
        chk.fail('R19.8', 'print-func-resolver', c.where(spf), 'cfg_set_print_func() resolves the option name through %s: for a path through a multi section the callback '
                 'lands on the section template (or nowhere), not on the option of the existing section that cfg_print() visits' % sorted(x for x in cal if x and x.startswith('cfg_getopt')))

    # ---- R19.3 / R19.4 / R19.5 -------------------------------------------------------------------
    ex3 = sym.Explorer(c.modules, max_visits=4 if chk.tier == 'thorough' else 3, mod_sets=c.mod_sets, max_paths=200000)
    paths = [p for p in ex3.explore(op) if p.end == 'ret']
    nested = 0
    nval = 0
    ncb = 0
    nunset = 0
    ok3 = ok4 = ok5 = True
    for p in paths:
        conds = [('' if t else '!') + pm.describe_cond(cn) for cn, t, _ in p.assume]
        ev = p.events
        for i, e in enumerate(ev):
            if e.kind != 'call':
                continue
            if e.name == 'cfg_print_pff_indent':
                nested += 1
                # "once per section instance": the section printed is an instance that exists - its index was shown to be
                # below the number of instances, or the instance itself was tested against NULL
                secv = e.args[0]
                gs = next((x for x in ev[:i] if x.kind == 'call' and x.name == 'cfg_opt_getnsec' and x.res == secv), None)
                exists = False
                for cn, t, _ in p.assume[:e.seq]:
                    na = fp_is_null(cn, t)
                    if na and na[0] == secv and na[1] is False:
                        exists = True
                    if gs is not None and cn[0] == 'icmp' and cn[1] in ('ult', 'uge', 'ugt', 'ule', 'slt', 'sge'):
                        a_, b_ = cn[2], cn[3]
                        lt = (cn[1] in ('ult', 'slt') and t and sym.norm(a_) == sym.norm(gs.args[1])) or (cn[1] in ('uge', 'sge') and not t and sym.norm(a_) == sym.norm(gs.args[1])) \
                            or (cn[1] == 'ugt' and t and sym.norm(b_) == sym.norm(gs.args[1])) or (cn[1] == 'ule' and not t and sym.norm(b_) == sym.norm(gs.args[1]))
                        other = b_ if sym.norm(a_) == sym.norm(gs.args[1]) else a_
                        if lt and (other[0] == 'call' and other[1] == 'cfg_opt_size' or (other[0] == 'ld' and other[1][0] == 'fld' and other[1][3] == 'nvalues')):
                            exists = True
                if gs is not None and not exists:
                    ok3 = False
                    chk.fail('R19.3', 'instance-exists', c.where(e.ins), 'a section body is printed for instance %s of the option without that index having been shown to be below the number of '
                             'instances (and without a NULL test of the instance): an option that holds no section - a CFGF_NODEFAULT section never set, a section that was removed - '
                             'is printed as if it had one' % sym.render(gs.args[1]))
                    break
                if e.args[2] != ('p', 'pff') or e.args[3] != ('bin', 'add', ('p', 'indent'), ('c', 1)) or e.args[1] != ('p', 'fp'):
                    ok3 = False
                    chk.fail('R19.3', 'nested-args', c.where(e.ins), 'a section body is printed with (filter %s, indent %s) instead of (the effective filter, indent+1)'
                             % (sym.render(e.args[2]), sym.render(e.args[3])))
                    break
                # the opening line and the closing brace are preceded by cfg_indent(fp, indent)
                toks = outmodel.tokens(ev, calls=MARKS)
                ti = next(k for k, t in enumerate(toks) if t[0] == 'call' and t[2] is e)
                before, after = toks[:ti], toks[ti + 1:]
                # the opening line: the last cfg_indent() before the body uses the current depth and output follows it
                li = max([k for k, x in enumerate(before) if x[0] == 'call' and x[1] == 'cfg_indent'] or [-1])
                ok_open = li >= 0 and before[li][2].args[1] == ('p', 'indent') and li < len(before) - 1
                ok_close = len(after) >= 2 and after[0][0] == 'call' and after[0][1] == 'cfg_indent' and after[0][2].args[1] == ('p', 'indent') \
                    and outmodel.render(after[1:])[0].startswith('}\n')
                if not (ok_open and ok_close):
                    ok3 = False
                    chk.fail('R19.3', 'section-indent', c.where(e.ins), 'the opening line or the closing brace of a section is not indented with the current depth')
                    break
            last_pf = None
            for cn, t, _ in p.assume[:e.seq]:
                if pm.describe_cond(cn) == 'opt->pf':
                    last_pf = t
            if e.name == 'cfg_opt_nprint_var':
                nval += 1
                if last_pf is not False:
                    ok4 = False
                    chk.fail('R19.4', 'builtin-despite-callback', c.where(e.ins), 'the built-in value writer runs although the option may have a print callback')
                    break
                if e.args[0] != ('p', 'opt') or e.args[2] != ('p', 'fp'):
                    ok4 = False
                    chk.fail('R19.4', 'builtin-args', c.where(e.ins), 'the built-in value writer is called with other arguments than (opt, index, fp)')
                    break
            if e.name == 'indirect:pf':
                ncb += 1
                if last_pf is not True or e.args[0] != ('p', 'opt') or e.args[2] != ('p', 'fp'):
                    ok4 = False
                    chk.fail('R19.4', 'callback-args', c.where(e.ins), 'the print callback is called without its NULL test or with other arguments than (opt, index, fp)')
                    break
        # a list is never written commented out (an empty list must read back as empty, not as the default)
        ptypes = possible_types(c, p)
        if 'opt->flags has LIST' in conds and 'CFGT_SEC' not in ptypes:
            if '# ' in outmodel.render(outmodel.tokens(ev, calls=MARKS))[0]:
                ok5 = False
                chk.fail('R19.5', 'list-commented', c.where(op), 'a list option is written commented out ("# name = {...}"): reading the text back restores the declared default instead of the printed (empty) list')
                break
        # R19.5: scalar, not a section, not a list
        scalar = ('!opt->flags has LIST' in conds) and ptypes and ptypes <= {'CFGT_INT', 'CFGT_FLOAT', 'CFGT_STR', 'CFGT_BOOL', 'CFGT_PTR', 'CFGT_COMMENT'}
        if scalar:
            text = outmodel.render(outmodel.tokens(ev, calls=MARKS))[0]
            unset = any(cn[0] == 'icmp' and cn[2][0] == 'call' and cn[2][1] == 'cfg_opt_size' and cn[3] == sym.C0 and ((cn[1] == 'eq') == t) for cn, t, _ in p.assume) or \
                any(cn[0] == 'icmp' and cn[2][0] == 'call' and cn[2][1] == 'cfg_opt_getnstr' and cn[3] == sym.C0 and ((cn[1] == 'eq') == t) for cn, t, _ in p.assume)
            decided = any(cn[0] == 'icmp' and cn[2][0] == 'call' and cn[2][1] == 'cfg_opt_size' and cn[3] == sym.C0 for cn, t, _ in p.assume)
            if '%s=' in text and not decided:
                ok5 = False
                chk.fail('R19.5', 'unset-undecided', c.where(op), 'a scalar option is written as "name=..." on a path that never asks whether it has a value (%s): '
                         'without a value it is not commented out there' % ' && '.join(conds[-3:]))
                break
            if '%s=' in text:
                if unset:
                    nunset += 1
                    if '# ' not in text or text.index('# ') > text.index('%s='):
                        ok5 = False
                        chk.fail('R19.5', 'unset-not-commented', c.where(op), 'a scalar option without a value is written as if it were set')
                        break
                elif '# ' in text:
                    ok5 = False
                    chk.fail('R19.5', 'set-commented', c.where(op), 'a scalar option that has a value is written commented out')
                    break
    if ok3 and nested:
        chk.ok('R19.3', 'nested section print: %d paths' % nested, 'cfg_print_pff_indent(sec, fp, pff, indent + 1) between cfg_indent(fp, indent)-prefixed opening line and "}"', sample=True)
    if ok4 and nval and ncb:
        chk.ok('R19.4', 'value sites', '%d built-in writer calls all on the pf == NULL arm, %d callback calls on the pf != NULL arm, same (opt, index, fp)' % (nval, ncb), sample=True)
    if ok5 and nunset:
        chk.ok('R19.5', 'unset scalars: %d paths' % nunset, '"# " is written before "name=" exactly when the option has no value / a NULL string', sample=True)
    chk.floor('R19.3 nested print paths', nested, 2)
    chk.floor('R19.4 built-in writer call paths', nval, 3)
    chk.floor('R19.5 unset scalar paths', nunset, 1)
    # static site counts (sibling agreement)
    nb = len(list(c.deep_calls(op, 'cfg_opt_nprint_var')))
    from .c14 import fnptr_field
    npf = len([x for g in c.deep_funcs(op) for x in g.calls() if x.callee_name() is None and fnptr_field(g, x.callee) == 'pf'])
    if npf < nb:
        chk.fail('R19.4', 'sibling-count', c.where(op), '%d built-in value writer sites but only %d print-callback sites' % (nb, npf))
    else:
        chk.ok('R19.4', 'sibling sites', '%d built-in writer sites, %d callback sites' % (nb, npf), nontrivial=False)


def possible_types(c, p, root=('p', 'opt')):
    """the option types the path condition leaves possible for the option being printed"""
    enum = c.confuse.enums.get('cfg_type_t') or {}
    byval = {v: k for k, v in enum.items()}
    left = set(byval)

    def is_type(v):
        while v[0] == 'bin' and v[1] in ('trunc', 'sext', 'zext'):
            v = v[2]
        return v[0] == 'ld' and v[1][0] == 'fld' and v[1][3] == 'type' and v[1][1] == root
    for cn, t, _ in p.assume:
        if cn[0] == 'icmp' and cn[1] in ('eq', 'ne') and sym.is_const(cn[3]) and is_type(cn[2]):
            if (cn[1] == 'eq') == t:
                left &= {cn[3][1]}
            else:
                left.discard(cn[3][1])
        elif cn[0] == 'switch-default' and is_type(cn[1]):
            left -= set(p.neq.get(cn[1]) or ())
    return set(byval[v] for v in left)


def list_commented_out(c):
    """instruction at which a list option can be written commented out, or None"""
    op = c.need('cfg_opt_print_pff_indent')
    ex3 = sym.Explorer(c.modules, max_visits=3, mod_sets=c.mod_sets, max_paths=200000)
    for p in ex3.explore(op):
        if p.end != 'ret':
            continue
        conds = [('' if t else '!') + pm.describe_cond(cn) for cn, t, _ in p.assume]
        if 'opt->flags has LIST' in conds and 'CFGT_SEC' not in possible_types(c, p):
            toks = outmodel.tokens(p.events, calls=MARKS)
            text, index = outmodel.render(toks)
            if '# ' in text:
                return toks[index[text.index('# ')]][-1].ins
    return None


def indent_writer(c, chk):
    """R19.7: cfg_indent(fp, n) writes two blanks per level for EVERY n: a loop that writes "  " once per level, or a
    field-width conversion of the empty string; not a slice of a constant run of blanks (which ends at its length)"""
    chk.rule('R19.7', 'the indentation writer emits two blanks per level at every depth (no upper bound)')
    f = c.need('cfg_indent')
    ex = sym.Explorer(c.modules, max_visits=4, mod_sets=c.mod_sets, max_paths=2000)
    n = 0
    bad = None
    for p in ex.explore(f):
        if p.end != 'ret':
            continue
        toks = outmodel.tokens(p.events)
        text, _ = outmodel.render(toks)
        # how many levels does this path stand for?  the assumption that ends the loop: indent + c == 0
        k = None
        for cn, t, _i in p.assume:
            if cn[0] == 'icmp' and cn[1] in ('eq', 'ne') and cn[3] == sym.C0 and ((cn[1] == 'eq') == t):
                v = cn[2]
                if v == ('p', 'indent'):
                    k = 0
                elif v[0] == 'bin' and v[1] == 'add' and v[2] == ('p', 'indent') and sym.is_const(v[3]):
                    k = -v[3][1]
            if cn[0] == 'icmp' and cn[1] in ('slt', 'sle', 'sgt', 'sge', 'ult', 'ule', 'ugt', 'uge') and sym.mentions(cn, lambda x: x == ('p', 'indent')):
                # counting up: i < indent false with i constant
                other = cn[2] if cn[3] == ('p', 'indent') else cn[3]
                if sym.is_const(other) and ((cn[1] in ('slt', 'ult') and not t and cn[3] == ('p', 'indent')) or
                                            (cn[1] in ('sgt', 'ugt') and not t and cn[2] == ('p', 'indent'))):
                    k = other[1]
        if all(t_[0] == 'lit' for t_ in toks) and set(text) <= {' '} and k is not None:
            n += 1
            if len(text) != 2 * k:
                bad = bad or 'writes %d blank(s) for depth %d' % (len(text), k)
            continue
        # no loop: a single conversion
        fps = [e for e in p.events if e.kind == 'call' and e.name == 'fprintf']
        if len(fps) == 1 and fps[0].args[1][0] == 'str':
            n += 1
            fmt = fps[0].args[1][1]
            a = fps[0].args
            if fmt == '%*s' and len(a) == 4 and a[3] == ('str', '') and a[2] == ('bin', 'mul', ('p', 'indent'), ('c', 2)) or \
                    (fmt == '%*s' and len(a) == 4 and a[3] == ('str', '') and sym.render(a[2]) in ('(indent mul 2)', '(2 mul indent)', '(indent shl 1)')):
                continue
            bad = bad or ('writes the indentation with the single conversion %r: a slice of a constant is limited by the length of that constant '
                          '(deeper levels are all printed at the same depth)' % fmt)
            continue
        if toks:
            bad = bad or 'writes %r, which is not recognised as two blanks per level' % text[:40]
    if bad:
        chk.fail('R19.7', 'indent-writer', c.where(f), 'cfg_indent() ' + bad)
    elif n:
        chk.ok('R19.7', 'cfg_indent: %d paths' % n, 'two blanks per loop iteration, one iteration per level', sample=True)
    chk.floor('R19.7 paths of the indentation writer', n, 2)


def fp_is_null(cn, t):
    from .. import failpaths as _fp
    return _fp.is_null_assumption(cn, t)


def filter_setter(c, chk):
    """R19.6 (second half): "the effective filter": what the application sets is what is in effect - also "none".  The setter
    stores its argument on every path that has a context: refusing NULL would make a filter impossible to remove"""
    fn = c.need('cfg_set_print_filter_func')
    ex = sym.Explorer(c.modules, max_visits=2, mod_sets=c.mod_sets, max_paths=5000)
    n = 0
    bad = None
    for p in ex.explore(fn):
        if p.end != 'ret':
            continue
        nocfg = any((lambda na: na is not None and na[0] == ('p', 'cfg') and na[1])(fp_is_null(cn, t)) for cn, t, _ in p.assume)
        if nocfg:
            continue
        n += 1
        st = [e for e in p.events if e.kind == 'store' and e.field == 'pff' and sym.root_of(e.addr) == ('p', 'cfg')]
        if not st or st[-1].val != ('p', 'pff'):
            bad = bad or p
    if bad is not None:
        from .. import failpaths as _fp
        chk.fail('R19.6', 'filter-not-stored', c.where(fn), 'cfg_set_print_filter_func() can return without having stored its argument in the context (%s): a filter, once set, '
                 'cannot be taken away again (NULL means "no filter of its own: inherit")' % _fp.cond_text(bad, 3))
    elif n:
        chk.ok('R19.6', 'cfg_set_print_filter_func: %d paths with a context' % n, 'each stores the argument, NULL included')
    chk.floor('R19.6 paths of the filter setter', n, 1)


def _printer_uses_pf_for(c, type_value):
    """does some path of the option printer call opt->pf after having found the option to be of this type?"""
    from .. import outmodel
    op = c.need('cfg_opt_print_pff_indent')
    ex = sym.Explorer(c.modules, max_visits=2, mod_sets=c.mod_sets, max_paths=100000)
    for p in ex.explore(op):
        if not any(t[0] == 'call' and t[1] == 'indirect:pf' for t in outmodel.tokens(p.events, calls=('indirect:',))):
            continue
        if any(cn[0] == 'icmp' and cn[1] in ('eq', 'ne') and ((cn[1] == 'eq') == t) and sym.is_const(cn[3]) and cn[3][1] == type_value and
               sym.mentions(cn[2], lambda v: v[0] == 'fld' and len(v) > 3 and v[3] == 'type') for cn, t, _ in p.assume):
            return True
    return False


def print_func_setter(c, chk):
    """R19.10: "options with a print callback are written through it" - for every kind of option: the callback-only layout of
    a function option exists for nothing else.  The setter of the print callback stores its argument for every option it
    is given; an option type it refuses can never be printed through a callback"""
    chk.rule('R19.10', 'cfg_opt_set_print_func() stores the callback for every option it is given (no option type is refused: function options are printed through their callback only)')
    fn = c.need('cfg_opt_set_print_func')
    sec_v = (c.confuse.enums.get('cfg_type_t') or {}).get('CFGT_SEC')
    ex = sym.Explorer(c.modules, max_visits=2, mod_sets=c.mod_sets, max_paths=5000)
    n = 0
    bad = None
    for p in ex.explore(fn):
        if p.end != 'ret':
            continue
        noopt = any((lambda na: na is not None and na[0] == ('p', 'opt') and na[1])(fp_is_null(cn, t)) for cn, t, _ in p.assume)
        if noopt:
            continue
        n += 1
        st = [e for e in p.events if e.kind == 'store' and e.field == 'pf' and sym.root_of(e.addr) == ('p', 'opt')]
        if not st or st[-1].val != ('p', 'pf'):
            # (a section is never written through opt->pf - its options are: refusing that one type takes nothing from the output)
            sec_only = sec_v is not None and any(cn[0] == 'icmp' and cn[1] in ('eq', 'ne') and ((cn[1] == 'eq') == t) and sym.is_const(cn[3]) and cn[3][1] == sec_v and
                                                  sym.mentions(cn[2], lambda v: v[0] == 'fld' and len(v) > 3 and v[3] == 'type') for cn, t, _ in p.assume)
            if sec_only and not _printer_uses_pf_for(c, sec_v):
                continue
            bad = bad or p
    if bad is not None:
        from .. import failpaths as _fp
        chk.fail('R19.10', 'print-func-not-stored', c.where(fn), 'cfg_opt_set_print_func() can return without having stored the callback in the option it was given (%s): '
                 'such an option is never written through a print callback - a function option then disappears from the output altogether' % _fp.cond_text(bad, 3))
    elif n:
        chk.ok('R19.10', 'cfg_opt_set_print_func: %d paths with an option' % n, 'each stores the argument')
    chk.floor('R19.10 paths of the print-callback setter', n, 1)


def layout_by_type(c, chk):
    """R19.5 (completeness): an option that can hold a value is written as "name=value" / "name = {...}" (commented out when
    it has none).  The bare layout - only what a print callback writes, no name - is for the two kinds that never hold a
    value: functions and CFGT_NONE.  Every path that writes it has established that the type is one of those two"""
    from .. import outmodel
    enum = c.confuse.enums.get('cfg_type_t') or {}
    byname = {k.replace('CFGT_', ''): v for k, v in enum.items()}
    valueless = {byname.get('FUNC'), byname.get('NONE')}
    others = set(enum.values()) - valueless
    op = c.need('cfg_opt_print_pff_indent')
    ex = sym.Explorer(c.modules, max_visits=2, mod_sets=c.mod_sets, max_paths=100000)
    n = 0
    bad = None
    for p in ex.explore(op):
        if p.end != 'ret':
            continue
        toks = outmodel.tokens(p.events, calls=('indirect:',))
        text, _ = outmodel.render(toks)
        if '%s' in text or not any(t[0] == 'call' and t[1] == 'indirect:pf' for t in toks):
            continue          # the name is written, or nothing is written through the callback
        n += 1
        ok = False
        excluded = set()
        for cn, t, _ in p.assume:
            if cn[0] == 'icmp' and cn[1] in ('eq', 'ne') and sym.is_const(cn[3]) and sym.mentions(cn[2], lambda v: v[0] == 'fld' and len(v) > 3 and v[3] == 'type'):
                if ((cn[1] == 'eq') == t) and cn[3][1] in valueless:
                    ok = True
                if ((cn[1] == 'ne') == t):
                    excluded.add(cn[3][1])
            if cn[0] == 'switch-default' and sym.mentions(cn[1], lambda v: v[0] == 'fld' and len(v) > 3 and v[3] == 'type'):
                excluded |= set(p.neq.get(cn[1], ()))
        if not ok and not (others <= excluded):
            bad = bad or (p, sorted(others - excluded))
    if bad is not None:
        p, left = bad
        names = {v: k for k, v in enum.items()}
        chk.fail('R19.5', 'bare-layout-for-value-type', c.where(op), 'the per-option printer writes only the callback output, without the option name, on a path where the type can still be %s: '
                 'an option of that type loses its "name=" / "name = {...}" layout (and is not written at all without a callback)' % ', '.join(names.get(x, str(x)) for x in left))
    elif n:
        chk.ok('R19.5', 'bare callback layout: %d paths' % n, 'only for CFGT_FUNC / CFGT_NONE')
    chk.floor('R19.5 paths with the bare callback layout', n, 1)


def builtin_formatter(c, chk):
    """R19.9: "a per-option print callback REPLACES the built-in value formatting": the built-in formatter (the public
    cfg_opt_nprint_var(), which callbacks may - and do - call for the values they do not format themselves) is the fallback
    and never hands a value to a callback itself; the choice between the two is made by the option printer alone"""
    from . import c14
    chk.rule('R19.9', 'the built-in value formatter reaches no user callback (a callback that delegates to it for some values must not be re-entered)')
    f = c.need('cfg_opt_nprint_var')
    n = 0
    bad = None
    for g in c.deep_funcs(f):
        for call in g.calls():
            n += 1
            if call.callee_name() is None and call.callee.kind == 'reg':
                fld = c14.fnptr_field(g, call.callee)
                if not fld.startswith('const:'):
                    bad = bad or (g, call, fld)
    if bad is not None:
        g, call, fld = bad
        chk.fail('R19.9', 'formatter-calls-callback:%s' % fld, c.where(call), 'cfg_opt_nprint_var() calls through the function pointer %s: the built-in formatter hands the value '
                 'back to a user callback, so a print callback that falls back on it for the values it does not format itself recurses without end' % fld)
    else:
        chk.ok('R19.9', 'cfg_opt_nprint_var: %d calls' % n, 'all direct (or through a constant table of built-in writers)', sample=True)
    chk.floor('R19.9 calls in the built-in formatter', n, 1)
