"""Obligation bookkeeping, known-findings matching, evidence and exit codes."""
import json
import os
import sys
import time

VERIF = os.path.dirname(os.path.dirname(os.path.abspath(__file__)))


class Broken(Exception):
    """the analysis itself could not be carried out (exit 2)"""


class Check(object):
    def __init__(self, pid, tier='quick'):
        self.pid = pid
        self.tier = tier
        self.t0 = time.time()
        self.obs = []          # dict(rule, site, ok, detail, key, nontrivial)
        self.viol = []         # dict(rule, key, where, msg, witness)
        self.notes = []
        self.floors = []       # (name, count, floor)
        self.analysed = {}
        self.samples = []
        self.explanation = ''
        self.assumptions = []
        self.trusted = []
        self.extra = {}
        self.rules = {}        # rule id -> one-line statement
        seed = os.environ.get('VERIF_SEED', '0')
        try:
            self.seed = int(seed)
        except ValueError:
            self.seed = 0
        kf = os.path.join(VERIF, 'known_findings.json')
        self.known = []
        self.fixed = []
        if os.path.exists(kf):
            with open(kf) as fh:
                data = json.load(fh)
            self.known = [k for k in data.get('open', []) if k.get('property') == pid]
            self.fixed = [k for k in data.get('fixed', []) if k.get('property') == pid]
        self.known_hit = []

    # -- recording -----------------------------------------------------------
    def rule(self, rid, text):
        self.rules[rid] = text

    def ok(self, rule, site, detail='', nontrivial=True, sample=False):
        self.obs.append({'rule': rule, 'site': site, 'ok': True, 'detail': detail, 'nontrivial': nontrivial})
        if sample and len(self.samples) < 40:
            self.samples.append({'rule': rule, 'site': site, 'verdict': 'discharged', 'witness': detail})

    def fail(self, rule, key, where, msg, witness=None, site=None):
        """an obligation that is violated; key is a stable identifier (names, not lines)"""
        self.obs.append({'rule': rule, 'site': site or where, 'ok': False, 'detail': msg, 'nontrivial': True,
                         'key': key})
        self.viol.append({'rule': rule, 'key': key, 'where': where, 'msg': msg, 'witness': witness})

    def floor(self, name, count, floor):
        """instance-count guard: a rule that matches fewer sites than were
        confirmed by hand on the reference tree is broken, not passing"""
        self.floors.append((name, count, floor))

    def note(self, s):
        self.notes.append(s)

    # -- finishing -----------------------------------------------------------
    def finish(self):
        out = sys.stdout
        pid = self.pid
        broken = [(n, c, f) for n, c, f in self.floors if c < f]
        unlisted = []
        seen_keys = set()
        for v in self.viol:
            kid = (v['rule'], v['key'])
            if kid in seen_keys:
                continue
            seen_keys.add(kid)
            hit = None
            for k in self.known:
                if k.get('rule') == v['rule'] and k.get('key') == v['key']:
                    hit = k
                    break
            if hit is not None:
                self.known_hit.append((v, hit))
            else:
                unlisted.append(v)
        print('== %s (%s tier): %d obligations over %s' % (
            pid, self.tier, len(self.obs),
            ', '.join('%s=%s' % kv for kv in sorted(self.analysed.items()))), file=out)
        byrule = {}
        for o in self.obs:
            r = byrule.setdefault(o['rule'], [0, 0])
            r[0] += 1
            r[1] += 1 if o['ok'] else 0
        for rid in sorted(byrule):
            print('   %-8s %3d/%-3d discharged   %s' % (rid, byrule[rid][1], byrule[rid][0], self.rules.get(rid, '')), file=out)
        for n in self.notes:
            print('   note: ' + n, file=out)
        for v, k in self.known_hit:
            print('KNOWN-FINDING: property=%s [%s %s] %s: %s' % (pid, v['rule'], v['key'], v['where'], v['msg']), file=out)
        stale = [k for k in self.known if not any(k is h for _, h in self.known_hit)]
        for k in stale:
            print('   note: known finding [%s %s] was not observed on this tree (repaired or moved?)' % (k.get('rule'), k.get('key')), file=out)
        rc = 0
        replay_dir = os.path.join(os.environ.get('LCVERIF_EVIDENCE') or os.path.join(VERIF, 'evidence'), 'replay')
        if unlisted:
            os.makedirs(replay_dir, exist_ok=True)
            for n, v in enumerate(unlisted):
                rp = os.path.join(replay_dir, '%s-%d.json' % (pid, n))
                with open(rp, 'w') as fh:
                    json.dump({'property': pid, 'rule': v['rule'], 'rule_text': self.rules.get(v['rule'], ''),
                               'key': v['key'], 'where': v['where'], 'message': v['msg'],
                               'witness': v['witness']}, fh, indent=1, default=str)
                print('%s: [%s] %s' % (v['where'], v['rule'], v['msg']), file=out)
                if v['witness']:
                    w = v['witness']
                    if isinstance(w, (list, tuple)):
                        for line in list(w)[:12]:
                            print('      | %s' % (line,), file=out)
                    else:
                        print('      | %s' % (w,), file=out)
                print('VIOLATION property=%s replay=%s' % (pid, rp), file=out)
            rc = 1
        if broken:
            for n, c, f in broken:
                print('ANALYSIS-BROKEN: %s: rule instance count %d fell below the confirmed floor %d' % (n, c, f), file=out)
            if rc == 0:
                rc = 2
        self._write_evidence(len(unlisted), broken)
        print('== %s: %s (%.2fs)' % (pid, {0: 'PASS', 1: 'VIOLATION', 2: 'ANALYSIS BROKEN'}[rc], time.time() - self.t0), file=out)
        return rc

    def _write_evidence(self, nviol, broken):
        nob = len(self.obs)
        disch = sum(1 for o in self.obs if o['ok'])
        distinct = len(set((o['rule'], str(o['site'])) for o in self.obs if o['nontrivial']))
        samples = list(self.samples)
        if not samples:
            for o in self.obs[:10]:
                samples.append({'rule': o['rule'], 'site': o['site'], 'verdict': 'discharged' if o['ok'] else 'violated',
                                'witness': o['detail']})
        for v, k in self.known_hit[:10]:
            samples.append({'rule': v['rule'], 'site': v['where'], 'verdict': 'known-finding', 'witness': v['msg']})
        ev = {
            'property_id': self.pid,
            'tier': self.tier,
            'seed': self.seed,
            'level': 'other',
            'coverage': {
                'explanation': self.explanation,
                'obligations': nob,
                'discharged': disch,
                'known_findings_reported': len(self.known_hit),
                'evaluations': max(nob, 1),
                'distinct_nontrivial': max(distinct, 0),
                'rule': 'one obligation per (rule, site); a site is a call site, path, DFA state/rule, parser '
                        '(state, token) pair or struct field found in the IR of /repo on this run; non-trivial = '
                        'discharge needed a path, dominance, DFA or call-graph query rather than mere presence',
                'samples': samples,
                'rules': self.rules,
                'per_rule': self._per_rule(),
                'analysed': self.analysed,
                'instance_floors': [{'name': n, 'count': c, 'floor': f} for n, c, f in self.floors],
                'exhaustive': True,
                'checker_cmd': './check %s --tier %s' % (self.pid, self.tier),
                'trusted_base': self.trusted,
            },
            'assumptions': self.assumptions,
            'wall_s': round(time.time() - self.t0, 3),
            'violations': nviol,
        }
        ev['coverage'].update(self.extra)
        st = os.environ.get('LCVERIF_SELFTEST_SUMMARY')
        if st and os.path.exists(st):
            try:
                with open(st) as fh:
                    ev['coverage']['checker_selftest'] = json.load(fh)
            except Exception:
                pass
        d = os.environ.get('LCVERIF_EVIDENCE') or os.path.join(VERIF, 'evidence')
        os.makedirs(d, exist_ok=True)
        tmp = os.path.join(d, '.%s.json.%d' % (self.pid, os.getpid()))
        with open(tmp, 'w') as fh:
            json.dump(ev, fh, indent=1, default=str)
        os.replace(tmp, os.path.join(d, self.pid + '.json'))

    def _per_rule(self):
        out = {}
        for o in self.obs:
            r = out.setdefault(o['rule'], {'obligations': 0, 'discharged': 0})
            r['obligations'] += 1
            r['discharged'] += 1 if o['ok'] else 0
        return out


class SubCheck(object):
    """Runs the rules of another property as ONE rule of this property (a property whose behaviour is built from what
    the other one decides: e.g. the meaning of a text depends on how its strings and numbers are decoded).
    Violations are re-reported under the given rule id; findings that are listed as known for the source property are
    left to that property's own check."""

    def __init__(self, parent, rid, source_pid, only=None):
        self.parent = parent
        self.rid = rid
        self.source = source_pid
        self.only = set(only) if only else None      # restrict to these rules of the source property
        self.tier = parent.tier
        self.noks = 0
        self.nfail = 0
        self.rules = {}
        self.analysed = {}
        self.extra = {}
        self.explanation = ''
        self.assumptions = []
        self.trusted = []
        self.samples = []
        self._known = set()
        kf = os.path.join(VERIF, 'known_findings.json')
        if os.path.exists(kf):
            with open(kf) as fh:
                data = json.load(fh)
            self._known = set((k.get('rule'), k.get('key')) for k in data.get('open', []) if k.get('property') == source_pid)

    def rule(self, rid, text):
        self.rules[rid] = text

    def ok(self, rule, site, detail='', nontrivial=True, sample=False):
        if self.only is None or rule in self.only:
            self.noks += 1

    def fail(self, rule, key, where, msg, witness=None, site=None):
        if (rule, key) in self._known:
            return
        if self.only is not None and rule not in self.only:
            return
        self.nfail += 1
        self.parent.fail(self.rid, '%s:%s:%s' % (self.source, rule, key), where, msg + ' [%s %s]' % (self.source, rule), witness=witness)

    def floor(self, name, count, floor):
        # recorded with the parent, like the parent's own floors: the analysis goes on (a violation found further on is still
        # reported; without one the run ends as analysis-broken)
        import re as _re
        m = _re.match(r'(?:[A-Z]\d+ \(run for [^)]*\): )*(R\d+\.\d+)\b', name)
        if self.only is not None and m and m.group(1) not in self.only:
            return              # the instance count of a rule that is not run for this property
        self.parent.floor('%s (run for %s): %s' % (self.source, self.rid, name), count, floor)

    def note(self, s):
        pass

    def done(self, label):
        if not self.nfail:
            self.parent.ok(self.rid, label, '%d obligations of %s discharged (see evidence/%s.json for their list)' % (self.noks, self.source, self.source), sample=True)
