"""Staging: turn /repo's current working tree into analysable artefacts.

Nothing of the library is executed.  flex regenerates the scanner (twice: the
build's own flags, and -Cf -8 for directly decodable DFA tables), clang emits
LLVM IR at -O0, opt runs mem2reg.  Results are cached under /verif/.cache keyed
by the content hash of every input, so an edited /repo never sees a stale
artefact and 19 checks do not restage 19 times.
"""
import fcntl
import hashlib
import os
import re
import shutil
import subprocess
import sys
import time

from . import ir

VERIF = os.path.dirname(os.path.dirname(os.path.abspath(__file__)))
REPO = os.environ.get('LCVERIF_REPO', '/repo')
CACHE = os.path.join(VERIF, '.cache')
INPUTS = ['src/confuse.c', 'src/confuse.h', 'src/compat.h', 'src/lexer.l']
STAGE_VERSION = '3'  # bump when the IR pipeline changes


class StageError(Exception):
    pass


def _read(p):
    with open(p, 'rb') as fh:
        return fh.read()


def _makefile_flags(repo):
    """preprocessor flags of the library target and flex flags, from src/Makefile.am"""
    txt = _read(os.path.join(repo, 'src/Makefile.am')).decode('latin-1')
    cpp = []
    m = re.search(r'^libconfuse_la_CPPFLAGS\s*=\s*(.*)$', txt, re.M)
    if m:
        cpp += m.group(1).split()
    lflags = ['-Pcfg_yy']
    m = re.search(r'^AM_LFLAGS\s*=\s*(.*)$', txt, re.M)
    if m:
        lflags = [w for w in m.group(1).split() if w.startswith('-') and not w.startswith('-o')]
    return cpp, lflags


def _run(cmd, cwd):
    p = subprocess.run(cmd, cwd=cwd, stdout=subprocess.PIPE, stderr=subprocess.PIPE)
    if p.returncode != 0:
        raise StageError('%s failed (%d):\n%s' % (' '.join(cmd), p.returncode, p.stderr.decode('latin-1')[-4000:]))
    return p


class Stage(object):
    def __init__(self, d, repo):
        self.dir = d
        self.repo = repo
        self._mods = {}

    def path(self, name):
        return os.path.join(self.dir, name)

    def module(self, unit):
        if unit not in self._mods:
            self._mods[unit] = ir.parse_module(self.path(unit + '.ssa.ll'))
        return self._mods[unit]

    @property
    def confuse(self):
        return self.module('confuse')

    @property
    def lexer(self):
        return self.module('lexer')

    def text(self, name):
        return _read(self.path(name)).decode('latin-1')

    def src(self, unit, line):
        """file:line string for reports (lexer.c lines are mapped back to lexer.l)"""
        return '%s:%s' % (unit, line)


def stage(repo=None, need_ast=False):
    repo = repo or REPO
    h = hashlib.sha256()
    h.update(STAGE_VERSION.encode())
    cfgh = os.path.join(repo, 'config.h')
    if not os.path.exists(cfgh):
        cfgh = os.path.join(VERIF, 'support', 'config.h')
    for rel in INPUTS + ['src/Makefile.am']:
        p = os.path.join(repo, rel)
        if not os.path.exists(p):
            raise StageError('missing input %s' % p)
        h.update(rel.encode() + b'\0' + _read(p) + b'\0')
    h.update(_read(cfgh))
    key = h.hexdigest()[:20]
    os.makedirs(CACHE, exist_ok=True)
    d = os.path.join(CACHE, 'stage-' + key)
    lock = open(os.path.join(CACHE, 'lock-' + key), 'w')
    fcntl.flock(lock, fcntl.LOCK_EX)
    try:
        if not os.path.exists(os.path.join(d, 'OK')):
            tmp = d + '.tmp%d' % os.getpid()
            shutil.rmtree(tmp, ignore_errors=True)
            os.makedirs(tmp)
            for rel in INPUTS:
                shutil.copy(os.path.join(repo, rel), tmp)
            shutil.copy(cfgh, os.path.join(tmp, 'config.h'))
            cpp, lflags = _makefile_flags(repo)
            _run(['flex'] + lflags + ['-olexer.c', 'lexer.l'], tmp)
            try:
                _run(['flex', '-Cf', '-8'] + lflags + ['-olexer_full.c', 'lexer.l'], tmp)
            except StageError as e:
                # (REJECT, variable trailing context: flex cannot write full tables.  The IR of the scanner the project
                # builds is still there for the rules that do not need the automaton; the others report the analysis broken)
                with open(os.path.join(tmp, 'lexer_full.err'), 'w') as fh:
                    fh.write(str(e))
            flags = ['-DHAVE_CONFIG_H', '-I.'] + cpp + ['-DLOCALEDIR="/usr/local/share/locale"']
            for u in ('confuse', 'lexer'):
                _run(['clang', '-O0', '-Xclang', '-disable-O0-optnone', '-g', '-S', '-emit-llvm', '-w']
                     + flags + [u + '.c', '-o', u + '.ll'], tmp)
                _run(['opt-14', '-S', '-passes=mem2reg', u + '.ll', '-o', u + '.ssa.ll'], tmp)
                os.unlink(os.path.join(tmp, u + '.ll'))
            with open(os.path.join(tmp, 'OK'), 'w') as fh:
                fh.write(key + '\n')
            shutil.rmtree(d, ignore_errors=True)
            os.rename(tmp, d)
            try:
                _prune(keep=d)
            except OSError:
                pass      # housekeeping only: never let it fail a check
        else:
            try:
                os.utime(os.path.join(d, 'OK'), None)
            except OSError:
                pass
    finally:
        fcntl.flock(lock, fcntl.LOCK_UN)
        lock.close()
    return Stage(d, repo)


def _prune(keep, maxn=300, max_age=900):
    ents = []
    for n in os.listdir(CACHE):
        p = os.path.join(CACHE, n)
        if n.startswith('stage-') and os.path.isdir(p) and '.tmp' not in n:
            try:
                ents.append((os.path.getmtime(os.path.join(p, 'OK')), p))
            except OSError:
                ents.append((0, p))
    ents.sort(reverse=True)
    now = time.time()
    # never remove a stage another concurrent check may still be reading: only old ones go
    for mt, p in ents[6:]:
        if p != keep and (now - mt > max_age or ents.index((mt, p)) >= maxn):
            shutil.rmtree(p, ignore_errors=True)
            try:
                os.unlink(os.path.join(CACHE, 'lock-' + os.path.basename(p)[6:]))
            except OSError:
                pass
    # stale tmp dirs older than 10 minutes
    for n in os.listdir(CACHE):
        p = os.path.join(CACHE, n)
        try:
            # another check may finish (rename away) its temporary directory between the listing and this look
            if '.tmp' in n and time.time() - os.path.getmtime(p) > 600:
                shutil.rmtree(p, ignore_errors=True)
        except OSError:
            pass
