"""Bottom-up function summaries computed from the IR: MOD sets (which struct
fields / globals a function may write, transitively), may-emit-diagnostic,
allocation behaviour.  Field keys are DWARF member names ('flags', 'values',
...) or '@global' names; '*' stands for "anything" (indirect call, unknown
external)."""
from . import cfg as _cfg

# externals that write nothing the rules track (they may write through a
# pointer argument into a buffer, which is modelled at the call site)
EXTERNAL_NOMOD = {
    'malloc', 'calloc', 'realloc', 'reallocarray', 'free', 'strdup', 'strndup', 'strlen', 'strcmp',
    'strcasecmp', 'strncmp', 'strchr', 'strrchr', 'strcspn', 'strspn', 'strcpy', 'strncpy', 'strcat',
    'memcpy', 'memmove', 'memset', 'snprintf', 'sprintf', 'fprintf', 'vfprintf', 'fputs', 'fputc',
    'fwrite', 'fread', 'fopen', 'fclose', 'fmemopen', 'getenv', 'getpwnam', 'getpwuid', 'geteuid',
    'stat', '__xstat', 'strtol', 'strtod', 'strerror', 'dcgettext', 'dgettext', 'bindtextdomain',
    '__ctype_b_loc', 'tolower', 'toupper', 'isatty', 'fileno', 'ferror', 'clearerr', 'getc', '_IO_getc',
    '__errno_location', '__assert_fail', 'abort', 'exit', '__isoc99_sscanf', 'sscanf',
    'llvm.memcpy.p0i8.p0i8.i64', 'llvm.memset.p0i8.i64', 'llvm.memmove.p0i8.p0i8.i64',
    'llvm.va_start', 'llvm.va_end', 'llvm.va_copy', 'llvm.dbg.value', 'llvm.dbg.declare',
}


def store_key(fn, ins):
    """field key written by a store instruction, by walking the address def chain"""
    v = ins.ops[1]
    for _ in range(16):
        if v.kind == 'global':
            return v.name
        if v.kind == 'cexpr':
            b = v.strip_casts()
            return b.name if b.kind == 'global' else '*'
        if v.kind != 'reg':
            return '*'
        d = fn.defs.get(v.name)
        if d is None:
            return '[]'            # store through a parameter pointer
        if d.op == 'getelementptr':
            sty = d.srcty.strip()
            if (sty.startswith('%struct.')) and len(d.ops) >= 3 and d.ops[2].kind == 'int':
                return fn.module.field_name(sty, d.ops[2].ival)
            if d.ops[0].kind == 'global':
                return d.ops[0].name
            v = d.ops[0]
            # array element of a field / pointer: keep walking to name the container
            inner = _container(fn, v)
            return inner
        if d.op == 'bitcast':
            sty = d.ops[0].ty
            if sty.startswith('%union.cfg_value_t') or sty.startswith('%union.cfg_simple_t'):
                return 'value'
            v = d.ops[0]
            continue
        if d.op == 'alloca':
            return 'local:' + d.res
        if d.op == 'load':
            return '[]'
        if d.op == 'phi':
            return '[]'
        if d.op == 'call':
            return '[]'
        return '*'
    return '*'


def _container(fn, v):
    for _ in range(8):
        if v.kind == 'global':
            return v.name
        if v.kind != 'reg':
            return '[]'
        d = fn.defs.get(v.name)
        if d is None:
            return '[]'
        if d.op == 'load':
            a = d.ops[0]
            if a.kind == 'global':
                return a.name + '[]'
            da = fn.defs.get(a.name) if a.kind == 'reg' else None
            if da is not None and da.op == 'getelementptr' and da.srcty.strip().startswith('%struct.') \
                    and len(da.ops) >= 3 and da.ops[2].kind == 'int':
                return fn.module.field_name(da.srcty.strip(), da.ops[2].ival) + '[]'
            return '[]'
        if d.op in ('bitcast', 'getelementptr'):
            v = d.ops[0]
            continue
        if d.op == 'alloca':
            return 'local:' + d.res
        return '[]'
    return '[]'


FRESH_CALLS = {'malloc', 'calloc', 'realloc', 'reallocarray', 'strdup', 'strndup'}


def store_root_is_fresh(fn, ins):
    """the stored-to address lies inside an object this function allocated itself
    (it cannot alias memory that existed before the call)"""
    v = ins.ops[1]
    for _ in range(24):
        if v.kind != 'reg':
            return False
        d = fn.defs.get(v.name)
        if d is None:
            return False
        if d.op in ('getelementptr', 'bitcast'):
            v = d.ops[0]
            continue
        if d.op == 'call':
            return (d.callee_name() or '') in FRESH_CALLS
        if d.op == 'phi':
            # all incoming values fresh (ignoring references back to the phi itself, also through
            # pointer arithmetic: a cursor walking over the function's own buffer)
            phi_name = v.name
            any_fresh = False
            for x in d.ops:
                y = x
                ok = False
                for _ in range(12):
                    if y.kind != 'reg':
                        break
                    if y.name == phi_name:
                        ok = True
                        break
                    dd = fn.defs.get(y.name)
                    if dd is None:
                        break
                    if dd.op in ('bitcast', 'getelementptr'):
                        y = dd.ops[0]
                        continue
                    if dd.op == 'call' and (dd.callee_name() or '') in FRESH_CALLS:
                        ok = True
                        any_fresh = True
                    if dd.op == 'phi' and dd is not d:
                        # nested merge of the same cursor
                        ok = all((z.kind == 'reg' and (z.name == phi_name or _fresh_chain(fn, z, phi_name))) for z in dd.ops)
                    break
                if not ok:
                    return False
            return any_fresh
        return False
    return False


def _fresh_chain(fn, z, phi_name):
    for _ in range(12):
        if z.kind != 'reg':
            return False
        if z.name == phi_name:
            return True
        dd = fn.defs.get(z.name)
        if dd is None:
            return False
        if dd.op in ('bitcast', 'getelementptr'):
            z = dd.ops[0]
            continue
        return dd.op == 'call' and (dd.callee_name() or '') in FRESH_CALLS
    return False


def _root_kind(fn, v, seen=frozenset()):
    """where a pointer value comes from: ('param', k) | ('fresh',) | ('local',) | ('global', name) | ('other',)"""
    for _ in range(32):
        if v.kind == 'global':
            return ('global', v.name)
        if v.kind == 'cexpr':
            b = v.strip_casts()
            return ('global', b.name) if b.kind == 'global' else ('other',)
        if v.kind != 'reg':
            return ('other',)
        d = fn.defs.get(v.name)
        if d is None:
            names = [p.name for p in fn.params]
            return ('param', names.index(v.name)) if v.name in names else ('other',)
        if d.op in ('getelementptr', 'bitcast'):
            v = d.ops[0]
            continue
        if d.op == 'call':
            return ('fresh',) if (d.callee_name() or '') in FRESH_CALLS else ('other',)
        if d.op == 'alloca':
            return ('local',)
        if d.op == 'phi':
            if v.name in seen:
                return None           # a cycle back into a merge we are already resolving
            kinds = set()
            for x in d.ops:
                if x.kind == 'null':
                    continue
                k = _root_kind(fn, x, seen | {v.name})
                if k is not None:
                    kinds.add(k)
            if len(kinds) == 1:
                return kinds.pop()
            return ('other',) if kinds else None
        return ('other',)
    return ('other',)


def mod_sets(mods):
    """{function name: set of keys | None(=anything)} transitively.

    Stores into memory a function allocated itself never count.  Stores through a pointer parameter are
    attributed at each call site: if the caller passes (a pointer into) memory it allocated itself, they do
    not count for the caller either - a helper filling the caller's fresh array modifies nothing that
    existed before the caller ran."""
    funcs = {}
    for m in mods:
        funcs.update(m.funcs)
    direct = {}      # name -> set of (key, rootkind) ; None if wild
    calls = {}       # name -> list of call instructions
    for n, fn in funcs.items():
        s = set()
        cs = []
        wild = False
        for ins in fn.instrs():
            if ins.op == 'store':
                k = store_key(fn, ins)
                if k.startswith('local:'):
                    continue
                rk = _root_kind(fn, ins.ops[1]) or ('other',)
                if rk[0] in ('fresh', 'local'):
                    continue
                s.add((k, rk))
            elif ins.op == 'call' and not ins.is_dbg():
                cn = ins.callee_name()
                if cn is None:
                    wild = True
                else:
                    cs.append(ins)
        direct[n] = None if wild else s
        calls[n] = cs
    res = {n: (None if v is None else set(v)) for n, v in direct.items()}
    changed = True
    while changed:
        changed = False
        for n, fn in funcs.items():
            if res[n] is None:
                continue
            acc = set(res[n])
            for call in calls[n]:
                c_ = call.callee_name()
                if c_ in funcs:
                    if res[c_] is None:
                        acc = None
                        break
                    for key, rk in res[c_]:
                        if rk[0] == 'param':
                            k = rk[1]
                            if k < len(call.args):
                                ak = _root_kind(fn, call.args[k]) or ('other',)
                                if ak[0] in ('fresh', 'local'):
                                    continue
                                acc.add((key, ak if ak[0] in ('param', 'global') else ('other',)))
                            else:
                                acc.add((key, ('other',)))
                        else:
                            acc.add((key, rk))
                elif c_ in EXTERNAL_NOMOD or c_.startswith('llvm.'):
                    continue
                else:
                    acc = None
                    break
            if acc != res[n]:
                res[n] = acc
                changed = True
    out = {}
    for n, v in res.items():
        out[n] = None if v is None else set(k for k, _ in v)
    for c_ in EXTERNAL_NOMOD:
        out.setdefault(c_, set())
    return out


def fresh_returning(mods, base=('malloc', 'calloc', 'realloc', 'reallocarray', 'strdup', 'strndup', 'fopen', 'fmemopen')):
    """functions every non-null return value of which is the result of an allocator or of another
    such function (computed to a fixpoint from the IR; pointer arithmetic on the result does not count)"""
    funcs = {}
    for m in mods:
        funcs.update(m.funcs)
    fresh = set(base)
    changed = True

    def origin(fn, v, seen):
        if v.kind == 'null':
            return {'null'}
        if v.kind != 'reg' or v.name in seen:
            return {'?'} if v.kind != 'reg' else set()
        seen = seen | {v.name}
        d = fn.defs.get(v.name)
        if d is None:
            return {'param'}
        if d.op == 'call':
            return {d.callee_name() or 'indirect'}
        if d.op == 'bitcast':
            return origin(fn, d.ops[0], seen)
        if d.op == 'phi':
            out = set()
            for x in d.ops:
                out |= origin(fn, x, seen)
            return out
        if d.op == 'select':
            return origin(fn, d.ops[1], seen) | origin(fn, d.ops[2], seen)
        return {d.op}
    while changed:
        changed = False
        for n, fn in funcs.items():
            if n in fresh or not fn.retty.endswith('*'):
                continue
            outs = set()
            for ins in fn.instrs():
                if ins.op == 'ret' and ins.ops:
                    outs |= origin(fn, ins.ops[0], set())
            outs.discard('null')
            if outs and all(o in fresh or o == n for o in outs) and any(o in fresh for o in outs) and not _returned_value_kept(fn):
                fresh.add(n)
                changed = True
    return fresh - set(base)


def _returned_value_kept(fn):
    """does the function also store (an alias of) the value it returns into memory other than its own locals?
    Then the object already has an owner (the container it was hung into) and the caller receives a borrowed pointer."""
    def regs_of(v, seen):
        out = set()
        if v.kind != 'reg' or v.name in seen:
            return out
        seen.add(v.name)
        out.add(v.name)
        d = fn.defs.get(v.name)
        if d is not None and d.op in ('bitcast', 'phi', 'select'):
            for x in (d.ops[1:] if d.op == 'select' else d.ops):
                out |= regs_of(x, seen)
        return out
    rets = set()
    for ins in fn.instrs():
        if ins.op == 'ret' and ins.ops:
            rets |= regs_of(ins.ops[0], set())
    # aliases through bitcasts of the same register
    alias = set(rets)
    for ins in fn.instrs():
        if ins.op == 'bitcast' and ins.ops[0].kind == 'reg' and ins.ops[0].name in rets and ins.res:
            alias.add(ins.res)
    for ins in fn.instrs():
        if ins.op == 'store' and ins.ops[0].kind == 'reg' and ins.ops[0].name in alias:
            k = store_key(fn, ins)
            if not k.startswith('local:'):
                return True
    return False


def immutable_fields(mods, candidates=('type',), allowed_writers=(('type', 'cfg_addopt'),)):
    """struct members that no function writes in an object that existed before (apart from the listed
    writer that turns the former end marker of an option array into a new entry): a load of such a
    member is not invalidated by calls, not even by opaque user callbacks (which by contract do not
    edit the schema)"""
    out = set()
    for cand in candidates:
        ok = True
        for m in mods:
            for fn in m.funcs.values():
                for ins in fn.instrs():
                    if ins.op != 'store':
                        continue
                    if store_key(fn, ins) != cand:
                        continue
                    rk = _root_kind(fn, ins.ops[1]) or ('other',)
                    if rk[0] in ('fresh', 'local'):
                        continue
                    if (cand, fn.name) in allowed_writers:
                        continue
                    ok = False
        if ok:
            out.add(cand)
    return out


def field_reads(mods, sty='%struct.cfg_t'):
    """{function: set of member names of `sty` it may load, transitively through direct calls}"""
    own = {}
    calls = {}
    for m in mods:
        for f in m.funcs.values():
            rd = set()
            cs = set()
            for ins in f.instrs():
                if ins.op == 'load' and ins.ops[0].kind == 'reg':
                    g = f.defs.get(ins.ops[0].name)
                    if g is not None and g.op == 'getelementptr' and (g.srcty or '').strip() == sty and len(g.ops) >= 3 and g.ops[2].kind == 'int':
                        rd.add(m.field_name(sty, g.ops[2].ival))
                elif ins.op == 'call' and not ins.is_dbg():
                    n = ins.callee_name()
                    if n:
                        cs.add(n)
            own[f.name] = rd
            calls[f.name] = cs
    out = {n: set(r) for n, r in own.items()}
    changed = True
    while changed:
        changed = False
        for n in out:
            for cal in calls[n]:
                if cal in out and not out[cal] <= out[n]:
                    out[n] |= out[cal]
                    changed = True
    return out
