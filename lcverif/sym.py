"""Path-sensitive conditional constant propagation over the SSA IR.

This is dataflow over an abstract domain, not execution: no input is ever fed
to the code and no solver is involved.  Abstract values are small immutable
tuples:

  ('c', n)                 integer / null constant
  ('str', text)            address of a constant C string
  ('g', '@name')           address of a global
  ('p', name)              opaque parameter / seeded symbol
  ('alloca', reg)          address of a local slot
  ('fld', base, S, field)  address of field `field` of struct S at base
  ('idx', base, i)         address base[i]
  ('ld', addr, ver)        value loaded from addr (ver = write epoch)
  ('call', name, uid)      result of a call
  ('bin', op, a, b), ('icmp', pred, a, b), ('sel', c, a, b), ('undef',)

`explore` enumerates the acyclic paths (loops unrolled a bounded number of
times) of one function from a start block, forking at undecided branches and
remembering each decision so that the same test is answered consistently on a
path.  Every path yields the ordered list of events (calls, stores, returns)
that the property rules query.
"""
import re
from . import cfg as _cfg


_IMM_CACHE = {}
AUTO_INLINE = set()     # helper functions that are always analysed as part of their callers (set by ctx)


class AnalysisIncomplete(Exception):
    pass


C0 = ('c', 0)
C1 = ('c', 1)


def is_const(v):
    return v[0] == 'c'


def _width(ty):
    m = re.match(r'^i(\d+)$', ty or '')
    return int(m.group(1)) if m else None


def _norm(n, w):
    if w is None:
        return n
    n &= (1 << w) - 1
    if w > 1 and n >= (1 << (w - 1)):
        n -= (1 << w)
    return n


UNION_VIEW = {
    # target pointee type -> member of cfg_value_t / cfg_simple_t
    '%struct.cfg_t**': 'section',
    'i8**': 'string',
    'double*': 'fpnumber',
    'i32*': 'boolean',
    'i64*': 'number',
    'i64**': 'number',
    'i32**': 'boolean',
    'double**': 'fpnumber',
    'i8***': 'string',
}

PURE = {'strcmp', 'strcasecmp', 'strncmp', 'strncasecmp', 'strlen', 'strchr', 'strrchr', 'strcspn',
        'strspn', 'strstr', '__ctype_b_loc', 'tolower', 'toupper', 'getenv', 'geteuid',
        'llvm.va_start', 'llvm.va_end', 'llvm.va_copy'}
IDENTITY = {'dcgettext': 1, 'dgettext': 1, 'gettext': 0}


class Event(object):
    __slots__ = ('kind', 'ins', 'name', 'args', 'res', 'addr', 'val', 'in_loop', 'depth', 'fn', 'field', 'seq', 'inlined')

    def __init__(self, kind, ins, **kw):
        self.kind, self.ins = kind, ins
        self.name = self.args = self.res = self.addr = self.val = self.field = None
        self.in_loop = False
        self.depth = 0
        self.fn = None
        self.seq = 0
        self.inlined = False
        for k, v in kw.items():
            setattr(self, k, v)

    @property
    def line(self):
        return self.ins.line if self.ins is not None else None

    def __repr__(self):
        if self.kind == 'call':
            return 'call %s(%s)@%s%s' % (self.name, ', '.join(render(a) for a in self.args), self.line, '*' if self.in_loop else '')
        if self.kind == 'store':
            return 'store %s := %s @%s%s' % (render(self.addr), render(self.val), self.line, '*' if self.in_loop else '')
        if self.kind == 'ret':
            return 'ret %s @%s' % (render(self.val) if self.val else 'void', self.line)
        return '%s@%s' % (self.kind, self.line)


def render(v):
    """human-readable access-path rendering of an abstract value"""
    if v is None:
        return 'void'
    k = v[0]
    if k == 'c':
        return str(v[1])
    if k == 'str':
        return repr(v[1])
    if k == 'g':
        return v[1][1:]
    if k == 'p':
        return v[1]
    if k == 'alloca':
        return '&' + v[1]
    if k == 'fld':
        return '&' + _arrow(v[1]) + v[3]
    if k == 'idx':
        return '&%s[%s]' % (render(v[1]), render(v[2]))
    if k == 'ld':
        a = v[1]
        if a[0] == 'fld':
            return _arrow(a[1]) + a[3]
        if a[0] == 'idx':
            return '%s[%s]' % (render(a[1]), render(a[2]))
        if a[0] == 'g':
            return a[1][1:]
        if a[0] == 'alloca':
            return a[1]
        if a[0] == 'errno':
            return 'errno'
        return '*' + render(a)
    if k == 'call':
        return '%s()#%s' % (v[1], v[2])
    if k == 'bin':
        return '(%s %s %s)' % (render(v[2]), v[1], render(v[3]))
    if k == 'icmp':
        return '(%s %s %s)' % (render(v[2]), v[1], render(v[3]))
    if k == 'sel':
        return '(%s ? %s : %s)' % (render(v[1]), render(v[2]), render(v[3]))
    if k == 'errno':
        return '&errno'
    return k


def _arrow(base):
    r = render(base)
    if r.startswith('&'):
        return r[1:] + '.'
    return r + '->'


def field_of(addr):
    """the struct-field name an address designates (or global / None)"""
    if addr is None:
        return None
    if addr[0] == 'fld':
        return addr[3]
    if addr[0] == 'g':
        return addr[1]
    if addr[0] == 'idx':
        return field_of(addr[1]) or '[]'
    if addr[0] == 'errno':
        return 'errno'
    if addr[0] == 'alloca':
        return addr[1]
    return None


def root_of(v):
    """the base object an address / loaded value hangs off"""
    while True:
        if v[0] in ('fld', 'idx'):
            v = v[1]
        elif v[0] == 'ld':
            v = v[1]
        elif v[0] == 'bin':
            v = v[2]
        else:
            return v


def object_of(v):
    """the object an address lies in: members and elements are stripped, loads are not followed"""
    while v[0] in ('fld', 'idx'):
        v = v[1]
    return v


def reachable_from(a, addrs):
    """is the location `a` part of one of the objects/sub-objects whose addresses are in `addrs` (a itself, or a
    member/element of it)?  A pointer to one member of a record gives no access to its other members."""
    x = a
    while True:
        if x in addrs:
            return True
        if x[0] in ('fld', 'idx'):
            x = x[1]
        else:
            return False


def norm(v):
    """strip the write-epoch from loads so that two reads of the same location compare equal"""
    if not isinstance(v, tuple):
        return v
    if v[0] == 'ld':
        return ('ld', norm(v[1]))
    return tuple(norm(x) if isinstance(x, tuple) else x for x in v)


def mentions(v, pred):
    """does pred hold for some sub-term of v"""
    if pred(v):
        return True
    for x in v[1:]:
        if isinstance(x, tuple) and mentions(x, pred):
            return True
    return False


class State(object):
    __slots__ = ('env', 'mem', 'known', 'neq', 'decided', 'events', 'assume', 'visits',
                 'ver', 'wild', 'prev', 'uid', 'trace', 'escaped')

    def __init__(self):
        self.env = {}
        self.mem = {}
        self.known = {}     # expr -> int
        self.neq = {}       # expr -> frozenset(ints)
        self.decided = {}   # cond expr -> bool
        self.events = []
        self.assume = []    # (expr, bool, ins)
        self.visits = {}
        self.ver = {}       # field key -> epoch
        self.wild = 0
        self.prev = None
        self.uid = [0]
        self.trace = []     # block labels
        self.escaped = frozenset()   # fresh objects that were stored into pre-existing memory

    def fork(self):
        s = State()
        s.env = dict(self.env)
        s.mem = dict(self.mem)
        s.known = dict(self.known)
        s.neq = dict(self.neq)
        s.decided = dict(self.decided)
        s.events = list(self.events)
        s.assume = list(self.assume)
        s.visits = dict(self.visits)
        s.ver = dict(self.ver)
        s.wild = self.wild
        s.prev = self.prev
        s.uid = self.uid
        s.trace = list(self.trace)
        s.escaped = self.escaped
        return s


class Path(object):
    """one explored path: how it ended, its events and assumptions"""

    def __init__(self, st, end, retval=None, stop_label=None, nxt=None, last_ins=None):
        self.events = st.events
        self.assume = st.assume
        self.end = end              # 'ret' | 'stop' | 'unreachable' | 'cut'
        self.retval = retval
        self.stop_label = stop_label
        self.next = nxt or {}       # phi var name -> value at the stop block
        self.known = st.known
        self.neq = st.neq
        self.decided = st.decided
        self.trace = st.trace
        self.last_ins = last_ins
        self.mem = st.mem
        self.env = st.env
        self.ver = st.ver
        self.wild = st.wild
        self.escaped = st.escaped

    def calls(self, name=None):
        return [e for e in self.events if e.kind == 'call' and (name is None or e.name == name)]

    def real_calls(self):
        """call events that were not replaced by their inlined body"""
        return [e for e in self.events if e.kind == 'call' and not e.inlined]

    def stores(self, field=None):
        return [e for e in self.events if e.kind == 'store' and (field is None or e.field == field)]

    def __repr__(self):
        return '<path %s %s ev=%d>' % (self.end, render(self.retval) if self.retval else self.stop_label, len(self.events))


class Explorer(object):
    def __init__(self, modules, inline=(), max_paths=20000, max_visits=2, max_depth=4,
                 mod_sets=None, call_hook=None, pure=(), record_loads=False, once=()):
        self.mods = modules
        # functions of which a path may contain one call only: a second call ends the path (kind 'yield'), like coming
        # back to the head of the enclosing loop does ("fetch the next token" inside a helper that skips comments)
        self.once = set(once)
        self.funcs = {}
        for m in modules:
            for n, f in m.funcs.items():
                self.funcs[n] = f
        self.inline = set(inline) | set(AUTO_INLINE)
        # the thorough tier unrolls every loop once more
        import os as _os
        if _os.environ.get('LCVERIF_TIER') == 'thorough' and max_visits == 2:
            max_visits = 3
            max_paths = max_paths * 20
        self.max_paths = max_paths
        self.max_visits = max_visits
        self.max_depth = max_depth
        self.mod_sets = mod_sets or {}
        self.call_hook = call_hook
        self.pure = set(PURE) | set(pure)
        self.npaths = 0
        self.record_loads = record_loads
        from . import summaries as _summ
        key_ = tuple(id(m) for m in modules)
        if key_ not in _IMM_CACHE:
            _IMM_CACHE[key_] = _summ.immutable_fields(modules)
        self.immutable = _IMM_CACHE[key_]

    # -- value evaluation ----------------------------------------------------
    def string_of(self, val):
        m = getattr(self, '_curmod', None)
        if m is not None:
            return m.string_of(val)
        for m in self.mods:
            s = m.string_of(val)
            if s is not None:
                return s
        return None

    def ev(self, v, st):
        k = v.kind
        if k == 'reg':
            r = st.env.get(v.name)
            if r is None:
                return ('p', v.name)
            return r
        if k == 'int':
            return ('c', _norm(v.ival, _width(v.ty)))
        if k == 'null':
            return C0
        if k == 'global':
            return ('g', v.name)
        if k == 'cexpr':
            b = v.strip_casts()
            if b.kind == 'global':
                s = self.string_of(v)
                if s is not None and v.cop in ('getelementptr', 'bitcast'):
                    # only a pointer to the first byte is a string constant
                    if v.cop == 'getelementptr' and any(a.kind == 'int' and a.ival != 0 for a in v.cargs[1:]):
                        return ('idx', ('str', s), ('c', v.cargs[-1].ival))
                    return ('str', s)
                if v.cop == 'getelementptr':
                    return self._gep_value(self.ev(v.cargs[0], st), v.cargs[0].ty, v.cargs[1:], st)
                return ('g', b.name)
            return ('p', v.text)
        if k in ('undef',):
            return ('undef',)
        if k == 'zero':
            return C0
        if k == 'float':
            return ('f', v.text)
        return ('p', v.text or k)

    def _struct_fields(self, sty, prefer=None):
        # anonymous structs get the same IR name (%struct.anon) in different modules: look in the module of
        # the function being explored first
        if prefer is not None and sty in prefer.structs and prefer.structs[sty] is not None:
            return prefer.structs[sty], prefer
        for m in self.mods:
            if sty in m.structs and m.structs[sty] is not None:
                return m.structs[sty], m
        return None, None

    def _gep_value(self, base, basety, idxs, st, mod=None):
        # basety is a pointer type 'T*'
        cur = basety[:-1].strip() if basety.endswith('*') else basety
        out = base
        first = True
        for ix in idxs:
            iv = self.ev(ix, st)
            if first:
                first = False
                if not (is_const(iv) and iv[1] == 0):
                    out = ('idx', out, iv)
                continue
            if cur.startswith('%struct.') or cur.startswith('%union.'):
                ftys, mod = self._struct_fields(cur, mod)
                if ftys is None or not is_const(iv) or not (0 <= iv[1] < len(ftys)):
                    out = ('idx', out, iv)
                    continue
                k = iv[1]
                fname = mod.field_name(cur, k)
                if cur.startswith('%union.'):
                    fname = 'u%d' % k
                out = ('fld', out, cur[1:].split('.', 1)[1], fname)
                cur = ftys[k].strip()
            elif cur.startswith('['):
                mm = re.match(r'^\[\d+ x (.*)\]$', cur)
                cur = mm.group(1).strip() if mm else 'i8'
                out = ('idx', out, iv)
            elif cur.startswith('{'):
                out = ('idx', out, iv)
            else:
                out = ('idx', out, iv)
        return out

    FRESH = ('calloc', 'malloc', 'realloc', 'reallocarray', 'strdup', 'strndup')

    def _vkey(self, addr):
        """version key of an address: field name + whether the object is a fresh allocation of
        this path (which cannot alias anything reachable from parameters or globals)"""
        f = field_of(addr)
        r = root_of(addr)
        if r[0] == 'call' and r[1] in self.FRESH:
            return (f, r[2])
        return f

    def _version(self, st, addr):
        key = self._vkey(addr)
        if field_of(addr) in self.immutable and addr[0] == 'fld':
            # never written after construction: calls do not invalidate it (explicit stores on the
            # path still go through st.mem)
            return (st.ver.get(('imm', key), 0), 0)
        return (st.ver.get(key, 0), st.wild)

    def _bump(self, st, key):
        st.ver[key] = st.ver.get(key, 0) + 1

    # -- constant folding --------------------------------------------------
    @staticmethod
    def _is_value_slot(v):
        """v is an element of an option's value vector: opt->values[k].  Those are never NULL: cfg_addval() counts a
        slot only after it was allocated (C18 R18.2 'half-built slot' and C07 watch over that)"""
        return v[0] == 'ld' and (
            (v[1][0] == 'idx' and v[1][1][0] == 'ld' and v[1][1][1][0] == 'fld' and v[1][1][1][3] == 'values' and v[1][1][1][2] == 'cfg_opt_t') or
            (v[1][0] == 'ld' and v[1][1][0] == 'fld' and v[1][1][3] == 'values' and v[1][1][2] == 'cfg_opt_t'))

    def _icmp(self, pred, a, b, st):
        if pred in ('eq', 'ne') and b == C0 and self._is_value_slot(a):
            return C0 if pred == 'eq' else C1
        ka = st.known.get(a) if not is_const(a) else a[1]
        kb = st.known.get(b) if not is_const(b) else b[1]
        if a == b and pred in ('eq', 'ule', 'uge', 'sle', 'sge'):
            return C1
        if a == b and pred in ('ne', 'ult', 'ugt', 'slt', 'sgt'):
            return C0
        if ka is not None and kb is not None:
            x, y = ka, kb
            if pred[0] == 'u':
                x &= (1 << 64) - 1
                y &= (1 << 64) - 1
            r = {'eq': x == y, 'ne': x != y, 'slt': x < y, 'sle': x <= y, 'sgt': x > y, 'sge': x >= y,
                 'ult': x < y, 'ule': x <= y, 'ugt': x > y, 'uge': x >= y}[pred]
            return C1 if r else C0
        # address constants are never null
        for x, y in ((a, b), (b, a)):
            if y == C0 and x[0] in ('str', 'g', 'alloca', 'fld', 'errno') and pred in ('eq', 'ne'):
                if x[0] == 'fld' and root_of(x)[0] not in ('g', 'alloca', 'str'):
                    break
                return C0 if pred == 'eq' else C1
        # X vs constant with exclusion facts
        for x, y, p in ((a, kb, pred), (b, ka, pred)):
            if y is not None and p in ('eq', 'ne') and not is_const(x):
                ex = st.neq.get(x)
                if ex and y in ex:
                    return C0 if p == 'eq' else C1
        return ('icmp', pred, a, b)

    def _bin(self, op, a, b, w):
        if is_const(a) and is_const(b):
            x, y = a[1], b[1]
            try:
                r = {'add': x + y, 'sub': x - y, 'mul': x * y, 'and': x & y, 'or': x | y, 'xor': x ^ y,
                     'shl': x << (y & 63), 'lshr': (x & ((1 << (w or 64)) - 1)) >> (y & 63),
                     'ashr': x >> (y & 63)}.get(op)
            except Exception:
                r = None
            if r is None and op in ('sdiv', 'udiv', 'srem', 'urem') and y != 0:
                r = {'sdiv': int(x / y), 'udiv': x // y, 'srem': x - int(x / y) * y, 'urem': x % y}[op]
            if r is not None:
                return ('c', _norm(r, w))
        if op == 'xor' and is_const(b) and b[1] in (1, -1) and a[0] == 'icmp':
            # logical not of a comparison ("!x" compiled as xor i1 %c, true)
            inv_ = {'eq': 'ne', 'ne': 'eq', 'slt': 'sge', 'sge': 'slt', 'sgt': 'sle', 'sle': 'sgt',
                    'ult': 'uge', 'uge': 'ult', 'ugt': 'ule', 'ule': 'ugt'}.get(a[1])
            if inv_:
                return ('icmp', inv_, a[2], a[3])
        if op == 'and' and (b == C0 or a == C0):
            return C0
        if op == 'and' and is_const(a) and not is_const(b):
            a, b = b, a
        if op == 'or' and is_const(a) and not is_const(b):
            a, b = b, a
        if op == 'and' and is_const(b) and a[0] == 'bin' and is_const(a[3]):
            m = b[1]
            if a[1] == 'or':
                if a[3][1] & m == 0:
                    return self._bin('and', a[2], b, w)        # (x | c) & m == x & m  when c & m == 0
                if a[3][1] & m == m:
                    return ('c', _norm(m, w))                  # all tested bits are set
            elif a[1] == 'and':
                return self._bin('and', a[2], ('c', _norm(a[3][1] & m, w)), w)
        if op == 'or' and is_const(b) and a[0] == 'bin' and a[1] == 'or' and is_const(a[3]):
            return self._bin('or', a[2], ('c', _norm(a[3][1] | b[1], w)), w)
        if op in ('add', 'or', 'sub') and b == C0:
            return a
        if op == 'add' and is_const(b) and a[0] == 'bin' and a[1] == 'add' and is_const(a[3]):
            return self._bin('add', a[2], ('c', _norm(a[3][1] + b[1], w)), w)
        if op == 'sub' and is_const(b):
            return self._bin('add', a, ('c', _norm(-b[1], w)), w)
        return ('bin', op, a, b)

    # -- exploration ---------------------------------------------------------
    def explore(self, fn, start=None, env=None, stop=(), known=None, call_results=None,
                state=None, depth=0, prev=None, neq=None, mem=None):
        """enumerate paths of fn from block `start` (default entry).

        env: reg -> abstract value seeds (parameters, phi overrides)
        stop: labels at which a path ends (kind 'stop') when *entered*
              (the start block itself does not stop)
        call_results: {callee_name: [abstract values to fork over]}
        """
        out = []
        st = state or State()
        if state is None:
            for p_ in fn.params:
                if p_.kind == 'reg':
                    st.env[p_.name] = ('p', fn.param_names.get(p_.name, p_.name))
        if state is None and start is not None and start != fn.order[0]:
            # exploring a region: local slots were created in the entry block
            for ins_ in fn.blocks[fn.order[0]].instrs:
                if ins_.op == 'alloca':
                    st.env[ins_.res] = ('alloca', ins_.res)
        if env:
            st.env.update(env)
        if known:
            st.known.update(known)
        if neq:
            for k_, v_ in neq.items():
                st.neq[k_] = frozenset(v_)
        if mem:
            st.mem.update(mem)
        st.prev = prev
        self._loopblocks = getattr(self, '_loopblocks', {})
        lkey = (fn.name, tuple(sorted(stop)))
        if lkey not in self._loopblocks:
            # loops whose header is a stop block enclose the explored region:
            # their bodies are straight-line code from the region's point of view
            self._loopblocks[lkey] = _cfg.in_loop_blocks(fn, exclude_headers=set(stop))
        self._loopblocks[fn.name] = self._loopblocks[lkey]
        start = start or fn.order[0]
        work = [(st, start, 0)]
        stop = set(stop)
        first = True
        while work:
            st, lbl, idx = work.pop()
            self._run_block(fn, st, lbl, idx, stop, out, work,
                            call_results or {}, depth, is_start=first)
            first = False
            if self.npaths > self.max_paths:
                raise AnalysisIncomplete('%s: more than %d paths' % (fn.name, self.max_paths))
        return out

    def _end(self, out, st, kind, **kw):
        self.npaths += 1
        out.append(Path(st, kind, **kw))

    def _run_block(self, fn, st, lbl, idx, stop, out, work, call_results, depth, is_start=False):
        loopblocks = self._loopblocks[fn.name]
        self._curmod = fn.module
        while True:
            blk = fn.blocks[lbl]
            if idx == 0:
                if lbl in stop and not is_start:
                    nxt = {}
                    for ph in blk.phis():
                        for v, l in ph.incoming:
                            if l == st.prev:
                                nxt[fn.var_names.get(ph.res, ph.res)] = self.ev(v, st)
                                nxt[ph.res] = nxt[fn.var_names.get(ph.res, ph.res)]
                    self._end(out, st, 'stop', stop_label=lbl, nxt=nxt)
                    return
                n = st.visits.get(lbl, 0) + 1
                # an iteration that was decided by constants alone (a walk over a constant table: no assumption was added
                # since this block was entered last) is not a choice of the path: it does not count against the bound
                seen_at = st.visits.get(('assume', lbl))
                if seen_at is not None and seen_at == len(st.assume) and st.visits.get(('free', lbl), 0) < 64:
                    st.visits[('free', lbl)] = st.visits.get(('free', lbl), 0) + 1
                    n -= 1
                st.visits[('assume', lbl)] = len(st.assume)
                if n > self.max_visits:
                    self._end(out, st, 'cut', stop_label=lbl)
                    return
                st.visits[lbl] = n
                st.trace.append(lbl)
                # phis are evaluated simultaneously
                newvals = {}
                for ph in blk.phis():
                    got = None
                    for v, l in ph.incoming:
                        if l == st.prev:
                            got = self.ev(v, st)
                            break
                    if got is None:
                        got = st.env.get(ph.res) or ('p', fn.var_names.get(ph.res, ph.res))
                    if is_start and ph.res in st.env:
                        got = st.env[ph.res]
                    newvals[ph.res] = got
                st.env.update(newvals)
            is_start = False
            self._curmod = fn.module
            inloop = lbl in loopblocks
            instrs = blk.instrs
            i = idx
            while i < len(instrs):
                ins = instrs[i]
                op = ins.op
                if op == 'phi':
                    i += 1
                    continue
                if op == 'call':
                    if ins.is_dbg():
                        i += 1
                        continue
                    r = self._do_call(fn, st, ins, inloop, call_results, depth, work, lbl, i, out)
                    if r == 'forked':
                        return
                    i += 1
                    continue
                if op == 'load':
                    addr = self.ev(ins.ops[0], st)
                    self._dereferenced(st, addr)
                    folded = self._const_load(addr, st) if root_of(addr)[0] == 'g' and addr[0] in ('idx', 'fld') else None
                    if folded is None and root_of(addr)[0] == 'g' and addr[0] in ('idx', 'fld'):
                        # one index is not known, the table is small: one path per index value (a state-transition table)
                        unk = self._const_load(addr, st, want_unknown=True)
                        if unk is not None:
                            var, size = unk
                            alts = []
                            for k in range(size):
                                if k in st.neq.get(var, ()):
                                    continue
                                s2 = st.fork()
                                s2.known[var] = k
                                s2.assume.append((('icmp', 'eq', var, ('c', k)), True, ins))
                                v2 = self._const_load(addr, s2)
                                if v2 is None:
                                    alts = None
                                    break
                                s2.env[ins.res] = v2
                                alts.append(s2)
                            if alts:
                                for s2 in alts:
                                    work.append((s2, lbl, i + 1))
                                return
                    if folded is not None:
                        st.env[ins.res] = folded
                    elif addr in st.mem:
                        st.env[ins.res] = st.mem[addr]
                    else:
                        st.env[ins.res] = ('ld', addr, self._version(st, addr))
                    if self.record_loads and root_of(addr)[0] == 'call':
                        st.events.append(Event('load', ins, addr=addr, in_loop=inloop, depth=depth, fn=fn.name, seq=len(st.assume)))
                elif op == 'store':
                    val = self.ev(ins.ops[0], st)
                    addr = self.ev(ins.ops[1], st)
                    self._dereferenced(st, addr)
                    st.mem[addr] = val
                    rv_ = object_of(val) if val[0] in ('alloca', 'fld', 'idx') else None
                    if rv_ is not None and rv_[0] == 'alloca' and object_of(addr)[0] != 'alloca':
                        st.escaped = st.escaped | {val}      # the address of a local (sub)object was stored where others can find it
                    if val[0] == 'call' and val[1] in self.FRESH:
                        r_ = root_of(addr)
                        if not (r_[0] == 'alloca' or (r_[0] == 'call' and r_[1] in self.FRESH and r_ not in st.escaped)):
                            st.escaped = st.escaped | {val}
                    key = field_of(addr)
                    vkey = self._vkey(addr)
                    self._bump(st, vkey)
                    # a store through a pointer kills same-named fields it may alias
                    ra_ = object_of(addr)
                    for a in list(st.mem):
                        if a != addr and a[0] != 'alloca' and self._vkey(a) == vkey:
                            r_ = object_of(a)
                            if r_[0] == 'alloca' and r_ != ra_ and not reachable_from(a, st.escaped):
                                continue      # a member of a local record whose address nobody else has
                            del st.mem[a]
                    st.events.append(Event('store', ins, addr=addr, val=val, in_loop=inloop, field=key,
                                           depth=depth, fn=fn.name, seq=len(st.assume)))
                elif op == 'getelementptr':
                    base = self.ev(ins.ops[0], st)
                    st.env[ins.res] = self._gep_value(base, ins.ops[0].ty, ins.ops[1:], st, getattr(fn, 'module', None))
                elif op == 'bitcast':
                    v = self.ev(ins.ops[0], st)
                    sty = ins.ops[0].ty
                    if sty in ('%union.cfg_value_t*', '%union.cfg_simple_t*') and ins.toty in UNION_VIEW:
                        v = ('fld', v, sty[7:-1], UNION_VIEW[ins.toty])
                    st.env[ins.res] = v
                elif op in ('zext', 'sext', 'trunc'):
                    v = self.ev(ins.ops[0], st)
                    if is_const(v):
                        n = v[1]
                        if op == 'zext':
                            w0 = _width(ins.ops[0].ty)
                            if w0:
                                n &= (1 << w0) - 1
                        v = ('c', _norm(n, _width(ins.toty)))
                    elif op == 'trunc':
                        v = ('bin', 'trunc', v, ('c', _width(ins.toty) or 0))
                    st.env[ins.res] = v
                elif op in ('ptrtoint', 'inttoptr', 'sitofp', 'uitofp', 'fptosi', 'fptoui', 'fpext',
                            'fptrunc', 'addrspacecast', 'freeze'):
                    st.env[ins.res] = self.ev(ins.ops[0], st)
                elif op == 'icmp':
                    a = self.ev(ins.ops[0], st)
                    b = self.ev(ins.ops[1], st)
                    st.env[ins.res] = self._icmp(ins.pred, a, b, st)
                elif op == 'fcmp':
                    st.env[ins.res] = ('icmp', 'f' + ins.pred, self.ev(ins.ops[0], st), self.ev(ins.ops[1], st))
                elif op == 'select':
                    c = self.ev(ins.ops[0], st)
                    c = self._decide_known(c, st)
                    if is_const(c):
                        st.env[ins.res] = self.ev(ins.ops[1] if c[1] else ins.ops[2], st)
                    else:
                        # a select is a branch without a block: fork on it, so that 'x = c ? a : b'
                        # and 'if (c) x = a; else x = b;' are analysed alike
                        s2 = st.fork()
                        self._assume(st, c, True, ins)
                        self._assume(s2, c, False, ins)
                        st.env[ins.res] = self.ev(ins.ops[1], st)
                        s2.env[ins.res] = self.ev(ins.ops[2], s2)
                        work.append((s2, lbl, i + 1))
                elif op == 'alloca':
                    st.env[ins.res] = ('alloca', ins.res if depth == 0 else '%s@%s' % (ins.res, fn.name))   # slots of an inlined callee are its own
                elif op == 'br':
                    if len(ins.targets) == 1:
                        st.prev = lbl
                        lbl, idx = ins.targets[0], 0
                        break
                    c = self._decide_known(self.ev(ins.ops[0], st), st)
                    if is_const(c):
                        st.prev = lbl
                        lbl, idx = (ins.targets[0] if c[1] else ins.targets[1]), 0
                        break
                    # fork
                    s2 = st.fork()
                    self._assume(st, c, True, ins)
                    self._assume(s2, c, False, ins)
                    st.prev = lbl
                    s2.prev = lbl
                    work.append((s2, ins.targets[1], 0))
                    lbl, idx = ins.targets[0], 0
                    break
                elif op == 'switch':
                    v = self.ev(ins.ops[0], st)
                    kv = v[1] if is_const(v) else st.known.get(v)
                    if kv is not None:
                        tgt = ins.default
                        for cval, cl in ins.cases:
                            if cval == kv:
                                tgt = cl
                                break
                        st.prev = lbl
                        lbl, idx = tgt, 0
                        break
                    excluded = st.neq.get(v, frozenset())
                    branches = []
                    for cval, cl in ins.cases:
                        if cval in excluded:
                            continue
                        s2 = st.fork()
                        s2.known[v] = cval
                        s2.assume.append((('icmp', 'eq', v, ('c', cval)), True, ins))
                        s2.prev = lbl
                        branches.append((s2, cl, 0))
                    s3 = st.fork()
                    s3.neq[v] = frozenset(excluded | set(c for c, _ in ins.cases))
                    s3.assume.append((('switch-default', v), True, ins))
                    s3.prev = lbl
                    branches.append((s3, ins.default, 0))
                    for b in branches:
                        work.append(b)
                    return
                elif op == 'ret':
                    rv = self.ev(ins.ops[0], st) if ins.ops else None
                    st.events.append(Event('ret', ins, val=rv, depth=depth, fn=fn.name, seq=len(st.assume)))
                    self._end(out, st, 'ret', retval=rv, last_ins=ins)
                    return
                elif op == 'unreachable':
                    self._end(out, st, 'unreachable', last_ins=ins)
                    return
                elif op in ('va_arg', 'extractvalue', 'insertvalue', 'fneg'):
                    st.uid[0] += 1
                    st.env[ins.res] = ('call', op, st.uid[0])
                else:
                    w = _width(ins.ty)
                    a = self.ev(ins.ops[0], st)
                    b = self.ev(ins.ops[1], st)
                    st.env[ins.res] = self._bin(op, a, b, w)
                i += 1
            else:
                # fell off the block without terminator (should not happen)
                raise AnalysisIncomplete('%s:%s has no terminator' % (fn.name, lbl))

    # -- branch decisions ------------------------------------------------------
    def _decide_known(self, c, st):
        if is_const(c):
            return c
        if c in st.decided:
            return C1 if st.decided[c] else C0
        if c[0] == 'icmp':
            r = self._icmp(c[1], c[2], c[3], st)
            if is_const(r):
                return r
            # negated form decided before?
            inv = {'eq': 'ne', 'ne': 'eq'}.get(c[1])
            if inv:
                c2 = ('icmp', inv, c[2], c[3])
                if c2 in st.decided:
                    return C0 if st.decided[c2] else C1
        if c in st.known:
            return ('c', 1 if st.known[c] else 0)
        return c

    def _assume(self, st, c, truth, ins):
        st.decided[c] = truth
        # a boolean that was materialised as an integer and tested again: (cond != 0) is cond
        def _inner(v):
            # the materialised form of a condition: (zext/sext of) an icmp
            while v[0] == 'bin' and v[1] in ('zext', 'sext', 'trunc') and len(v) > 2:
                v = v[2]
            return v
        while c[0] == 'icmp' and c[1] in ('ne', 'eq') and c[3] == C0 and _inner(c[2])[0] == 'icmp':
            if c[1] == 'eq':
                truth = not truth
            c = _inner(c[2])
            st.decided[c] = truth
        st.assume.append((c, truth, ins))
        if c[0] == 'icmp' and c[1] in ('eq', 'ne'):
            a, b = c[2], c[3]
            if is_const(a):
                a, b = b, a
            if is_const(b):
                if (c[1] == 'eq') == truth:
                    st.known[a] = b[1]
                    self._refine_and(st, a, b[1])
                else:
                    st.neq[a] = frozenset(st.neq.get(a, frozenset()) | {b[1]})
                    # (x != 0) for an i1-like compare chain: icmp ne (icmp ..), 0
                    if a[0] == 'icmp' and b[1] == 0:
                        st.decided[a] = True

    def _const_load(self, addr, st, want_unknown=False):
        """the value read from an element of a constant global table when every index on the way is known on this path
        (want_unknown: instead, (index value, dimension) when exactly one index is unknown and its dimension is at most 16)"""
        unknown = []
        steps = []
        a = addr
        while a[0] in ('idx', 'fld'):
            steps.append(a)
            a = a[1]
        if a[0] != 'g':
            return None
        gname = a[1]
        tree = None
        mod = None
        for m in self.mods:
            g = m.globals.get(gname)
            if g and g.get('const') and g.get('init') and g.get('ty'):
                if '_tree' not in g:
                    from .ir import const_tree
                    try:
                        g['_tree'] = const_tree(g['ty'], g['init'], getattr(m, 'structs', None))
                    except Exception:
                        g['_tree'] = None
                tree, mod = g['_tree'], m
                break
        if tree is None:
            return None
        for s_ in reversed(steps):
            if not isinstance(tree, list):
                return None
            if s_[0] == 'idx':
                i = s_[2]
                k = i[1] if is_const(i) else st.known.get(i)
                if k is None:
                    w = i
                    while w[0] == 'bin' and w[1] in ('sext', 'zext', 'trunc'):
                        w = w[2]
                    k = w[1] if is_const(w) else st.known.get(w)
                if k is None and want_unknown and len(tree) <= 16:
                    unknown.append((w, len(tree)))
                    k = 0
                if k is None or not (0 <= k < len(tree)):
                    return None
                tree = tree[k]
            else:
                names = mod.struct_fields.get('%struct.' + s_[2]) or mod.struct_fields.get('%union.' + s_[2])
                if not names or s_[3] not in names:
                    return None
                k = names.index(s_[3])
                if k >= len(tree):
                    return None
                tree = tree[k]
        if tree is None or isinstance(tree, list):
            return None
        if want_unknown:
            return unknown[0] if len(unknown) == 1 else None
        try:
            return self.ev(tree, st)
        except Exception:
            return None

    def _dereferenced(self, st, addr):
        # the program went through this pointer: on the rest of the path it is not NULL (a later 'if (p)' has one outcome)
        a = addr
        while a[0] in ('fld', 'idx'):
            a = a[1]
        if a is not addr and a[0] in ('p', 'ld', 'call'):
            ex = st.neq.get(a)
            if not ex or 0 not in ex:
                st.neq[a] = frozenset((ex or frozenset()) | {0})

    def _refine_and(self, st, a, k):
        # nothing clever: equality on (x & m) recorded under that expression only
        if a[0] == 'icmp':
            st.decided[a] = bool(k)

    # -- calls -----------------------------------------------------------------
    def _do_call(self, fn, st, ins, inloop, call_results, depth, work, lbl, i, out):
        name = ins.callee_name()
        args = [self.ev(a, st) for a in ins.args]
        indirect = None
        if name is None:
            cv = self.ev(ins.callee, st) if ins.callee.kind == 'reg' else None
            while cv is not None and cv[0] == 'bin' and cv[1] == 'bitcast':
                cv = cv[2]
            indirect = cv
            gname = cv[1].lstrip('@') if cv is not None and cv[0] == 'g' else None
            if gname is not None and (gname in self.funcs or gname in self.mod_sets or gname in self.pure):
                # a function pointer that is one known function on this path (chosen by a select / kept in a local): a direct call
                name = gname
                indirect = None
        if name is None:
            name = 'indirect:' + (field_of(cv[1]) if cv and cv[0] == 'ld' and field_of(cv[1]) else render(cv) if cv else '?')
        if name in self.once and any(e.kind == 'call' and e.name == name for e in st.events):
            self._end(out, st, 'yield', last_ins=ins)
            return 'forked'
        if name in IDENTITY and len(args) > IDENTITY[name]:
            st.env[ins.res] = args[IDENTITY[name]]
            return None
        if name == '__errno_location':
            st.env[ins.res] = ('errno',)
            return None
        if name.startswith('llvm.') and name not in ('llvm.memcpy.p0i8.p0i8.i64', 'llvm.memset.p0i8.i64', 'llvm.memmove.p0i8.p0i8.i64'):
            return None
        st.uid[0] += 1
        uid = st.uid[0]
        ev = Event('call', ins, name=name, args=args, in_loop=inloop, depth=depth, fn=fn.name, seq=len(st.assume))
        if indirect is not None:
            ev.addr = indirect
        st.events.append(ev)
        res = ('call', name, uid)
        ev.res = res
        callee = self.funcs.get(name)
        if callee is not None and name in self.inline and depth < self.max_depth:
            ev.inlined = True
            env = {}
            for p, a in zip(callee.params, args):
                env[p.name] = a
            sub = Explorer.__new__(Explorer)
            sub.__dict__ = self.__dict__
            base_events = len(st.events)
            cst = st.fork()
            saved_env, saved_visits, saved_prev, saved_trace = st.env, st.visits, st.prev, st.trace
            cst.env = env
            cst.visits = {}
            cst.trace = []
            paths = self.explore(callee, env=None, state=cst, depth=depth + 1, call_results=call_results)
            conts = []
            dead = 0
            for p in paths:
                if p.end not in ('ret',):
                    if p.end in ('unreachable', 'yield'):
                        # the callee ends the process here (abort(), a failed assertion): so does the caller's path
                        # (or: the path was ended at a second call of a once-only function)
                        out.append(p)
                        dead += 1
                    continue
                s2 = State()
                s2.env = dict(saved_env)
                s2.mem = dict(p.mem)
                s2.known = dict(p.known)
                s2.neq = dict(p.neq)
                s2.decided = dict(getattr(p, 'decided', None) or st.decided)      # what the callee's branches have settled stays settled
                s2.events = list(p.events)
                # drop callee's 'ret' event marker from the flow but keep it labelled
                s2.assume = list(p.assume)
                s2.visits = dict(saved_visits)
                # the callee's body was explored in place: memory knowledge continues from where its path ended
                s2.ver = dict(p.ver)
                s2.wild = p.wild
                s2.prev = saved_prev
                s2.uid = st.uid
                s2.escaped = p.escaped
                s2.trace = list(saved_trace)
                if ins.res:
                    s2.env[ins.res] = p.retval if p.retval is not None else ('undef',)
                conts.append(s2)
            if not conts and not dead:
                raise AnalysisIncomplete('inlined %s has no returning path' % name)
            for s2 in conts:
                work.append((s2, lbl, i + 1))
            return 'forked'
        # effects on memory knowledge
        if name in self.pure:
            pass
        else:
            mods = self.mod_sets.get(name)
            if mods is None or indirect is not None:
                st.wild += 1
                # forget non-local memory facts (fields of fresh objects that are still private
                # to this path and are not handed to the callee keep their values)
                aroots = set(x for x in args if x[0] in ('alloca', 'fld', 'idx'))
                for a in list(st.mem):
                    r_ = root_of(a)
                    private = r_[0] == 'call' and r_[1] in self.FRESH and r_ not in st.escaped and r_ not in args
                    if private:
                        continue
                    o_ = object_of(a)
                    if a[0] != 'alloca' and o_[0] == 'alloca' and not reachable_from(a, st.escaped) and not reachable_from(a, aroots):
                        continue      # member of a local record the callee cannot reach
                    if a[0] != 'alloca' or any(x == a for x in args):
                        del st.mem[a]
                # out-parameters: allocas passed by address are clobbered
            else:
                for k in mods:
                    self._bump(st, k)
                aroots = set(x for x in args if x[0] in ('alloca', 'fld', 'idx'))
                for a in list(st.mem):
                    r_ = root_of(a)
                    private = r_[0] == 'call' and r_[1] in self.FRESH and r_ not in st.escaped and r_ not in args
                    if private:
                        continue
                    o_ = object_of(a)
                    if a[0] != 'alloca' and o_[0] == 'alloca' and not reachable_from(a, st.escaped) and not reachable_from(a, aroots):
                        continue      # member of a local record the callee cannot reach
                    if field_of(a) in mods or (a[0] == 'alloca' and a in args):
                        del st.mem[a]
            for a in args:
                if a[0] == 'alloca':
                    self._bump(st, a[1])
                    st.mem.pop(a, None)
            if not name.startswith('llvm.'):
                for a in args:
                    if a[0] in ('alloca', 'fld', 'idx') and object_of(a)[0] == 'alloca' and not reachable_from(a, st.escaped):
                        st.escaped = st.escaped | {a}     # the callee may keep the address of this (sub)object
        # any library call may set errno
        if name not in ('__errno_location',) and not name.startswith('llvm.'):
            if ('errno',) in st.mem:
                del st.mem[('errno',)]
            self._bump(st, 'errno')
        if self.call_hook:
            r = self.call_hook(self, st, ev, fn)
            if r is not None:
                res = r
                ev.res = res
        forks = call_results.get(name)
        if forks and ins.res:
            first = True
            for fv in forks:
                if first:
                    first = False
                    continue
                s2 = st.fork()
                s2.env[ins.res] = fv
                s2.events = list(st.events)
                work.append((s2, lbl, i + 1))
            st.env[ins.res] = forks[0]
            return None
        if ins.res:
            st.env[ins.res] = res
        return None


def path_condition(path, limit=6):
    out = []
    for c, t, ins in path.assume[-limit:]:
        out.append(('' if t else '!') + render(c))
    return ' && '.join(out)
