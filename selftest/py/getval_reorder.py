p='src/confuse.c'
s=open(p).read()
a="""	if (index != 0 && !is_set(CFGF_LIST, opt->flags) && !is_set(CFGF_MULTI, opt->flags)) {
		errno = EINVAL;
		return NULL;
	}

	if (opt->simple_value.ptr)
		val = (cfg_value_t *)opt->simple_value.ptr;
	else {
		if (is_set(CFGF_RESET, opt->flags)) {
			cfg_free_value(opt);
			opt->flags &= ~CFGF_RESET;
		}
"""
b="""	if (opt->simple_value.ptr)
		val = (cfg_value_t *)opt->simple_value.ptr;
	else {
		if (is_set(CFGF_RESET, opt->flags)) {
			cfg_free_value(opt);
			opt->flags &= ~CFGF_RESET;
		}
		if (index != 0 && !is_set(CFGF_LIST, opt->flags) && !is_set(CFGF_MULTI, opt->flags)) {
			errno = EINVAL;
			return NULL;
		}
"""
assert a in s
open(p,'w').write(s.replace(a,b))
