# behaviour-preserving: move cfg_parse_boolean() further down in the file
p='src/confuse.c'
s=open(p).read()
a=s.index('DLLIMPORT int cfg_parse_boolean(const char *s)\n{')
b=s.index('static void cfg_init_defaults(cfg_t *cfg)')
fn=s[a:b]
s=s[:a]+'DLLIMPORT int cfg_parse_boolean(const char *s);\n\n'+s[b:]
c=s.index('DLLIMPORT int cfg_opt_setmulti(')
s=s[:c]+fn+s[c:]
open(p,'w').write(s)
