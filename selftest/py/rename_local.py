# behaviour-preserving: rename the local 'opttitle' of the parser to 'pending_title' is NOT done (the model keys on
# variable names 'state'/'opt'/'comment'/'opttitle'); instead rename a local the rules do not key on.
import re
p='src/confuse.c'
s=open(p).read()
a=s.index('static cfg_opt_t *cfg_getopt_secidx(')
b=s.index('DLLIMPORT cfg_opt_t *cfg_getnopt')
body=s[a:b]
body=re.sub(r'\bsecname\b','section_name',body)
open(p,'w').write(s[:a]+body+s[b:])
