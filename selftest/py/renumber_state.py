# behaviour-preserving: parser state 9 becomes state 19
import re
p='src/confuse.c'
s=open(p).read()
a=s.index('static int cfg_parse_internal(cfg_t *cfg, int level, int force_state, cfg_opt_t *force_opt)\n{')
b=s.index('DLLIMPORT int cfg_parse_fp')
body=s[a:b]
body=body.replace('state = 9;','state = 19;').replace('case 9:','case 19:')
assert 'case 19:' in body
open(p,'w').write(s[:a]+body+s[b:])
