p='src/confuse.c'
s=open(p).read()
a="""	if (index + 1 != n) {
		/* not removing last, move the tail */
		memmove(&opt->values[index], &opt->values[index + 1], sizeof(opt->values[index]) * (n - index - 1));
	}
"""
b="""	{
		unsigned int i;

		for (i = index; i + 1 < n; i++)
			opt->values[i] = opt->values[i + 1];
	}
"""
assert a in s
open(p,'w').write(s.replace(a,b))
