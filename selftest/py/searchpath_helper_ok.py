# behaviour-preserving: iterative search that still returns the OLDEST matching directory (last match in a prepended list)
p='src/confuse.c'
s=open(p).read()
a=s.index('DLLIMPORT char *cfg_searchpath(cfg_searchpath_t *p, const char *file)\n{')
b=s.index('DLLIMPORT int cfg_parse(cfg_t *cfg, const char *filename)')
new='''static int cfg_is_regfile(const char *path)
{
	struct stat st;

	if (stat(path, &st) == 0 && S_ISREG(st.st_mode))
		return 1;
	return 0;
}

DLLIMPORT char *cfg_searchpath(cfg_searchpath_t *p, const char *file)
{
	char *fullpath;

	if (!p || !file) {
		errno = EINVAL;
		return NULL;
	}

	if (file[0] == '/') {
		fullpath = strdup(file);
		if (!fullpath)
			return NULL;
		if (cfg_is_regfile(fullpath))
			return fullpath;
		free(fullpath);
		return NULL;
	}

	if ((fullpath = cfg_searchpath(p->next, file)) != NULL)
		return fullpath;

	if ((fullpath = cfg_make_fullpath(p->dir, file)) == NULL)
		return NULL;
	if (cfg_is_regfile(fullpath))
		return fullpath;

	free(fullpath);
	return NULL;
}

'''
open(p,'w').write(s[:a]+new+s[b:])
