/* config.h.  Generated from config.h.in by configure.  */
/* config.h.in.  Generated from configure.ac by autoheader.  */

/* Define to 1 if translation of program messages to the user's native
   language is requested. */
#define ENABLE_NLS 1

/* Define to 1 if you have the Mac OS X function
   CFLocaleCopyPreferredLanguages in the CoreFoundation framework. */
/* #undef HAVE_CFLOCALECOPYPREFERREDLANGUAGES */

/* Define to 1 if you have the Mac OS X function CFPreferencesCopyAppValue in
   the CoreFoundation framework. */
/* #undef HAVE_CFPREFERENCESCOPYAPPVALUE */

/* Define if the GNU dcgettext() function is already present or preinstalled.
   */
#define HAVE_DCGETTEXT 1

/* Define to 1 if you have the <dlfcn.h> header file. */
#define HAVE_DLFCN_H 1

/* Define to 1 if you have the `fmemopen' function. */
#define HAVE_FMEMOPEN 1

/* Define to 1 if you have the `funopen' function. */
/* #undef HAVE_FUNOPEN */

/* Define if the GNU gettext() function is already present or preinstalled. */
#define HAVE_GETTEXT 1

/* Define if you have the iconv() function and it works. */
/* #undef HAVE_ICONV */

/* Define to 1 if you have the <inttypes.h> header file. */
#define HAVE_INTTYPES_H 1

/* Define to 1 if you have the `reallocarray' function. */
#define HAVE_REALLOCARRAY 1

/* Define to 1 if you have the `setenv' function. */
#define HAVE_SETENV 1

/* Define to 1 if you have the <stdint.h> header file. */
#define HAVE_STDINT_H 1

/* Define to 1 if you have the <stdio.h> header file. */
#define HAVE_STDIO_H 1

/* Define to 1 if you have the <stdlib.h> header file. */
#define HAVE_STDLIB_H 1

/* Define to 1 if you have the `strcasecmp' function. */
#define HAVE_STRCASECMP 1

/* Define to 1 if you have the `strdup' function. */
#define HAVE_STRDUP 1

/* Define to 1 if you have the <strings.h> header file. */
#define HAVE_STRINGS_H 1

/* Define to 1 if you have the <string.h> header file. */
#define HAVE_STRING_H 1

/* Define to 1 if you have the `strndup' function. */
#define HAVE_STRNDUP 1

/* Define to 1 if you have the <sys/stat.h> header file. */
#define HAVE_SYS_STAT_H 1

/* Define to 1 if you have the <sys/types.h> header file. */
#define HAVE_SYS_TYPES_H 1

/* Define to 1 if you have the <unistd.h> header file. */
#define HAVE_UNISTD_H 1

/* Define to 1 if you have the `unsetenv' function. */
#define HAVE_UNSETENV 1

/* Define to 1 if you have the <windows.h> header file. */
/* #undef HAVE_WINDOWS_H */

/* Define to 1 if you have the `_putenv' function. */
/* #undef HAVE__PUTENV */

/* Define to the sub-directory where libtool stores uninstalled libraries. */
#define LT_OBJDIR ".libs/"

/* Name of package */
#define PACKAGE "confuse"

/* Define to the address where bug reports for this package should be sent. */
#define PACKAGE_BUGREPORT "https://github.com/martinh/libconfuse/issues"

/* Define to the full name of this package. */
#define PACKAGE_NAME "libConfuse"

/* Define to the full name and version of this package. */
#define PACKAGE_STRING "libConfuse 3.3"

/* Define to the one symbol short name of this package. */
#define PACKAGE_TARNAME "confuse"

/* Define to the home page for this package. */
#define PACKAGE_URL ""

/* Define to the version of this package. */
#define PACKAGE_VERSION "3.3"

/* Define to 1 if all of the C90 standard headers exist (not just the ones
   required in a freestanding environment). This macro is provided for
   backward compatibility; new code need not use it. */
#define STDC_HEADERS 1

/* Version number of package */
#define VERSION "3.3"

/* Define to 1 if `lex' declares `yytext' as a `char *' by default, not a
   `char[]'. */
#define YYTEXT_POINTER 1

/* Define to empty if `const' does not conform to ANSI C. */
/* #undef const */
