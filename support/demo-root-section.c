#include <stdio.h>
#include <string.h>
#include "confuse.h"
/* a multi section whose option name is "root": giving a title again replaces the section; freeing the old
 * instance must not tear the scanner down in the middle of the parse */
int main(void)
{
	cfg_opt_t sec_opts[] = { CFG_INT("v", 0, CFGF_NONE), CFG_END() };
	cfg_opt_t opts[] = { CFG_SEC("root", sec_opts, CFGF_MULTI | CFGF_TITLE), CFG_INT("after", 0, CFGF_NONE), CFG_END() };
	cfg_t *cfg = cfg_init(opts, CFGF_NONE);
	int rc, bad = 0;
	freopen("/dev/null", "r", stdin);
	rc = cfg_parse_buf(cfg, "root \"a\" { v = 1 }\nroot \"a\" { v = 2 }\nafter = 5\n");
	printf("rc=%d after=%ld sections=%u\n", rc, cfg_getint(cfg, "after"), cfg_size(cfg, "root"));
	if (rc != CFG_SUCCESS || cfg_getint(cfg, "after") != 5 || cfg_size(cfg, "root") != 1 || cfg_getint(cfg, "root=a|v") != 2)
		bad = 1;
	cfg_free(cfg);
	printf(bad ? "FAIL\n" : "OK\n");
	return bad;
}
