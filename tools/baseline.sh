#!/bin/bash
# Run the repository's own test suite (make check) on a scratch copy of /repo's
# working tree, never inside /repo itself.  No verification hooks exist in the
# source (guard LIBCONFUSE_VERIF is unused), so this *is* the guard-off baseline.
# usage: tools/baseline.sh [repo-dir]      exit 0 iff all 24 test programs pass
set -u
REPO=${1:-/repo}
D=$(mktemp -d "${TMPDIR:-/tmp}/lcv-baseline.XXXXXX")
trap 'rm -rf "$D"' EXIT
rsync -a --exclude .git "$REPO"/ "$D"/ || exit 2
cd "$D" || exit 2
# stale objects must not hide a change: rebuild the library and the tests
rm -f src/*.o src/*.lo src/*.la src/lexer.c tests/*.o tests/*.log tests/*.trs
find tests -maxdepth 1 -type f -perm -u+x ! -name '*.sh' ! -name '*.c' -exec rm -f {} + 2>/dev/null
make -j"$(nproc)" check >"$D/check.log" 2>&1
rc=$?
grep -E '^(PASS|FAIL|ERROR|XFAIL|XPASS|SKIP):' "$D/check.log" | sort
grep -E '^# (TOTAL|PASS|FAIL|ERROR):' "$D/check.log"
if [ $rc -ne 0 ]; then tail -40 "$D/check.log"; fi
exit $rc
