#!/bin/bash
# tools/confirm_seeded.sh <src-dir-with-patch.diff,demo.c,meta.json> <name>
# Confirms a seeded change independently: (1) with the patch the project's own suite still passes,
# (2) the demo passes on the unchanged tree and fails with the patch; then stores it as /verif/seeded/<name>/.
set -u
SRC=$1; NAME=$2
VERIF=$(cd "$(dirname "$0")/.." && pwd)
D=$(mktemp -d /tmp/lcv-confirm.XXXXXX)
trap 'rm -rf "$D"' EXIT
rsync -a --exclude .git /repo/ "$D/tree"/ || exit 2
(cd "$D/tree" && patch -p1 -s < "$SRC/patch.diff") || { echo "$NAME: patch does not apply"; exit 2; }
(cd "$D/tree" && rm -f src/*.o src/*.lo src/*.la src/lexer.c tests/*.o tests/*.log tests/*.trs && make -j16 check > "$D/check.log" 2>&1)
tests_rc=$?
npass=$(grep -c '^PASS:' "$D/check.log")
build() { # srcdir out
  EXTRA=""
  if [ -f "$SRC/failalloc.h" ]; then mkdir -p "$D/b"; cp "$SRC/failalloc.h" "$D/b/"; EXTRA="-include failalloc.h"; fi   # allocation-failure injection (C18)
  mkdir -p "$D/b" && cp "$1"/src/confuse.c "$1"/src/confuse.h "$1"/src/compat.h "$1"/src/lexer.l /repo/config.h "$SRC/demo.c" "$D/b/" && (cd "$D/b" && flex -Pcfg_yy -olexer.c lexer.l && clang -g -fsanitize=address,undefined -DHAVE_CONFIG_H -I. -D_GNU_SOURCE -DBUILDING_DLL -DLOCALEDIR=\"/x\" -w $EXTRA confuse.c lexer.c demo.c -o "$2") 2>"$D/build.err"
}
build /repo "$D/demo_clean" || { echo "$NAME: demo does not build on the clean tree"; cat "$D/build.err" | head; exit 2; }
build "$D/tree" "$D/demo_mut" || { echo "$NAME: demo does not build on the patched tree"; exit 2; }
(cd "$D" && timeout 60 ./demo_clean >"$D/clean.out" 2>&1); rc_clean=$?
(cd "$D" && timeout 60 ./demo_mut >"$D/mut.out" 2>&1); rc_mut=$?
echo "$NAME: tests rc=$tests_rc pass=$npass; demo clean rc=$rc_clean, patched rc=$rc_mut"
if [ $tests_rc -eq 0 ] && [ $rc_clean -eq 0 ] && [ $rc_mut -ne 0 ]; then
  mkdir -p "$VERIF/seeded/$NAME"
  cp "$SRC/patch.diff" "$SRC/demo.c" "$VERIF/seeded/$NAME/"
  [ -f "$SRC/failalloc.h" ] && cp "$SRC/failalloc.h" "$VERIF/seeded/$NAME/"
  python3 - "$SRC/meta.json" "$VERIF/seeded/$NAME/meta.json" "$npass" "$rc_clean" "$rc_mut" <<'PY'
import json,sys
m=json.load(open(sys.argv[1]))
m['confirmed_by_me']={'ran':'tools/confirm_seeded.sh: patch applied to a scratch copy of /repo; make check; demo built with ASan/UBSan against clean and patched sources',
  'tests_pass_with_patch': int(sys.argv[3]), 'demo_exit_clean': int(sys.argv[4]), 'demo_exit_patched': int(sys.argv[5])}
json.dump(m,open(sys.argv[2],'w'),indent=1)
PY
  echo "   stored as seeded/$NAME"
else
  echo "   NOT confirmed"; tail -3 "$D/mut.out"
fi
