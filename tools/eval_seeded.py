#!/usr/bin/env python3
"""tools/eval_seeded.py <dir-with-patch.diff> [...]
Apply each patch to a scratch copy of /repo's sources, run every claimed check against it, print which fire."""
import concurrent.futures as cf, json, os, re, shutil, subprocess, sys, tempfile
HERE = os.path.dirname(os.path.dirname(os.path.abspath(__file__)))

def run(d):
    patch = os.path.join(d, 'patch.diff')
    t = tempfile.mkdtemp(prefix='lcv-seed-')
    try:
        os.makedirs(os.path.join(t, 'repo', 'src')); os.makedirs(os.path.join(t, 'ev'))
        for f in ('confuse.c', 'confuse.h', 'compat.h', 'lexer.l', 'Makefile.am'):
            shutil.copy(os.path.join('/repo/src', f), os.path.join(t, 'repo', 'src', f))
        shutil.copy('/repo/config.h', os.path.join(t, 'repo', 'config.h'))
        r = subprocess.run(['patch', '-p1', '-s', '-i', patch], cwd=os.path.join(t, 'repo'), stdout=subprocess.PIPE, stderr=subprocess.STDOUT)
        if r.returncode:
            return d, None, 'patch failed: ' + r.stdout.decode()[-200:]
        man = json.load(open(os.path.join(HERE, 'MANIFEST.json')))
        ids = [c['property_id'] for c in man['checks']]
        env = dict(os.environ, LCVERIF_REPO=os.path.join(t, 'repo'), LCVERIF_EVIDENCE=os.path.join(t, 'ev'))
        out = {}
        def one(p):
            r = subprocess.run([os.path.join(HERE, 'check'), p], env=env, stdout=subprocess.PIPE, stderr=subprocess.STDOUT)
            o = r.stdout.decode('latin-1')
            return p, r.returncode, [l for l in o.split('\n') if re.match(r'^\S+: \[R', l) or 'ANALYSIS-BROKEN' in l][:3]
        with cf.ThreadPoolExecutor(8) as ex:
            for p, rc, lines in ex.map(one, ids):
                out[p] = (rc, lines)
        return d, out, None
    finally:
        shutil.rmtree(t, ignore_errors=True)

for d in sys.argv[1:]:
    d, out, err = run(d)
    meta = {}
    try: meta = json.load(open(os.path.join(d, 'meta.json')))
    except Exception: pass
    print('=== %s  [%s] %s' % (d, meta.get('property', '?'), meta.get('summary', '')[:140]))
    if err: print('   ', err); continue
    fired = {p: v for p, v in out.items() if v[0] != 0}
    if not fired: print('    NOT DETECTED by any check')
    for p, (rc, lines) in sorted(fired.items()):
        print('    %s rc=%d %s' % (p, rc, (lines[0][:200] if lines else '')))
