#!/usr/bin/env python3
"""Regenerate MANIFEST.json from the table below (keeps it schema-valid at all times).
A property is claimed iff lcverif/props/<id>.py exists; everything else is listed
under not_applicable with its reason."""
import json
import os

HERE = os.path.dirname(os.path.dirname(os.path.abspath(__file__)))

TRUST = ('Trusted base: flex 2.6.4, clang 14 -O0 + opt-14 mem2reg, the Python checker itself, and the reviewed '
         'reference tables / allow-lists in spec/. One build configuration (this config.h). User callbacks are opaque. ')

P = {
 'C01': dict(
   text='Structural half only: the token state machine extracted from the IR of cfg_parse_internal (states 0-9 x token '
        'classes x option kinds) is compared with the reference grammar in spec/, state closure, the RESET/append '
        'typestate and exhaustiveness of every dispatch on the option type. Also: a new context is complete before code that reads it runs (field REF sets), and the completed option is examined for CFGF_DEPRECATED on every way out of the name state. Values read back through getters are NOT decided. A multi section that is stored always gets a newly built instance (a repeated title replaces), an existing single section is kept (R1.11); under ignore-unknown the language is that of C12 (R1.10). The private copy of the schema carries every declared default over (R1.12 = C16 R16.1); every scan starts in the initial start condition (R1.13 = C08 R8.1).',
   note=TRUST + 'Decides acceptance shape and store/recurse actions per token, not the stored values.',
   tech='parser transition-table extraction by path-sensitive constant propagation over LLVM IR + table comparison',
   ref='DESIGN.md 2/C01',
   na='behavioural equality of parsed values with a reference meaning quantifies over runtime values'),
 'C02': dict(
   text='Decides, for all inputs, the clauses whose truth is in the shape of the code: the flex default rule (echo to stdout) '
        'is unreachable in every start condition (exact, from the DFA); no stdout writer; every process terminator reachable '
        'from a parse is a named justified exception; input-driven recursion is bounded; every returned token value is '
        'provably non-null; scratch-buffer writes sit inside the growth guard; every loop on the parse path makes progress. '
        'General memory safety is not decided. The scanner reader repeats an empty read only after it has seen EINTR (R2.9); on the paths of a boolean option the value slot (possibly the application own 4-byte variable) is written through its 4-byte member only (R2.10). Writes into the option table of a free-form context lie inside what the reallocation on the same path made room for (R2.11); include stack writes are preceded by the depth test (R2.12).',
   note=TRUST + 'spec/terminators.allow.json and spec/recursion.allow.json carry one reviewed reason per exception.',
   tech='DFA reachability over flex tables + call-graph reachability + path-sensitive nullness over LLVM IR',
   ref='DESIGN.md 2/C02'),
 'C03': dict(
   text='The decoding table is checked exhaustively as a static object: for every byte after a backslash and every digit/hex '
        'continuation the winning rule is read from the DFA and its action summary (from the IR) is compared with the escape '
        'table written from the property text; likewise single-quote rules, ${} substitution, unquoted words, comment rules and '
        'totality of every start condition.',
   note=TRUST + 'getenv() and sscanf() arithmetic are trusted; their operands/formats are checked.',
   tech='DFA winner lookup x lexer action summaries (constant propagation over IR) vs reference escape table',
   ref='DESIGN.md 2/C03'),
 'C04': dict(
   text='Call-site discipline around strtol/strtod and the boolean word table: errno cleared before the call, no-digits, '
        'trailing-garbage and ERANGE tests each leading to diagnostic+failure, store only after all tests, radix constants per '
        'prefix guard equal the reference table, boolean words and results equal the reference table. Every value token of a declared option reaches the conversion: the parser table equals the reference automaton for every flag combination (R4.9). The bulk setter hands every token to the conversion beginning with the first (R4.10); the token handed on is the decoded token of the language (R4.11 = C03).',
   note=TRUST + 'strtol/strtod themselves are trusted; numeric results are not computed.',
   tech='path enumeration with must-precede / dominance rules at conversion call sites in LLVM IR',
   ref='DESIGN.md 2/C04'),
 'C05': dict(
   text='Writer/reader agreement only: every byte that opens a non-literal construct inside a double-quoted string according to '
        'the scanner DFA must be escaped by the value printer (from its IR), and every %s placed between quotes by a print format '
        'must pass through the escaping writer. Output is analysed as a stdio-independent token stream (fprintf/fputs/fputc alike); the reader recognises the printed empty list (element counter). Round-trip equality of values is NOT decided. A number print conversion can only produce characters that stay inside one unquoted word of the scanner (R5.8); a section header carries a title exactly on the paths where the option has CFGF_TITLE, the reader criterion (R5.9). Strings are decoded by the reference table (R5.11 = C03) and every scan starts in the initial start condition (R5.10 = C08 R8.1).',
   note=TRUST + 'A necessary condition of the round trip, not the round trip.',
   tech='reader-special byte set from the DFA vs writer-escaped byte set from IR compare/branch structure',
   ref='DESIGN.md 2/C05',
   na='round-trip equality is a statement about runtime values'),
 'C06': dict(
   text='Every failing exit of the parser, of cfg_setopt and of the scanner actions is preceded on its path by a diagnostic '
        '(or is a callback veto / allocation failure, listed); no diagnostic lies on an accepting path; for every scanner rule the '
        'number of line increments on every action path equals the number of newlines the rule can match (DFA x counter); include '
        'push/pop save and restore the same position fields. After a section body the parent takes over the line before anything can report in its name. Section entry hands the parent error function down like file name and line.',
   note=TRUST + 'Decides presence of a diagnostic and the line-count invariant, not the text of the message.',
   tech='path enumeration over IR (must-pass-through cfg_error) + DFA newline counting vs action line increments',
   ref='DESIGN.md 2/C06'),
 'C07': dict(
   text='Per-function ownership analysis on all paths: every allocation is released, returned or stored into memory that '
        'outlives the call on every exit; released owner fields are overwritten; section frees clear the shared search path; '
        'aggregate copies do not duplicate ownership; the parse bracket unwinds the include stack on every exit. A string argument is duplicated before anything of the option is released (R7.8); what the duplicator creates the release function frees (R7.9).',
   note=TRUST + 'Exactly-once across sequences of API calls is not decided; only that no single function drops, double-releases or orphans what it holds.',
   tech='path-sensitive ownership/typestate analysis over LLVM IR',
   ref='DESIGN.md 2/C07'),
 'C08': dict(
   text='Global-state discipline: all mutable globals of both units are enumerated from the IR and each must be reset by the '
        'parse bracket or restored on every exit (start condition, include stack, buffer stack, scratch buffer); no other '
        'mutable global exists in confuse.c. No decision of any function reads errno unless a value was stored into it first on that path (or the preceding call is known to have failed); the library writes only the state bits of an option flag word (R8.8); a refused include leaves the include stack as deep as it found it. Replacing or removing a section never releases the borrowed search path (R8.9); += always clears the reset bit (R8.10).',
   note=TRUST + 'Shows there is no channel through which an earlier parse could influence a later one; does not compare outcomes.',
   tech='global-variable enumeration + must-pass-through reset rules over IR and lexer action summaries',
   ref='DESIGN.md 2/C08'),
 'C09': dict(
   text='Structural clauses: refusals of every public mutator come before any effect (empty MOD set on refusing paths); append '
        'entry points never reach the free-defaults branch with RESET still set; all title comparisons fold case from the same flag '
        'word; results of failing internal setters are not dropped. Equivalence with an abstract store is NOT decided. Every access to a member of a value slot is preceded by a test of the option type for the matching enumerator (R9.10, found cfg_addtsec on a non-section option); no text setter reads ambient errno (R9.11). List calls touch the option only with CFGF_LIST shown (R9.13); by-name calls compare whole names (R9.12).',
   note=TRUST,
   tech='MOD-set effect analysis on failing paths + sibling cross-check over IR',
   ref='DESIGN.md 2/C09',
   na='equivalence with an abstract store over all call sequences is behavioural'),
 'C10': dict(
   text='Effect-before-refusal analysis: on every failing return path of the refusing calls the set of option-state locations '
        'written so far is empty, or a restore block re-establishes each of them from a copy saved before the first effect. The refusals decided elsewhere are obligations here too: title existence (R9.3, R9.7 as R10.5), unresolvable paths (R11.2, R11.5, R11.7 as R10.6), type tests before member access (R10.7). cfg_opt_rmnsec() acts only after index < count without unsigned wrap (R10.8); the pre-set validator judges the value that is stored (R10.9).',
   note=TRUST + 'MOD sets are field-name based (over-approximate).',
   tech='bottom-up MOD summaries + exhaustive failing-path enumeration over IR',
   ref='DESIGN.md 2/C10'),
 'C11': dict(
   text='Single resolver (all by-name public API reaches the one leaf comparison through cfg_getopt_secidx), the resolver is '
        'pure, every cursor loop of the path tokenizer advances on every cycle, out-parameters are defined on every return. '
        'Length-limited name comparisons need an end-of-name test; a read cursor steps only over bytes shown to differ from NUL; index qualifiers must be whole numerals. Agreement with stepwise navigation on instances is NOT decided. No resolver step reads ambient errno (R11.9); an unquoted qualifier ends exactly at the bytes skipped between steps (R11.10). The rules are anchored on the loop that looks a step up, in the resolver or in a helper split off it, or on self-recursion. Length-limited name comparisons test the end of the declared name on the path where they say equal; a title search passes over untitled instances (R11.11).',
   note=TRUST,
   tech='call-graph rules + loop-progress analysis over IR',
   ref='DESIGN.md 2/C11',
   na='agreement of two navigation methods on every tree is behavioural'),
 'C12': dict(
   text='The discard sub-parser (states 10-15) is extracted from the IR as a pushdown transition table and run over every '
        'well-formed unknown item the reference grammar derives up to the bound; each must end in "expecting a name" at the '
        'original level with no error exit. Sections inherit the whole flag word of their context and the flags of a context are final before sections are created. Every skipper state must examine its token. Comments between the tokens of a skipped item are passed over in every skipper state (R12.9). A name is declared only if it equals a declared name as a whole (R12.10); a token-reading helper that calls itself is reported (R12.4).',
   note=TRUST + 'Bounded enumeration of item shapes (nesting/width bounds in the evidence).',
   tech='automaton extraction by constant propagation over IR + exhaustive bounded check of the extracted model',
   ref='DESIGN.md 2/C12'),
 'C13': dict(
   text='Mechanism obligations: include push/pop field agreement, stack-bound guard equals the array length, every failing '
        'return of the include function is diagnosed, parse and include share the resolution idiom, no process exit, include '
        'capacity restored on every exit of the parse bracket. Section entry hands over the search path; the unwinder returns only at the requested level. Equality with inline text is NOT decided. A refused include closes, releases and leaves the stack depth unchanged (R13.10); replacing or removing a section never releases the borrowed search path (R13.11).',
   note=TRUST,
   tech='dominance/guard rules and sibling cross-check over IR',
   ref='DESIGN.md 2/C13',
   na='equality of option values between split and flat text is behavioural'),
 'C14': dict(
   text='Callback call sites are enumerated by the struct field the pointer is loaded from; at each the verdict must be tested '
        'and the non-zero arm must reach the failing return without further effect; exactly one parse-callback per stored value '
        'with the token text; validation after every store before the loop back edge; The argument buffer is emptied after each function call; registration by path reaches the section template, not one instance. pre-set veto dominates the store. Nothing between the store and the validation callback can take the value away again; the pre-set validator is passed over only when there is none. The verdict of a function callback comes out of call_function() unchanged in sign (R14.1); what a parse callback returns is copied before anything is released (R14.9).',
   note=TRUST,
   tech='indirect-call-site enumeration + path rules over IR',
   ref='DESIGN.md 2/C14'),
 'C15': dict(
   text='In the extracted parser table, for every state and both settings of the annotation flag, the comment token must loop '
        'back to the same state with no error and no effect other than replacing the pending annotation; all comment forms return a '
        'well-formed token; annotation attach/release on the value-stored paths. From the name of an option to the store of its value no step releases or replaces the pending annotation (R15.6); a one-line comment action strips only its own marker character (R15.7).',
   note=TRUST,
   tech='parser transition-table extraction over IR + lexer action summaries',
   ref='DESIGN.md 2/C15'),
 'C16': dict(
   text='Deep-copy completeness as a three-way agreement derived from the code: pointer members of the option record (layout) = '
        'fields the duplicator re-creates = fields the release function frees; every store to a context\'s option array takes its value '
        'from the duplicator; After a raw copy of a caller record every owned member ends as NULL or a duplicate of the same member (per path), and is neutralised before the first fallible call. the caller\'s array does not escape. A context flag word, inherited wholesale by every section created in it, is written only while the context is being built (R16.6). A member of the copy is NULL only where the caller record has NULL; the option table grows before it is written (R16.8); sections are removed by the removal API only (R16.9).',
   note=TRUST + 'Function pointers and the simple-value user pointer are shared by design (spec/).',
   tech='record-layout vs dup/free field-set agreement over IR',
   ref='DESIGN.md 2/C16'),
 'C17': dict(
   text='Code-shape clauses: every non-null return of the search is dominated by the regular-file test on the returned pointer and '
        'is a fresh allocation; absolute names skip directory joining; heap buffers handed to string consumers are NUL-terminated '
        'on all paths; prepend-and-recurse-first ordering discipline. Buffer sizes/termination by linear length algebra; getpwnam() receives exactly the text between the tilde and the rest. File-system outcomes are NOT decided. getpwnam() is reached only when the character after the tilde was shown to be neither the terminator nor a slash (R17.10). The whole sequence of resolution calls agrees between parse and include; a successful cfg_add_searchpath() has linked the directory (R17.11).',
   note=TRUST,
   tech='dominance + terminated-buffer dataflow over IR',
   ref='DESIGN.md 2/C17',
   na='file-system outcomes are runtime'),
 'C18': dict(
   text='Error discipline over all allocation sites of confuse.c: result null-checked before use, no x = realloc(x), the null arm '
        'releases what the function acquired and reaches a failing return, failures propagated by callers, no terminator on an '
        'allocation-failure path. A callee that fails (allocation failure included) after the caller started to change the option finds a complete revert (R18.7); a failing include unwinds like any refused include (R18.8). Unwinding never releases a borrowed search path (R18.9).',
   note=TRUST + 'Deliberately ignored results are a frozen list with reasons.',
   tech='allocation-site enumeration + path-sensitive check/unwind/propagate rules over IR',
   ref='DESIGN.md 2/C18'),
 'C19': dict(
   text='Structural clauses: the per-option printer is called only from the single array-order loop; skip condition is exactly '
        'filter-non-null and filter-returns-non-zero; nested calls receive the effective filter and indent+1; each built-in value '
        'writer call sits on the null arm of the print-callback test. Only the setter writes the filter of a context; every scalar print path decides whether a value exists. Exact text is NOT decided. The built-in value formatter reaches no user callback (R19.9). The filter answer is read by a zero test only; a section body is printed only for an instance shown to exist.',
   note=TRUST,
   tech='call-site / argument-provenance rules over IR',
   ref='DESIGN.md 2/C19',
   na='exact output text is a runtime value'),
}


# sentences added after seeding round six and the resolver repairs (kept apart from the table above)
MORE = {
 'C01': ' An existing single section that is kept is not handed to the defaults builder again (R1.11, found and fixed 0495e69). A function call receives exactly the arguments written between its parentheses (R1.14 = C14 R14.4). The end of an included file or of a default-value text leaves the include depth right (R1.15 = C07 R7.6). A free-form key is stored inside the table of its section (R1.16 = C02 R2.11).',
 'C02': ' The parser name lookup never goes on from a path step that did not resolve (R2.13 = C11 R11.7). The scanner the project generates is 8-bit (R2.14 = C03 R3.8); no pointer into a reallocatable option table is kept in a global or a structure member (R2.15 = C07 R7.11); the terminator rule R2.2 needs no automaton and also reports a scanner that cannot grow its buffer (REJECT). Every scan begins in the initial start condition (R2.16 = C08 R8.1); file-name buffers are sized and terminated inside their bounds (R2.17 = C17 R17.4, R17.5, R17.7). Writes into local byte arrays of fixed size lie inside them, a length \'size - used\' needs \'used\' bounded (R2.19); a move measured with strlen() ends at the terminator (R2.20); every scanner buffer has a positive size (R2.18 = C13 R13.16).',
 'C03': ' A copy loop over matched text emits exactly as many bytes as the match is long (R3.7). The table the project\'s own scanner indexes with an input byte has 256 entries (R3.8).',
 'C04': ' After a radix prefix the verdict about the text is the conversion own one: nothing refuses what strtol accepts (R4.12). The conversion is strtol()/strtod() itself, not a wider, narrower or unchecked relative (R4.13). strtoll/strtoq/strtoimax are analysed as strtol on this LP64 target; the by-name bulk setter hands on the whole vector (R4.10).',
 'C05': ' A comment token only replaces the pending annotation (R5.12 = C15 R15.1). A raw %s between single quotes needs proof on that path that the value holds none of the bytes the reader decodes there (R5.2). A section stored again gets its defaults like the first (R5.13 = C01 R1.11); the slot accessor and the indexed setters refuse before they touch the option (R5.14 = C10 R10.1). A scalar that has a value is never written as a comment line (R5.15 = C19 R19.5).',
 'C06': ' cfg_error() delivers every message on each of its paths (R6.6). The buffer entry point hands its argument to the scanner unmoved and nothing reads from a stream ahead of the scanner (R6.7). A not-found result of the lookup that is the NULL of the leaf comparison handed on has been reported too (R6.1; found: a key missing from a free-form section reached by path is rejected in silence - open known finding). An include nested too deeply is refused before anything is pushed (R6.8 = C13 R13.2).',
 'C07': ' No function frees one of its own string parameters (R7.10); every exit of the end-of-file action leaves the include stack pointer at its entry value unless a level was closed (R7.6). No pointer derived from cfg->opts is stored into a global or a structure member that outlives the call (R7.11). Per include level the unwinder pops, the saved file name is released or handed to the context (R7.6); in the parser nothing is read through the slot cfg_setopt() returned after a call that can release the option\'s values (R7.2).',
 'C08': ' Line counting and the file-name hand-over start afresh with every parse (R8.11 = C06 R6.5). Hand-written code begins a source by pushing it on the source stack, never by replacing the current one (R8.12); the file name found in the context on entry is diagnostic text only (R8.13). cfg_free() recognises the root context by its whole name (R8.14 = C09 R9.18).',
 'C09': ' The width fetched per variadic list element is the promoted width of the documented argument type (R9.14). A scalar setter returns the success constant only after the storing routine (R9.15). A value is appended under CFGF_RESET only after the defaults were dropped and the mark cleared (R9.16 = C01 R1.3); the removal API leaves no released pointer in the option (R9.17 = C07 R7.2). Titles and names are compared as whole strings, no prefix tests (R9.18); by-name calls take the instance number as a bounded whole numeral (R9.12 with C11 R11.5).',
 'C10': ' Unconvertible text is refused before the store (R10.10 = the conversion discipline of C04). Every member of the option record that the storing routines write counts as state a revert must restore (members added later included). A title that is only the beginning of an existing one is refused (R10.11 = C09 R9.18).',
 'C11': ' Once the closing quote of a well-formed quoted qualifier was seen the title parser returns a title (R11.12); the name looked up is the whole step (R11.13); an index qualifier has at least one digit and reaches the 32-bit accessor only below a bound (R11.5); the byte behind a qualifier was shown to be the separator or the end (R11.14); a path ending in a separator does not resolve (R11.15) - the last three found four defects, fixed 91d5190. A case-folding comparison of a name or title lies behind a test of the CFGF_NOCASE bit itself (R11.16). A title qualifier is compared under the same case rule as every other title comparison (R11.17 = C09 R9.3). A qualifier picks an instance only of a CFGF_MULTI section (R11.18); the relatives of strtol are held to the demands of R11.5.',
 'C12': ' The name state equals the reference automaton under every flag combination (R12.11 = C01 R1.1). With the flag set the name lookup reports nothing (R12.12); the skipper simulation carries the NULL current option, so ordinary states entered while skipping are judged as skipper states (R12.5). No scanner or parser state outlives a refused text (R12.13 = C08 R8.0). The rejection of an undeclared item inside a section reaches the error function (R12.14 = C06 R6.5); what the parser keeps about a skipped item in a local array stays inside it (R12.15 = C02 R2.19).',
 'C13': ' Every entry into a section body hands over file name, line and error function (R13.12); the unwinder is given the level the parse started at (R13.6). No include budget survives a parse: every mutable global falls under a reset discipline (R13.13 = C08 R8.0). After a parse refused inside an included file nothing is released twice (R13.14 = C07 R7.2); a token read after the end of an included file has a value (R13.15 = C02 R2.4). Every scanner buffer is created with a positive size, the empty include file included (R13.16).',
 'C14': ' No decision reads errno after a user callback ran on the path without a store in between (R14.10). Registration by path compares whole names, case-folding only under CFGF_NOCASE (R14.11 = C11 R11.1, R11.16). The validation callback of a section runs only after the result of parsing its body was looked at (R14.3).',
 'C15': ' The comment getter finds its option through the one resolver (R15.8 = C11 R11.1). A comment leaves no scanner state behind (R15.9 = C08 R8.0). Dropping old values under CFGF_RESET keeps the annotation (R15.10 = C10 R10.4); every function that fetches tokens passes over a comment token (R15.11). The comment token carries the reference text (R15.12 = C03 R3.5).',
 'C16': ' A section is handed to the defaults builder exactly on the paths that created it (R16.10); every scan begins in the initial start condition (R16.11 = C08 R8.1). Nothing but the context holds a pointer into its private option table (R16.12 = C07 R7.11). Removing or replacing an instance never releases the search path the instances share (R16.13 = C07 R7.3); the print filter in force for an instance is its own or the inherited one (R16.14 = C19 R19.2).',
 'C17': ' Every registered directory is tried until one yields a regular file: the search leaves early only with a result (R17.12). Existing search-path entries are never relinked (R17.2); name resolution keeps no memory (R17.14 = C08 R8.0). Replacing or removing a section never releases the directory list (R17.15 = C07 R7.3); include() judges the resolved file (R17.16 = C13 R13.5).',
 'C18': ' On a failing exit of a fallible appender the element count has its entry value (R18.10). The refusal analysis also covers the allocation-failure paths of the removal API (R18.7). A half-built list node is released alone, never with the caller\'s list linked behind it (R18.11).',
 'C19': ' The layout of an option is chosen by type from the set the reader dispatch knows (R19.5); the filter setter stores its argument whenever the context is non-NULL (R19.6). The print-callback setter stores its argument for every option type the printer writes through a callback (R19.10). A print callback set in the schema reaches every copy (R19.11 = C14 R14.8, member pf).',
}


def main():
    checks = []
    na = []
    for pid in sorted(P):
        d = P[pid]
        have = os.path.exists(os.path.join(HERE, 'lcverif', 'props', pid.lower() + '.py'))
        if have:
            checks.append({
                'property_id': pid,
                'quick_cmd': './check %s --tier quick' % pid,
                'thorough_cmd': './check %s --tier thorough' % pid,
                'evidence_file': '/verif/evidence/%s.json' % pid,
                'replay_cmd_template': './check explain {path}',
                'engine': 'lcverif',
                'level_claimed': {'category': 'other', 'text': d['text'] + MORE.get(pid, ''), 'design_ref': d['ref']},
                'level_note': d['note'],
                'technique': d['tech'],
            })
        else:
            na.append({'property_id': pid,
                       'reason': 'no static check is registered for it in this commit (planned rule: %s); %s'
                                 % (d['ref'], d.get('na', 'see DESIGN.md'))})
    man = {
        'version': 1,
        'setup_cmd': 'python3 -m compileall -q lcverif && ./check selftest-tools',
        'hooks': {
            'guard': 'LIBCONFUSE_VERIF',
            'enable': 'none needed: the checks analyse the unmodified sources (flex tables, LLVM IR); nothing is compiled into the library',
            'baseline_off_cmd': 'tools/baseline.sh /repo',
            'source_commits': [],
            'add_only': True,
        },
        'engines': [{
            'name': 'lcverif',
            'path': '/verif/lcverif',
            'serves_properties': [c['property_id'] for c in checks],
            'kind_free_text': 'purpose-built static analyser: LLVM-IR parser, CFG/dominators, path-sensitive conditional '
                              'constant propagation, flex DFA decoder, per-property rules (Python 3, stdlib only)',
        }],
        'checks': checks,
        'not_applicable': na,
        'notes': 'Static analysis only: no library code is executed by any check. Exit 2 = analysis broken (never folded into 0/1). '
                 'Genuine defects found are either repaired in /repo by fix: commits or listed in known_findings.json.',
    }
    with open(os.path.join(HERE, 'MANIFEST.json'), 'w') as fh:
        json.dump(man, fh, indent=1)
    print('claimed:', [c['property_id'] for c in checks])


if __name__ == '__main__':
    main()
