#!/usr/bin/env python3
"""tools/gen_reference.py - (re)generate spec/known_functions.json from the tree the checks were confirmed on.

The file lists the hand-written functions the rules were written against, with the source names and IR
types of their parameters.  It is used for two things only:
  * a function that is NOT listed is a helper somebody split off later: it is analysed as part of its callers;
  * a listed function whose parameters still have the listed types gets the listed parameter names, so that
    renaming a parameter does not change what a rule sees.
Run it only after reviewing that every check passes on the tree (it is a reference, not an input of a check),
and only when a rule has been written against a new function: a helper that merely carries part of a listed
function (like cfg_newsec(), split off cfg_setopt() by a later fix) is deliberately NOT listed, so that it keeps
being analysed as part of its caller."""
import json, os, sys
HERE = os.path.dirname(os.path.dirname(os.path.abspath(__file__)))
sys.path.insert(0, HERE)
from lcverif import ctx

c = ctx.Ctx(os.environ.get('LCVERIF_REPO', '/repo'))
funcs = []
params = {}
for m in c.modules:
    for n, f in sorted(m.funcs.items()):
        if n.startswith('yy') or n.startswith('cfg_yy') or not f.order:
            continue
        funcs.append(n)
        params[n] = [[p.ty, f.param_names.get(p.name)] for p in f.params]
out = {'comment': 'reference list of hand-written functions and their parameters (see tools/gen_reference.py)',
       'functions': sorted(set(funcs)), 'params': params}
json.dump(out, open(os.path.join(HERE, 'spec', 'known_functions.json'), 'w'), indent=1, sort_keys=True)
print('%d functions' % len(out['functions']))
