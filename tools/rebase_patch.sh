#!/bin/bash
# tools/rebase_patch.sh <patch.diff> <old-repo-commit> [-X theirs]
# Re-bases a stored patch (seeded change or refactoring) that stopped applying after a fix: commit in /repo:
# three-way cherry-pick in a scratch repository from the /repo commit it was written against onto /repo's HEAD.
# Prints the rebased diff to stdout (exit 0) or the conflict (exit 1).  Never touches /repo.
set -u
P=$(readlink -f "$1"); OLD=$2; shift 2
D=$(mktemp -d /tmp/lcv-rebase.XXXXXX); trap 'rm -rf "$D"' EXIT
mkdir -p "$D/src" && cd "$D" && git init -q . || exit 2
for f in confuse.c lexer.l confuse.h; do git -C /repo show "$OLD:src/$f" > "src/$f"; done
git add -A && git -c user.email=a@b -c user.name=x commit -qm old
git checkout -q -b ref && patch -p1 -s < "$P" >/dev/null || { echo "patch does not apply to $OLD" >&2; exit 2; }
git -c user.email=a@b -c user.name=x commit -qam ref
git checkout -q - 2>/dev/null
for f in confuse.c lexer.l confuse.h; do cp "/repo/src/$f" "src/$f"; done
git -c user.email=a@b -c user.name=x commit -qam new
if git -c user.email=a@b -c user.name=x cherry-pick "$@" ref >/dev/null 2>&1; then git diff HEAD~1 HEAD; exit 0; fi
git diff >&2; exit 1
