#!/bin/bash
# run every claimed check (quick tier) in parallel; one status line per property
cd "$(dirname "$0")/.."
ids=$(python3 -c "import json;print(' '.join(c['property_id'] for c in json.load(open('MANIFEST.json'))['checks']))")
tmp=$(mktemp -d)
for p in $ids; do ( ./check $p --tier ${1:-quick} > $tmp/$p.out 2>&1; echo $? > $tmp/$p.rc ) & done
wait
rc=0
for p in $ids; do r=$(cat $tmp/$p.rc); k=$(grep -c '^KNOWN-FINDING' $tmp/$p.out); echo "$p rc=$r known=$k $(tail -1 $tmp/$p.out)"; [ $r -ne 0 ] && { rc=1; grep -E '^\S+: \[|ANALYSIS-BROKEN|Traceback' $tmp/$p.out | head -5; }; done
rm -rf $tmp
exit $rc
