#!/usr/bin/env python3
"""Run every claimed check against every stored seeded change (/verif/seeded/*/patch.diff) and write
seeded/RESULTS.md plus 'caught_by' into each meta.json."""
import concurrent.futures as cf, json, os, re, shutil, subprocess, sys, tempfile
HERE = os.path.dirname(os.path.dirname(os.path.abspath(__file__)))

def run(name):
    d = os.path.join(HERE, 'seeded', name)
    t = tempfile.mkdtemp(prefix='lcv-seedr-')
    try:
        os.makedirs(os.path.join(t, 'repo', 'src')); os.makedirs(os.path.join(t, 'ev'))
        for f in ('confuse.c', 'confuse.h', 'compat.h', 'lexer.l', 'Makefile.am'):
            shutil.copy(os.path.join('/repo/src', f), os.path.join(t, 'repo', 'src', f))
        shutil.copy('/repo/config.h', os.path.join(t, 'repo', 'config.h'))
        r = subprocess.run(['patch', '-p1', '-s', '-i', os.path.join(d, 'patch.diff')], cwd=os.path.join(t, 'repo'), stdout=subprocess.PIPE, stderr=subprocess.STDOUT)
        if r.returncode:
            return name, None
        ids = [c['property_id'] for c in json.load(open(os.path.join(HERE, 'MANIFEST.json')))['checks']]
        env = dict(os.environ, LCVERIF_REPO=os.path.join(t, 'repo'), LCVERIF_EVIDENCE=os.path.join(t, 'ev'))
        out = {}
        for p in ids:
            r = subprocess.run([os.path.join(HERE, 'check'), p], env=env, stdout=subprocess.PIPE, stderr=subprocess.STDOUT)
            o = r.stdout.decode('latin-1')
            lines = [l for l in o.split('\n') if re.match(r'^\S+: \[R', l)]
            out[p] = (r.returncode, lines[:1])
        return name, out
    finally:
        shutil.rmtree(t, ignore_errors=True)

names = sorted(n for n in os.listdir(os.path.join(HERE, 'seeded')) if os.path.exists(os.path.join(HERE, 'seeded', n, 'patch.diff')))
rows = []
# --new: run only the changes that have no recorded result yet; the others keep the result recorded in their meta.json
ONLY_NEW = '--new' in sys.argv
todo = [n for n in names if not ONLY_NEW or 'caught_by' not in json.load(open(os.path.join(HERE, 'seeded', n, 'meta.json')))]
for n in names:
    if n not in todo:
        meta = json.load(open(os.path.join(HERE, 'seeded', n, 'meta.json')))
        rows.append((n, meta, ', '.join(x['check'] for x in meta.get('caught_by', [])) or 'NOT DETECTED', meta.get('analysis_broken_in', [])))
with cf.ThreadPoolExecutor(8) as ex:
    for name, out in ex.map(run, todo):
        mp = os.path.join(HERE, 'seeded', name, 'meta.json')
        meta = json.load(open(mp))
        if out is None:
            rows.append((name, meta, 'patch no longer applies', []))
            continue
        fired = [(p, rc, ls) for p, (rc, ls) in sorted(out.items()) if rc == 1]
        broken = [p for p, (rc, ls) in sorted(out.items()) if rc == 2]
        meta['caught_by'] = [{'check': p, 'report': (ls[0] if ls else '')[:300]} for p, rc, ls in fired]
        meta['analysis_broken_in'] = broken
        json.dump(meta, open(mp, 'w'), indent=1)
        rows.append((name, meta, ', '.join(p for p, _, _ in fired) or 'NOT DETECTED', broken))
rows.sort(key=lambda r: r[0])
with open(os.path.join(HERE, 'seeded', 'RESULTS.md'), 'w') as fh:
    fh.write('# Independent seeded changes and the checks that catch them\n\n')
    fh.write('Each change was written by a fresh sub-agent that saw only the property text and its own worktree; each was confirmed\n'
             '(suite passes with it, demo passes without it and fails with it) before being kept. Regenerate with `tools/seeded_report.py`.\n\n')
    fh.write('| change | breaks | what it does | caught by (exit 1) | first report |\n|---|---|---|---|---|\n')
    for name, meta, caught, broken in rows:
        rep = (meta.get('caught_by') or [{}])[0].get('report', '') if isinstance(meta.get('caught_by'), list) and meta.get('caught_by') else ''
        rep = re.sub(r'\|', '/', rep)[:160]
        fh.write('| %s | %s | %s | %s%s | %s |\n' % (name, meta.get('property', '?'), re.sub(r'\|', '/', meta.get('summary', ''))[:170], caught,
                                                    (' (analysis broken: %s)' % ','.join(broken)) if broken else '', rep))
nd = [r for r in rows if r[2] in ('NOT DETECTED', 'patch no longer applies')]
print('%d seeded changes, %d detected' % (len(rows), len(rows) - len(nd)))
for r in nd: print('  ', r[0], r[2])
own = sum(1 for name, meta, caught, broken in rows if meta.get('property') in caught)
print('%d caught by the check of the very property they target' % own)
